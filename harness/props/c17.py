"""C17 — personalization returns one aligned, finite, non-worsening estimate per subject."""
from __future__ import annotations

import contextlib
import io
import json
import math
import warnings

from harness.common import Run, coq_Q, coq_Z, coq_list, coq_string, frac
from harness.translate import c17_personalize

META = dict(
    technique="Coq theorems (induction over iteration lists / draws / slices, real analysis of the affine scaling) on a model of the "
              "three personalisation algorithms whose decision rules are regenerated from the Python AST; the model's executable "
              "definitions are run inside Coq (vm_compute, exact rationals) on the recorded chains of real seeded personalisations "
              "(default and non-default annealing schedules: single plateau ending at T=3, 3 plateaus, oscillations; burn-in 0 / n-1 / fractions) "
              "and on the real _AffineScalings1D, through a header that imports no regenerated file, next to an exact recomputation in the harness "
              "(a mismatch is shrunk to the offending individual and the two competing iterations and replayed on the real estimator); directed "
              "calls of the real estimators on synthetic histories with exact ties; implementation-side oracles on every kind x algorithm x cohort shape",
    level_text="Unbounded theorems: kept draws = iterations nb+1..n (count n-nb, none from burn-in); mode_posterior = for each individual the "
               "kept draw of minimal UNTEMPERED attachment+regularity, first index on ties, for every temperature schedule of the run "
               "(C17_mode_ignores_temperature); mean_posterior = exact mean over the kept draws; output "
               "aligned with the input identifiers (order, one entry each, declared shapes) for all three algorithms; slices partition the "
               "stacked vector, stack/unstack and scaling/unscaling are mutually inverse; obj(result) <= obj(start) in natural coordinates "
               "UNDER the named hypothesis minimise_monotone on the optimiser (the code adds no guard; refuted without it).",
    level_note="Trusted: Coq kernel; stdlib real-number axioms as printed; python-ast translator; torch kernels (stack, mean, argmin "
               "first-index convention - validated on every recorded chain, not proved), scipy.optimize.minimize (oracle hypothesis, "
               "validated on every run, not proved), joblib order (n_jobs=1 observed; n_jobs=2 compared end to end), float rounding "
               "(mean within 1e-5 relative; mode bit-exact up to float32 near-ties of the summed loss). Finiteness is checked on the "
               "implementation only.",
    design_ref="DESIGN.md section 4 C17",
)

OBLIGATIONS = [
    "C17_kept_draws", "C17_no_kept_draw", "C17_mode", "C17_mode_total", "C17_mean", "C17_mean_total", "C17_aligned", "C17_aligned_total",
    "C17_aligned_integer_ids_refuted", "C17_slices_partition", "C17_stack_unstack", "C17_scaling_roundtrip",
    "C17_scaling_roundtrip_vector", "C17_non_worsening", "C17_non_worsening_needs_hypothesis", "C17_scipy_cohort", "C17_scipy_total",
    "C17_tie_keep", "C17_tie_iterations", "C17_tie_axes", "C17_tie_mode_loss", "C17_tie_scaling", "C17_tie_scaling_Q",
    "C17_tie_objective", "C17_tie_ids",
    "C17_mode_ignores_temperature", "C17_annealed_is_plain", "C17_mode_tempered_rule_agrees_at_T1", "C17_mode_tempered_rule_differs",
]

# the model's executable definitions only: nothing regenerated is imported, so these cases run whatever happened to the translation
HDR_MODEL = ("From Coq Require Import String ZArith QArith List Bool.\nFrom Leaspy Require Import Base.QAux Api.Personalize Api.PersonalizeExec "
             "Api.PersonalizeAnneal Api.PersonalizeAnnealExec.\nOpen Scope string_scope.\n")
# ... plus the rules regenerated from the source (only when the translation and the build of Props/C17 succeeded)
HDR = HDR_MODEL + "From LeaspyGen Require Import GenC17.\n"
MODEL_TARGETS = ["theories/Api/PersonalizeExec.vo", "theories/Api/PersonalizeAnnealExec.vo"]
NEAR_TIE = 1e-6   # relative; float32 rounding of attachment + regularity


def translate(run: Run) -> bool:
    return c17_personalize.translate(run)


# ----------------------------------------------------------------------------- helpers


def quiet():
    return contextlib.redirect_stdout(io.StringIO())


def qlist(xs):
    return coq_list([coq_Q(x) for x in xs])


def ind_names(model):
    from leaspy.variables.specs import IndividualLatentVariable
    return sorted(model.dag.sorted_variables_by_type[IndividualLatentVariable])


def row_of(ip, pid, names):
    """flattened output row of one individual, variables in sorted-name order"""
    out = []
    for n in names:
        v = ip._individual_parameters[pid][n]
        out += list(v) if isinstance(v, (list, tuple)) else [v]
    return [float(x) for x in out]


def declared_dims(model, names):
    return {n: int(math.prod(model.dag[n].get_prior_shape(model.dag)) or 1) for n in names}


REPAIRS = {}   # what the generator had to repair, counted into the evidence by `cohort()`


def valid_cohort(df, kind):
    """Make a synthetic cohort one that leaspy documents as valid input, deterministically (no new random draw):
    every individual keeps at least one observed value; a joint cohort has at least one observed event and, when it has two
    individuals or more, at least one censored one (a single individual: an observed event, the reader refuses a cohort without any)."""
    df = df.copy()
    ycols = [c for c in df.columns if c.startswith("Y")]
    for pid, g in df.groupby("ID", sort=False):
        if g[ycols].isna().all().all():
            df.loc[g.index[0], ycols[0]] = 0.5
            REPAIRS["individual without any observation: first value set to 0.5"] = REPAIRS.get("individual without any observation: first value set to 0.5", 0) + 1
    if kind == "joint" and "EVENT_BOOL" in df.columns:
        ids = list(dict.fromkeys(df.ID))
        ev = df.groupby("ID", sort=False).EVENT_BOOL.first()
        if ev.max() == 0:
            df.loc[df.ID == ids[0], "EVENT_BOOL"] = 1
            REPAIRS["joint cohort without observed event: first individual's event made observed"] = REPAIRS.get("joint cohort without observed event: first individual's event made observed", 0) + 1
        ev = df.groupby("ID", sort=False).EVENT_BOOL.first()
        if len(ids) >= 2 and ev.min() == 1:
            df.loc[df.ID == ids[-1], "EVENT_BOOL"] = 0
            REPAIRS["joint cohort without censored event: last individual's event made censored"] = REPAIRS.get("joint cohort without censored event: last individual's event made censored", 0) + 1
    return df


def cohort(run: Run, kind="logistic", **kw):
    """synth.make_df made valid (see valid_cohort); repairs are counted in the evidence."""
    from harness import synth
    return valid_cohort(synth.make_df(kind=kind, joint=(kind == "joint"), **kw), kind)


def build_dataset(run: Run, df, kind, inp):
    """Dataset of a harness-made cohort.  A refusal by the data reader is a shortcoming of the generator, not of personalisation:
    the cohort is skipped and counted (never a failure of the property, never a crash of the search)."""
    from harness import synth
    from leaspy.exceptions import LeaspyDataInputError
    from leaspy.io.data import Dataset
    try:
        with quiet(), warnings.catch_warnings():
            warnings.simplefilter("ignore")
            return Dataset(synth.make_data(valid_cohort(df, kind), kind), no_warning=True)
    except LeaspyDataInputError as e:
        run.count("skipped_cohorts_refused_by_the_data_reader", f"{kind}/{inp.get('cohort')}: {str(e)[:80]}")
        run.extra["skipped_cohorts"] = run.extra.get("skipped_cohorts", 0) + 1
        return None


def reorder_blocks(df, order):
    import pandas as pd
    return pd.concat([df[df.ID == k] for k in order], ignore_index=True)


# ----------------------------------------------------------------------------- recording (wrap, never replace)


class McmcRecorder:
    """Snapshots the chain of one real sampling-based personalisation: the individual latent values after every
    sampler call (keyed by the algorithm's current iteration) and the stacked histories handed to the estimator."""

    def __init__(self):
        self.snaps = {}          # iteration -> {name: tensor}   (last snapshot of the iteration wins)
        self.tinv = {}           # iteration -> temperature_inv handed to the samplers of that iteration
        self.tinv_est = None     # self.temperature_inv when the estimator is called (after the last _update_temperature)
        self.temperature_est = None
        self.n_sample_calls = 0
        self.hist = None         # (values dict, attachments, regularities) as given to the estimator
        self.result = None
        self.algo = None
        self.names = None

    def __enter__(self):
        from leaspy.algo.personalize.mcmc import McmcPersonalizeAlgorithm
        from leaspy.algo.personalize.mean_posterior import MeanPosteriorAlgorithm
        from leaspy.algo.personalize.mode_posterior import ModePosteriorAlgorithm
        from leaspy.samplers.gibbs import IndividualGibbsSampler
        rec = self
        self._saved = [(McmcPersonalizeAlgorithm, "_initialize_algo", McmcPersonalizeAlgorithm._initialize_algo),
                       (IndividualGibbsSampler, "sample", IndividualGibbsSampler.sample)]
        o_init, o_sample = self._saved[0][2], self._saved[1][2]

        def init(self_, model, dataset):
            rec.algo = self_
            rec.names = ind_names(model)
            return o_init(self_, model, dataset)

        def sample(self_, state, *, temperature_inv):
            r = o_sample(self_, state, temperature_inv=temperature_inv)
            rec.n_sample_calls += 1
            if rec.algo is not None:
                rec.snaps[rec.algo.current_iteration] = {n: state[n].detach().clone() for n in rec.names}
                rec.tinv[rec.algo.current_iteration] = float(temperature_inv)
            return r
        McmcPersonalizeAlgorithm._initialize_algo = init
        IndividualGibbsSampler.sample = sample
        for cls in (MeanPosteriorAlgorithm, ModePosteriorAlgorithm):
            orig = cls._compute_individual_parameters_from_samples_torch
            self._saved.append((cls, "_compute_individual_parameters_from_samples_torch", orig))

            def est(self_, values, attachments, regularities, _orig=orig):
                rec.hist = ({k: v.detach().clone() for k, v in values.items()}, attachments.detach().clone(), regularities.detach().clone())
                rec.tinv_est = float(getattr(self_, "temperature_inv", 1.0))
                rec.temperature_est = float(getattr(self_, "temperature", 1.0))
                r = _orig(self_, values, attachments, regularities)
                rec.result = {k: v.detach().clone() for k, v in r.items()}
                return r
            cls._compute_individual_parameters_from_samples_torch = est
        return self

    def __exit__(self, *a):
        for cls, name, orig in self._saved:
            setattr(cls, name, orig)
        return False


class ScipyRecorder:
    """Records, per patient, the start point in natural coordinates, x0, every objective evaluation and the result."""

    def __init__(self):
        self.calls = []   # dicts

    def __enter__(self):
        import leaspy.algo.personalize.scipy_minimize as sm
        rec = self
        self._sm = sm
        self._o_min = sm.minimize
        self._o_pat = sm.ScipyMinimizeAlgorithm._get_individual_parameters_patient

        def pat(self_, state, *, scaling, with_jac, patient_id):
            cur = dict(patient_id=patient_id, with_jac=with_jac,
                       start={n: state[n].detach().clone() for n in state.dag.individual_variable_names}, evals=[],
                       scal=[(n, sc.loc.reshape(-1).tolist(), sc.scale.reshape(-1).tolist()) for n, sc in scaling.scalings.items()])
            rec.calls.append(cur)
            return rec._o_pat(self_, state, scaling=scaling, with_jac=with_jac, patient_id=patient_id)

        def minimize(fun, *a, **kw):
            cur = rec.calls[-1]
            import numpy as np

            def recording(x, *args):
                v = fun(x, *args)
                cur["evals"].append((np.array(x, dtype=float).copy(), v))
                return v
            cur["x0"] = np.array(kw["x0"], dtype=float).copy()
            cur["method"] = kw.get("method")
            res = rec._o_min(recording, *a, **kw)
            cur["x"] = np.array(res.x, dtype=float).copy()
            cur["fun"] = float(res.fun)
            cur["success"] = bool(res.success)
            return res
        sm.minimize = minimize
        sm.ScipyMinimizeAlgorithm._get_individual_parameters_patient = pat
        return self

    def __exit__(self, *a):
        self._sm.minimize = self._o_min
        self._sm.ScipyMinimizeAlgorithm._get_individual_parameters_patient = self._o_pat
        return False


def fresh_state(model, df_one, kind):
    """A FRESH state holding only the data of the given rows (built from the caller's table, not from the algorithm's objects)."""
    from harness import synth
    from leaspy.io.data import Dataset
    from leaspy.io.data import Data
    st = model.state.clone(disable_auto_fork=True)
    with quiet():
        if kind == "joint":
            data = Data.from_dataframe(df_one, data_type="joint", factory_kws={"nb_events": model.nb_events})
        else:
            data = synth.make_data(df_one, kind)
        ds = Dataset(data, no_warning=True)
    model.put_data_variables(st, ds)
    return st, ds


def fresh_objective(model, st, names, dims, row):
    """attachment + regularity of one individual at the flattened row, on the given fresh single-individual state"""
    import torch
    pos = 0
    for n in names:
        st[n] = torch.tensor(row[pos:pos + dims[n]], dtype=torch.float32).reshape(1, dims[n])
        pos += dims[n]
    return float((st["nll_attach"] + st["nll_regul_ind_sum"]).item())


# ----------------------------------------------------------------------------- A. the real _AffineScalings1D


def scalings_cases(run: Run, n_cases: int):
    import numpy as np
    import torch
    from leaspy.algo.personalize.scipy_minimize import _AffineScaling, _AffineScalings1D
    rng = run.rng("scalings")
    cases, meta = [], []
    for c in range(n_cases):
        nvar = rng.randint(1, 4)
        dims = [rng.randint(1, 3) for _ in range(nvar)]
        names = [f"v{i}" for i in range(nvar)]
        if rng.random() < 0.5:
            names = names[::-1]      # insertion order, not sorted order, decides
        scal = {}
        for n, d in zip(names, dims):
            loc = [rng.randrange(-64, 64) / 8.0 for _ in range(d)]
            scale = [rng.choice([0.25, 0.5, 1.0, 2.0, 4.0]) for _ in range(d)]
            scal[n] = _AffineScaling(torch.tensor(loc), torch.tensor(scale))
        m = dict(names=names, dims=dims)
        try:
            sc = _AffineScalings1D(scal)
            tot = sum(dims)
            z = [rng.randrange(-32, 32) / 4.0 for _ in range(tot)]
            ips = {n: torch.tensor([rng.randrange(-64, 64) / 4.0 for _ in range(d)]) for n, d in zip(names, dims)}
            un = sc.unscaling(np.array(z))
            scd = sc.scaling(ips)
            ust = sc.unstack(torch.tensor(z))
            stk = sc.stack(ips)
            sl = [(sc.slices[n].start, sc.slices[n].stop) for n in names]
            if list(un.keys()) != names or list(ust.keys()) != names or any(tuple(un[n].shape) != (1, d) for n, d in zip(names, dims)):
                run.fail("scalings:unscaling-shape", "unscaling does not return one (1, dim) tensor per variable, in order", m,
                         observed={n: tuple(v.shape) for n, v in un.items()})
                continue
        except Exception as e:
            run.fail(f"scalings:raises:{type(e).__name__}", f"_AffineScalings1D raised {type(e).__name__}: {e}", m)
            continue
        run.case(("scalings", tuple(names), tuple(dims), c), nontrivial=nvar >= 2)
        run.count("scalings_n_variables", nvar)
        # the same rule recomputed in the harness (all numbers are dyadic: exact in float32), so that a mismatch has a self-contained replay
        pos, exp_un, exp_sc = 0, {}, []
        for n, d in zip(names, dims):
            lo, sc_ = scal[n].loc.tolist(), scal[n].scale.tolist()
            exp_un[n] = [lo[j] + sc_[j] * z[pos + j] for j in range(d)]
            exp_sc += [(ips[n].tolist()[j] - lo[j]) / sc_[j] for j in range(d)]
            pos += d
        obs_un = {n: [float(x) for x in un[n].reshape(-1).tolist()] for n in names}
        if obs_un != exp_un or [float(x) for x in scd.tolist()] != exp_sc:
            run.fail("scalings:model-mismatch", "_AffineScalings1D.unscaling / scaling is not loc + scale * x / (x - loc) / scale of each variable on its own slice",
                     dict(m, z=z, loc={n: scal[n].loc.tolist() for n in names}, scale={n: scal[n].scale.tolist() for n in names}, ips={n: ips[n].tolist() for n in names}),
                     expected=dict(unscaling=exp_un, scaling=exp_sc), observed=dict(unscaling=obs_un, scaling=[float(x) for x in scd.tolist()]))
        scal_c = coq_list([coq_list([f"({coq_Q(l)}, {coq_Q(s)})" for l, s in zip(scal[n].loc.tolist(), scal[n].scale.tolist())]) for n in names])
        cases.append("(" + ", ".join([
            scal_c, qlist(z), coq_list([qlist(ips[n].tolist()) for n in names]),
            coq_list([f"({a}, {b})%nat" for a, b in sl]), f"{len(sc)}%nat",
            coq_list([qlist(un[n].reshape(-1).tolist()) for n in names]), qlist(scd.tolist()),
            coq_list([qlist(ust[n].reshape(-1).tolist()) for n in names]), qlist(stk.tolist())]) + ")")
        meta.append(dict(m, slices=sl, z=z, loc={n: scal[n].loc.tolist() for n in names}, scale={n: scal[n].scale.tolist() for n in names},
                         ips={n: ips[n].tolist() for n in names}, unscaling={n: un[n].reshape(-1).tolist() for n in names}, scaling=scd.tolist()))
    ty = "list (list (Q * Q)) * list Q * list (list Q) * list (nat * nat) * nat * list (list Q) * list Q * list (list Q) * list Q"
    bad = run.vm_bad_indices("scalings", HDR_MODEL, ty, cases,
                             "(fun c => match c with (scal, z, ips, sl, len, un, scd, ust, stk) => check_scalings scal z ips sl len un scd ust stk end)")
    for i in bad or []:
        run.fail("scalings:model-mismatch", "_AffineScalings1D (slices / stack / unstack / scaling / unscaling) differs from the model on exact inputs", meta[i])
    if meta:
        run.sample(dict(kind="scalings", **meta[0]))


# ----------------------------------------------------------------------------- B. recorded chains through the model

SCHEDULES = {
    # name -> the `annealing` settings handed to personalize (None = the defaults: annealing off, temperature 1 throughout)
    "default": None,
    # accepted with a warning: the whole run, and the call of the estimator, happen at temperature 3 (temperature_inv = 1/3)
    "plateau1-T3": dict(do_annealing=True, initial_temperature=3, n_plateau=1),
    # a proper scheme: 3 -> 2 -> 1 during the first half of the iterations; ends at temperature 1
    "linear3-T3": dict(do_annealing=True, initial_temperature=3, n_plateau=3),
    # oscillating scheme (the constructor only warns about keys absent from the defaults): ends wherever the sine left it
    "oscillations": dict(do_annealing=True, initial_temperature=3, n_plateau=3, oscillations=True, range=1.0, delay=0.5, period=4),
}


class Acc:
    """Coq literals (+ the input they come from) accumulated over the recorded runs of one check."""

    def __init__(self):
        self.mode, self.mode_meta = [], []
        self.mean, self.mean_meta = [], []
        self.count, self.count_meta = [], []
        self.empty, self.empty_meta = [], []


def chain_case(run: Run, model, df, kind, algo, n_iter, nb=None, frac_=None, seed=0, tag="", ann=None, sched="default"):
    """One real sampling-based personalisation, recorded.  Returns a dict or None (failure already reported)."""
    import torch
    from harness import synth
    from leaspy.io.data import Dataset
    inp = dict(kind=kind, algo=algo, n_iter=n_iter, n_burn_in_iter=nb, n_burn_in_iter_frac=frac_, seed=seed, cohort=tag, n_ind=int(df.ID.nunique()))
    kw = dict(n_iter=n_iter, n_burn_in_iter=nb, n_burn_in_iter_frac=frac_)
    if frac_ == "default":
        # an explicit count with the fraction LEFT at its default (0.5): the documented priority is the explicit count
        del kw["n_burn_in_iter_frac"]
    if ann is not None:
        inp["schedule"] = sched
        inp["annealing"] = dict(ann)
        kw["annealing"] = dict(ann)
    dataset = build_dataset(run, df, kind, inp)
    if dataset is None:
        return None
    rec = McmcRecorder()
    err = None
    ip = None
    with rec, warnings.catch_warnings():
        warnings.simplefilter("ignore")
        try:
            with quiet():
                ip = model.personalize(dataset, algo, seed=seed, progress_bar=False, **kw)
        except Exception as e:  # noqa
            err = e
    if rec.algo is None:
        run.fail(f"mcmc:{kind}:{type(err).__name__ if err else 'no-run'}", f"{algo} on a {kind} model did not start: {type(err).__name__}: {err}", inp)
        return None
    nb_eff = int(rec.algo.algo_parameters["n_burn_in_iter"])
    # the burn-in in force DURING the run: the explicit count when one is given (documented priority over the fraction), else the
    # configured fraction of the iterations
    nb_doc = int(nb) if nb is not None else (int(float(frac_) * n_iter) if isinstance(frac_, (int, float)) else None)
    if nb_doc is not None and nb_eff != nb_doc:
        run.fail("mcmc:burn-in-in-force-is-not-the-configured-one",
                 f"{algo}: the run used n_burn_in_iter={nb_eff}, the configuration says {nb_doc} "
                 f"({'explicit count' if nb is not None else 'fraction of the iterations'})", inp, expected=nb_doc, observed=nb_eff)
        nb_eff = nb_doc        # the kept draws below are judged against the documented count
    names = rec.names
    out = dict(inp=inp, nb_eff=nb_eff, names=names, rec=rec, err=err, ip=ip, dataset=dataset)
    iters = sorted(rec.snaps)
    if err is not None and not iters:
        sig = f"personalize:{kind}-mcmc-crash" if kind == "mixture_logistic" else f"mcmc:{kind}:raises:{type(err).__name__}"
        run.fail(sig, f"{algo} on a {kind} model raised {type(err).__name__}: {str(err)[:200]}", inp)
        return None
    if iters != list(range(1, n_iter + 1)):
        run.fail("mcmc:iterations", f"samplers ran at iterations {iters[:3]}..{iters[-3:]} instead of 1..{n_iter}", inp)
        return None
    # fresh recomputation of attachment / regularity for every iteration (burn-in included)
    st = model.state.clone(disable_auto_fork=True)
    model.put_data_variables(st, dataset)
    chain = []
    for k in iters:
        for n in names:
            st[n] = rec.snaps[k][n]
        a = st.get_tensor_value("nll_attach_ind").detach().clone().reshape(-1)
        r = st.get_tensor_value("nll_regul_ind_sum_ind").detach().clone().reshape(-1)
        vals = torch.cat([rec.snaps[k][n].reshape(rec.snaps[k][n].shape[0], -1) for n in names], dim=1)
        chain.append((vals, a, r))
    out["chain"] = chain
    out["tinv"] = [rec.tinv.get(k, 1.0) for k in iters]
    run.count("schedule", sched)
    if rec.temperature_est is not None:
        run.count("temperature_when_estimator_is_called", f"{sched}: {rec.temperature_est:.4g}")
    return out


def loss_pair(c, att_rec, k, i):
    """(attachment, regularity) of individual i at iteration k: the value handed to the estimator when the iteration was kept,
    the from-scratch recomputation otherwise (burn-in)."""
    if k in att_rec:
        a, r = att_rec[k]
    else:
        _, a, r = c["chain"][k - 1]
    return float(a[i]), float(r[i])


def draw_record(c, att_rec, k, i, kept):
    a, r = loss_pair(c, att_rec, k, i)
    return dict(iteration=k, kept_after_burn_in=bool(k in kept), values=[float(x) for x in c["chain"][k - 1][0][i].tolist()],
                attachment=a, regularity=r, loss=float(frac(a) + frac(r)),
                temperature_inv_of_the_samplers=c["tinv"][k - 1] if k - 1 < len(c["tinv"]) else None)


def estimator_on(c, i, ks, att_rec):
    """The REAL estimator of the recorded run (same algorithm object, in the state the run left it in: temperature included) applied
    to the history of individual i shrunk to the iterations ks.  Returns the flattened row, or a string when it raises."""
    import torch
    rec, names = c["rec"], c["names"]
    try:
        values = {n: torch.stack([rec.snaps[k][n][i:i + 1].clone() for k in ks]) for n in names}
        a = torch.tensor([[loss_pair(c, att_rec, k, i)[0]] for k in ks], dtype=torch.float32)
        r = torch.tensor([[loss_pair(c, att_rec, k, i)[1]] for k in ks], dtype=torch.float32)
        out = type(rec.algo)._compute_individual_parameters_from_samples_torch(rec.algo, values, a, r)
        return [float(x) for n in names for x in out[n].reshape(-1).tolist()]
    except Exception as e:  # noqa
        return f"{type(e).__name__}: {e}"


def py_mode_oracle(run: Run, c, rows, att_rec):
    """The extracted rule, recomputed in the harness on exact rationals: for each individual the FIRST iteration after burn-in minimising
    attachment + regularity.  Returns one shrunk chain (the offending individual, the two competing iterations) per mismatch."""
    inp, chain, nb, n_iter = c["inp"], c["chain"], c["nb_eff"], c["inp"]["n_iter"]
    ids = [str(i) for i in c["dataset"].indices]
    kept = list(range(max(1, nb + 1), n_iter + 1))
    bad = []
    for i, pid in enumerate(ids):
        loss = {}
        for k in kept:
            a, r = loss_pair(c, att_rec, k, i)
            loss[k] = frac(a) + frac(r)
        m = min(loss.values())
        k_model = next(k for k in kept if loss[k] == m)
        expected = [float(x) for x in chain[k_model - 1][0][i].tolist()]
        row = [float(x) for x in rows[i]]
        if row == expected:
            continue
        same = [k for k in range(1, n_iter + 1) if [float(x) for x in chain[k - 1][0][i].tolist()] == row]
        same_kept = [k for k in same if k in loss]
        if same_kept and min(loss[k] for k in same_kept) <= m + frac(NEAR_TIE) * (1 + abs(m)):
            run.count("mode_python_oracle", "float32 near-tie of attachment + regularity")
            continue
        k_impl = same_kept[0] if same_kept else (same[0] if same else None)
        how = ("a kept draw of strictly higher attachment + regularity" if same_kept else
               "a draw of the burn-in phase" if same else "not a draw of that individual at all")
        shrunk = dict(individual=pid, index=i, variables={n: int(math.prod(c["rec"].snaps[1][n].shape[1:]) or 1) for n in c["names"]},
                      n_burn_in_iter_effective=nb, kept_iterations=[kept[0], kept[-1]],
                      temperature_inv_when_estimator_called=c["rec"].tinv_est,
                      expected_iteration=k_model, returned_iteration=k_impl, returned_is=how, returned_row=row, expected_row=expected,
                      draws=[draw_record(c, att_rec, k, i, kept) for k in sorted({k_model} | ({k_impl} if k_impl else set()))])
        if k_impl is not None:
            ks = sorted({k_model, k_impl})
            got = estimator_on(c, i, ks, att_rec)
            shrunk["estimator_on_the_two_draws_returns"] = got
            shrunk["shrunk_chain_reproduces"] = bool(got == row)
        bad.append((shrunk, how))
    return bad


def py_mean_oracle(run: Run, c, rows):
    """mean over the iterations after burn-in, recomputed from the snapshots of the chain (not from the histories the code built)"""
    chain, nb, n_iter = c["chain"], c["nb_eff"], c["inp"]["n_iter"]
    ids = [str(i) for i in c["dataset"].indices]
    kept = list(range(max(1, nb + 1), n_iter + 1))
    bad = []
    for i, pid in enumerate(ids):
        for j in range(len(rows[i])):
            col = {k: float(chain[k - 1][0][i][j]) for k in range(1, n_iter + 1)}
            exp = float(sum(frac(col[k]) for k in kept) / len(kept))
            if abs(rows[i][j] - exp) <= 1e-5 * (1 + abs(exp)):
                continue
            alt = {"the mean over ALL iterations (burn-in included)": float(sum(frac(v) for v in col.values()) / len(col)),
                   "the last draw": col[n_iter], "the first kept draw": col[kept[0]]}
            if len(kept) > 1:
                alt["the mean over the kept draws but the first"] = float(sum(frac(col[k]) for k in kept[1:]) / (len(kept) - 1))
            hint = [w for w, v in alt.items() if abs(rows[i][j] - v) <= 1e-5 * (1 + abs(v))]
            bad.append((dict(individual=pid, index=i, coordinate=j, n_burn_in_iter_effective=nb, kept_iterations=[kept[0], kept[-1]],
                             expected_mean=exp, returned=rows[i][j], returned_looks_like=hint,
                             draws=[dict(iteration=k, kept_after_burn_in=k in kept, value=col[k]) for k in col]), hint))
            break   # one coordinate per individual is enough
    return bad


def chain_checks(run: Run, c, acc: Acc):
    """One recorded run through the oracles; a crash of the harness on one run is reported and does not stop the search."""
    try:
        _chain_checks(run, c, acc)
    except Exception as e:  # noqa
        import traceback
        run.broken("search:chain-checks", f"{type(e).__name__}: {e} on {c['inp']}\n{traceback.format_exc()[-1200:]}")


def _chain_checks(run: Run, c, acc: Acc):
    """Python-side oracles on one recorded run + Coq literals for the model-side comparison."""
    import torch
    inp, rec, names, chain, nb, n_iter = c["inp"], c["rec"], c["names"], c["chain"], c["nb_eff"], c["inp"]["n_iter"]
    algo = inp["algo"]
    n_ind = inp["n_ind"]
    ids = [str(i) for i in c["dataset"].indices]
    dim = int(chain[0][0].shape[1])

    def chain_lit(att_override=None):
        rows = []
        for k, (vals, a, r) in enumerate(chain, 1):
            aa, rr = (att_override.get(k) or (a, r)) if att_override else (a, r)
            rows.append(coq_list(["(" + qlist(vals[i].tolist()) + f", {coq_Q(aa[i])}, {coq_Q(rr[i])})" for i in range(n_ind)]))
        return coq_list(rows)
    ids_lit = coq_list([coq_string(i) for i in ids])
    if c["err"] is not None:
        # the model says EmptyHistory exactly when no iteration is kept
        run.count("mcmc_outcome", "raised:" + type(c["err"]).__name__)
        if nb < n_iter:
            run.fail(f"mcmc:raises:{type(c['err']).__name__}", f"{algo} raised {type(c['err']).__name__}: {str(c['err'])[:200]} although iterations {nb + 1}..{n_iter} are after burn-in", inp)
            return
        run.case(("empty", inp["kind"], algo, n_iter, nb, inp.get("schedule")), nontrivial=True)
        acc.empty.append(f"({coq_Z(n_iter)}, {coq_Z(nb)}, {ids_lit}, {dim}%nat, {chain_lit()})")
        acc.empty_meta.append(inp)
        return
    run.count("mcmc_outcome", "returned")
    # ---- output container
    ip = c["ip"]
    if [str(i) for i in ip._indices] != ids:
        run.fail("aligned:ids", "output identifiers differ from the input identifiers / order", inp, expected=ids, observed=list(ip._indices))
        return
    rows = [row_of(ip, i, names) for i in ids]
    if any(not all(math.isfinite(x) for x in r) for r in rows):
        run.fail("finite:mcmc", "non-finite individual parameter returned", inp)
    # ---- what the estimator was given (when the hook is still where the recorder expects it)
    att_rec = {}
    n_kept = None
    hist_vals = None
    expected_kept = list(range(max(1, nb + 1), n_iter + 1))
    if rec.hist is None:
        run.count("mcmc_outcome", "estimator-hook-not-called: oracles run on the snapshots only")
    else:
        values, att, reg = rec.hist
        n_kept = int(att.shape[0])
        run.case(("count", inp["kind"], algo, n_iter, nb, inp["n_burn_in_iter_frac"], inp.get("schedule")), nontrivial=0 < nb < n_iter)
        acc.count.append(f"({coq_Z(n_iter)}, {coq_Z(nb)}, {n_kept}%nat)")
        acc.count_meta.append(dict(inp, kept=n_kept, expected=len(expected_kept)))
        if n_kept != len(expected_kept):
            run.fail("mcmc:kept-count", "number of kept draws is not n_iter - n_burn_in_iter", dict(inp, n_burn_in_iter_effective=nb),
                     expected=len(expected_kept), observed=n_kept)
        if any(int(v.shape[0]) != n_kept for v in values.values()) or int(reg.shape[0]) != n_kept:
            run.fail("mcmc:histories-misaligned", "the three histories do not have the same number of draws", inp)
            return
        # kept history == chain[nb+1..n] bit for bit (python side; the Coq side repeats it through `history`)
        hist_vals = torch.cat([values[n].reshape(n_kept, n_ind, -1) for n in names], dim=2)
        expected = [chain[k - 1][0] for k in expected_kept]
        same = len(expected) == n_kept and all(torch.equal(hist_vals[d].double(), expected[d].double()) for d in range(n_kept))
        if not same:
            kept_iters = []
            for d in range(n_kept):
                kept_iters.append([k for k in range(1, n_iter + 1) if torch.equal(hist_vals[d].double(), chain[k - 1][0].double())][:1])
            run.fail("mcmc:kept-draws", "the draws kept are not exactly the iterations after burn-in", dict(inp, n_burn_in_iter_effective=nb),
                     expected=expected_kept, observed=kept_iters)
        # fresh attachment / regularity vs the recorded ones on the kept iterations
        worst = 0.0
        for d, k in enumerate(expected_kept):
            if d >= n_kept:
                break
            _, a, r = chain[k - 1]
            att_rec[k] = (att[d].reshape(-1), reg[d].reshape(-1))
            for x, y in ((a, att[d].reshape(-1)), (r, reg[d].reshape(-1))):
                e = ((x.double() - y.double()).abs() / (1 + y.double().abs())).max().item()
                worst = max(worst, e)
        if worst > 1e-4:
            run.fail("mcmc:stale-loss", f"attachment / regularity recorded in the history differ from a from-scratch recomputation (rel {worst:.2g})", inp)
        run.extra["max_rel_gap_recorded_vs_fresh_loss"] = max(run.extra.get("max_rel_gap_recorded_vs_fresh_loss", 0.0), worst)
    # ---- the extracted rule recomputed in the harness (always runs: needs neither the translation nor Coq)
    meta = dict(inp, n_burn_in_iter_effective=nb)
    if not expected_kept:
        run.fail("mcmc:returns-without-kept-draw", f"{algo} returned although no iteration is after burn-in (n_iter={n_iter}, n_burn_in_iter={nb}): "
                 "the rows cannot be the mean / the lowest-loss draw of the draws kept after burn-in", meta, expected="an error (no draw to return)", observed=rows[0])
        return
    if algo == "mode_posterior":
        for shrunk, how in py_mode_oracle(run, c, rows, att_rec):
            run.fail("mode:not-the-lowest-loss-draw",
                     f"mode_posterior returned for individual {shrunk['individual']!r} the draw of iteration {shrunk['returned_iteration']} ({how}) instead of the "
                     f"first draw after burn-in of minimal attachment + regularity (iteration {shrunk['expected_iteration']}); temperature_inv when the "
                     f"estimator was called: {rec.tinv_est}", dict(meta, chain=shrunk), expected=shrunk["expected_row"], observed=shrunk["returned_row"])
            meta = dict(meta, chain=shrunk)
        run.count("mode_python_oracle", "compared")
    else:
        for shrunk, hint in py_mean_oracle(run, c, rows):
            run.fail("mean:not-the-mean-of-kept-draws",
                     f"mean_posterior returned for individual {shrunk['individual']!r}, coordinate {shrunk['coordinate']}, {shrunk['returned']!r} instead of the mean "
                     f"{shrunk['expected_mean']!r} of the draws of iterations {shrunk['kept_iterations'][0]}..{shrunk['kept_iterations'][1]}"
                     + (f" (it is {hint[0]})" if hint else ""), dict(meta, chain=shrunk), expected=shrunk["expected_mean"], observed=shrunk["returned"])
            meta = dict(meta, chain=shrunk)
        run.count("mean_python_oracle", "compared")
    # ---- the same, as literals for the model executed inside Coq
    impl_lit = coq_list([f"({coq_string(i)}, {qlist(r)})" for i, r in zip(ids, rows)])
    kept_n = n_kept if n_kept is not None else len(expected_kept)
    run.case(("chain", inp["kind"], algo, n_iter, nb, inp["cohort"], inp["seed"], inp.get("schedule")), nontrivial=kept_n >= 2 and n_ind >= 2)
    run.count("chain_kept_draws", kept_n)
    with_h = hist_vals is not None and (inp["cohort"].startswith("grid") or n_ind <= 2)
    hist_lit = (coq_list([coq_list([qlist(hist_vals[d][i].tolist()) for i in range(n_ind)]) for d in range(n_kept)]) if with_h else "[]") + (", true" if with_h else ", false")
    lit = chain_lit(att_rec)
    if algo == "mode_posterior":
        tinv_lit = qlist(list(c["tinv"]) + [rec.tinv_est if rec.tinv_est is not None else 1.0])
        acc.mode.append(f"({coq_Z(n_iter)}, {coq_Z(nb)}, {tinv_lit}, {ids_lit}, {lit}, {impl_lit}, {hist_lit})")
        acc.mode_meta.append(meta)
    else:
        acc.mean.append(f"({coq_Z(n_iter)}, {coq_Z(nb)}, {ids_lit}, {dim}%nat, {lit}, {impl_lit}, {hist_lit})")
        acc.mean_meta.append(meta)
    run.sample(dict(kind_="chain", **inp, n_burn_in_effective=nb, kept=kept_n, temperature_inv_when_estimator_called=rec.tinv_est, first_row=rows[0]), limit=4)


def run_chain_cases(run, acc: Acc, gen_ok=True, model_ok=True, part=""):
    """The model's executable definitions, run inside Coq on the recorded chains (the families run concurrently).  Only the comparison of
    the regenerated kept-draw test needs the generated file; everything else imports the model alone."""
    from concurrent.futures import ThreadPoolExecutor
    if not model_ok:
        run.extra["coq_side_of_the_chain_replay"] = "skipped: the model's executable definitions did not build (reported as broken); python oracles ran"
        return {}
    CH = "list (list (list Q * Q * Q))"
    ty_mode = f"Z * Z * list Q * list string * {CH} * list (string * list Q) * list (list (list Q)) * bool"
    ty_mean = f"Z * Z * list string * nat * {CH} * list (string * list Q) * list (list (list Q)) * bool"
    ty_empty = f"Z * Z * list string * nat * {CH}"
    jobs = dict(
        count=("count" + part, HDR_MODEL, "Z * Z * nat", acc.count, "(fun c => match c with (n, nb, k) => check_count n nb k end)", 400),
        mode=("mode" + part, HDR_MODEL, ty_mode, acc.mode,
              "(fun c => match c with (n, nb, tinv, ids, l, impl, h, uh) => check_mode_annealed n nb tinv ids l impl && (negb uh || check_history n nb l h) end)", 8),
        mean=("mean" + part, HDR_MODEL, ty_mean, acc.mean,
              "(fun c => match c with (n, nb, ids, dim, l, impl, h, uh) => check_mean (1 # 100000) n nb ids dim l impl && (negb uh || check_history n nb l h) end)", 8),
        empty=("empty" + part, HDR_MODEL, ty_empty, acc.empty, "(fun c => match c with (n, nb, ids, dim, l) => check_empty n nb ids dim l end)", 8),
    )
    if gen_ok:
        jobs["count_gen"] = ("count_gen" + part, HDR, "Z * Z * nat", acc.count,
                             "(fun c => match c with (n, nb, k) => Nat.eqb (length (filter (fun i => gen_keep i nb) (zrange gen_iter_lo (gen_iter_hi n)))) k end)", 400)
    else:
        run.extra["regenerated_rules_executed"] = "no: translation / proof broken in this run; the model's own rules were executed on the recorded chains"
    with ThreadPoolExecutor(5) as ex:
        fut = {k: ex.submit(run.vm_bad_indices, *v[:5], shard=v[5]) for k, v in jobs.items()}
        res = {k: f.result() for k, f in fut.items()}
    for i in sorted(set(res["count"] or []) | set(res.get("count_gen") or [])):
        m = acc.count_meta[i]
        run.fail("mcmc:kept-count", "number of kept draws is not n_iter - n_burn_in_iter", m, expected=m["expected"], observed=m["kept"])
    bad = res["mode"]
    near = 0
    if bad:
        sub = [acc.mode[i] for i in bad]
        bad2 = run.vm_bad_indices("mode_lenient" + part, HDR_MODEL, ty_mode, sub,
                                  f"(fun c => match c with (n, nb, tinv, ids, l, impl, h, uh) => check_mode_lenient ({coq_Q(NEAR_TIE)}) n nb ids l impl && (negb uh || check_history n nb l h) end)", shard=8)
        near = len(bad) - len(bad2 or [])
        for j in bad2 or []:
            m = acc.mode_meta[bad[j]]
            run.fail("mode:not-the-lowest-loss-draw", "mode_posterior row is not the first kept draw of minimal attachment + regularity of that individual "
                     "(model executed in Coq on the recorded chain)" + ("" if "chain" in m else "; the harness' own recomputation agreed with the implementation: see `coq_case`"),
                     m if "chain" in m else dict(m, coq_case=acc.mode[bad[j]][:20000]))
    stats = dict(mode_cases_bit_exact=len(acc.mode) - len(bad or []), mode_cases_float32_near_tie=near,
                 chains_executed_in_coq=len(acc.mode) + len(acc.mean) + len(acc.empty))
    for i in res["mean"] or []:
        m = acc.mean_meta[i]
        run.fail("mean:not-the-mean-of-kept-draws", "mean_posterior row is not the mean of the draws kept after burn-in (model executed in Coq on the recorded chain)",
                 m if "chain" in m else dict(m, coq_case=acc.mean[i][:20000]))
    for i in res["empty"] or []:
        run.fail("mcmc:raises-with-kept-draws", "the implementation raised although the model keeps at least one draw", acc.empty_meta[i])
    return stats


def merge_stats(run, *stats):
    for st in stats:
        for k, v in (st or {}).items():
            run.extra[k] = run.extra.get(k, 0) + v


# ----------------------------------------------------------------------------- C. every kind x algorithm x cohort shape


def cohorts(kind, thorough, seed):
    """name -> DataFrame; IDs are strings (integer IDs are probed separately)."""
    from harness import synth
    joint = kind == "joint"
    n_feat = 1 if joint else 3
    mk = lambda **kw: valid_cohort(synth.make_df(n_feat=n_feat, joint=joint, kind=kind, **kw), kind)
    out = {}
    out["one-individual"] = mk(n_ind=1, seed=seed + 1)
    d = mk(n_ind=5, seed=seed + 2)
    out["one-visit-each"] = valid_cohort(d.groupby("ID").head(1).reset_index(drop=True), kind)
    if not joint:
        out["missing-data"] = mk(n_ind=6, seed=seed + 3, missing=0.35)
    d = mk(n_ind=6, seed=seed + 4)
    ids = sorted(d.ID.unique())
    new = ["10", "9", "007", "1e3", "2.0", "b"]
    d["ID"] = d.ID.map(dict(zip(ids, new)))
    out["shuffled-numeric-looking-ids"] = valid_cohort(reorder_blocks(d, ["9", "b", "10", "1e3", "007", "2.0"]), kind)
    if thorough or kind in ("logistic",):
        out["thirty"] = mk(n_ind=30, seed=seed + 5)
    return out


def model_variants(run, kind, thorough):
    """(tag, model) : a freshly fitted model and the same model saved and loaded."""
    import os
    import tempfile
    from harness import synth
    from leaspy.models import BaseModel
    kw = dict(noise="gaussian-diagonal") if kind == "mixture_logistic" else {}
    n_feat = 1 if kind == "joint" else 3
    try:
        df_fit = cohort(run, kind, n_ind=14, n_feat=n_feat, seed=run.seed % 1000, binary=(kw.get("noise") == "bernoulli"))
        m, df = synth.fit(kind, n_iter=40, seed=run.seed % 1000, n_ind=14, n_feat=n_feat, df=df_fit, **kw)
    except Exception as e:
        from leaspy.exceptions import LeaspyDataInputError
        if isinstance(e, LeaspyDataInputError):
            run.count("skipped_cohorts_refused_by_the_data_reader", f"{kind}/training cohort: {str(e)[:80]}")
            run.extra["skipped_cohorts"] = run.extra.get("skipped_cohorts", 0) + 1
            return []
        run.fail(f"setup:fit-raises:{kind}", f"fit of a {kind} model raised {type(e).__name__}: {e}", dict(kind=kind))
        return []
    fd, p = tempfile.mkstemp(suffix=".json")
    os.close(fd)
    try:
        m.save(p)
        loaded = BaseModel.load(p)
    except Exception as e:
        run.fail(f"setup:save-load-raises:{kind}", f"save/load of a {kind} model raised {type(e).__name__}: {e}", dict(kind=kind))
        loaded = None
    finally:
        os.unlink(p)
    out = []
    if loaded is not None:
        out.append(("loaded", loaded))
    out.append(("fitted", m))
    return out


SCIPY_SETTINGS = {
    "default": {},
    # an optimiser that gives up after one sweep (`success = False`): whatever it returns must still not be worse than the start
    "powell-maxiter1": dict(custom_scipy_minimize_params=dict(method="Powell", options=dict(maxiter=1, xtol=1e-4, ftol=1e-4))),
    # a gradient method on finite differences of the single-precision objective: scipy frequently ends with "precision loss"
    # (`success = False`) at a point that did improve; and a budget of two evaluations-worth of iterations
    "bfgs-no-jacobian": dict(use_jacobian=False, custom_scipy_minimize_params=dict(method="BFGS", options=dict(gtol=1e-2, maxiter=200))),
    "bfgs-maxiter2": dict(use_jacobian=False, custom_scipy_minimize_params=dict(method="BFGS", options=dict(gtol=1e-4, maxiter=2))),
}


def check_scipy(run: Run, model, kind, tag, cname, df, seed, n_jobs=1, settings="default"):
    """scipy_minimize on the real code: alignment, shapes, finiteness, non-worsening (objective recomputed on a FRESH
    state built from the caller's rows of that identifier)."""
    inp = dict(kind=kind, model=tag, algo="scipy_minimize", cohort=cname, n_ind=int(df.ID.nunique()), seed=seed)
    if settings != "default":
        inp["settings"] = settings
    if build_dataset(run, df, kind, inp) is None:
        return None
    names = ind_names(model)
    dims = declared_dims(model, names)
    rec = ScipyRecorder()
    with rec, warnings.catch_warnings():
        warnings.simplefilter("ignore")
        try:
            with quiet():
                ip = model.personalize(df, "scipy_minimize", seed=seed, progress_bar=False, n_jobs=n_jobs, **json.loads(json.dumps(SCIPY_SETTINGS[settings])))
        except Exception as e:
            sig = "personalize:joint-scipy-after-fit" if (kind == "joint" and tag == "fitted" and isinstance(e, ValueError)) \
                else f"scipy:{kind}:{tag}:raises:{type(e).__name__}"
            run.fail(sig, f"scipy_minimize on a {tag} {kind} model raised {type(e).__name__}: {str(e)[:200]}", inp)
            return None
    ids = list(dict.fromkeys(str(i) for i in df.ID))
    run.case(("scipy", kind, tag, cname, seed, settings), nontrivial=len(ids) >= 2)
    run.count("scipy_settings", settings)
    run.count("cohort_shape", cname)
    run.count("algorithm", "scipy_minimize")
    if list(ip._indices) != ids:
        run.fail("aligned:ids", "output identifiers differ from the input identifiers / order", inp, expected=ids, observed=list(ip._indices))
        return None
    if sorted(ip._parameters_shape) != names or any(int(math.prod(ip._parameters_shape[n]) or 1) != dims[n] for n in names):
        run.fail("aligned:shapes", "parameters are not shaped as the model declares", inp, expected=dims, observed=str(ip._parameters_shape))
        return None
    if len(rec.calls) != len(ids) or [c["patient_id"] for c in rec.calls] != ids:
        run.fail("scipy:one-optimisation-per-individual", "not exactly one optimisation per input individual, in input order", inp,
                 expected=ids, observed=[c["patient_id"] for c in rec.calls])
        return None
    import numpy as np
    for pid, call in zip(ids, rec.calls):
        row = row_of(ip, pid, names)
        one = dict(inp, id=pid)
        if not all(math.isfinite(x) for x in row):
            run.fail("finite:scipy", "non-finite individual parameter returned", one, observed=row)
            continue
        run.count("optimiser_method", call.get("method"))
        run.count("optimiser_success", call.get("success"))
        # what the optimiser saw
        f0 = [v for x, v in call["evals"] if np.array_equal(x, call["x0"])]
        best_seen = min(v for _, v in call["evals"])
        if not f0:
            run.fail("scipy:start-not-evaluated", "the optimiser never evaluated the start point", one)
            continue
        if not call["fun"] <= f0[0]:
            run.fail("non-worsening:optimiser", f"scipy returned a point whose objective {call['fun']!r} is worse than at its start {f0[0]!r} "
                     f"(method {call.get('method')})", one, expected=f"<= {f0[0]!r}", observed=call["fun"])
        run.extra["optimiser_returned_best_seen"] = run.extra.get("optimiser_returned_best_seen", 0) + (call["fun"] <= best_seen)
        run.extra["optimiser_runs"] = run.extra.get("optimiser_runs", 0) + 1
        # the returned row is the optimiser's result brought back to natural coordinates by that variable's own (loc, scale):
        # the point the theorems C17_scipy_cohort / C17_non_worsening are about
        start_row = []
        for n in names:
            start_row += [float(x) for x in call["start"][n][0].reshape(-1).tolist()]
        by_name, pos = {}, 0
        for n, lo, sc_ in call["scal"]:
            by_name[n] = [lo[j] + sc_[j] * float(call["x"][pos + j]) for j in range(len(lo))]
            pos += len(lo)
        model_row = [v for n in names for v in by_name.get(n, [])]
        diverged = len(model_row) != len(row) or any(abs(a - b) > 1e-5 * (1 + abs(b)) for a, b in zip(row, model_row))
        # from scratch, on the caller's rows of that identifier
        try:
            st, _ = fresh_state(model, df[df.ID.astype(str) == pid], kind)
            f_res = fresh_objective(model, st, names, dims, row)
            f_start = fresh_objective(model, st, names, dims, start_row)
            f_model = fresh_objective(model, st, names, dims, model_row) if diverged and len(model_row) == len(row) else None
        except Exception as e:
            run.fail(f"oracle:fresh-objective-raises:{type(e).__name__}", f"recomputing the objective on a fresh state raised: {e}", one)
            continue
        tol = 1e-4 * (1 + abs(f_start))
        if diverged:
            # a guard that keeps a BETTER point than res.x (e.g. the start when the optimiser worsened it) is no concern of the property; returning a
            # point that is WORSE than the result the code had in hand means the theorems (stated for unscaling(minimise ...)) no longer describe the code
            worse = f_model is None or f_res > f_model + 1e-4 * (1 + abs(f_model))
            run.count("scipy_row_differs_from_unscaling_of_res_x", "and is worse than it" if worse else "but is not worse than it (a guard?)")
            if worse:
                kept_start = len(start_row) == len(row) and all(abs(x - y) <= 1e-6 * (1 + abs(y)) for x, y in zip(row, start_row))
                run.fail("scipy:row-is-not-unscaling-of-optimiser-result",
                         f"the returned row is not loc + scale * res.x of each variable on its own slice, and its objective {f_res!r} (fresh state, that individual's "
                         f"own data) is higher than {f_model!r} at loc + scale * res.x" +
                         (f": it is the start point although the optimiser returned a point of objective {call['fun']!r} < {f0[0]!r} at the start "
                          f"(success={call['success']}) - the better point is discarded; the model (result = unscaling(minimise ...)) no longer describes the code"
                          if kept_start and call["fun"] < f0[0] else ""),
                         dict(one, res_x=[float(v) for v in call["x"]], scalings={n: dict(loc=lo, scale=sc_) for n, lo, sc_ in call["scal"]},
                              optimiser_success=call["success"], f_start=f0[0], f_result=call["fun"], start_row=start_row),
                         expected=model_row, observed=row)
        if not (f_res <= f_start + tol):
            run.fail("non-worsening:fresh", "objective of the returned parameters, recomputed on a fresh state with that individual's own data, "
                     "is worse than at the start point", one, expected=f"<= {f_start!r}", observed=f_res)
        if not diverged and abs(f_res - call["fun"]) > 1e-4 * (1 + abs(f_res)):
            run.fail("aligned:row-belongs-to-other-data", "the returned row does not reproduce the optimiser's final objective on that individual's own data "
                     "(row of another individual, or stale state)", one, expected=call["fun"], observed=f_res)
        run.count("improved", f_res < f_start)
    run.sample(dict(kind_="scipy", **inp, first_id=ids[0], first_row=row_of(ip, ids[0], names),
                    f_start=f0[0], f_result=rec.calls[-1]["fun"], n_eval=len(rec.calls[-1]["evals"])), limit=5)
    return ip


def check_mcmc_cohort(run: Run, model, kind, tag, cname, df, algo, seed, acc, sched="default"):
    c = chain_case(run, model, df, kind, algo, n_iter=(16 if run.tier == "thorough" else 10), frac_=0.5, seed=seed, tag=f"{tag}/{cname}",
                   ann=SCHEDULES[sched], sched=sched)
    if c is None:
        return
    run.count("cohort_shape", cname)
    run.count("algorithm", algo)
    ids = list(dict.fromkeys(str(i) for i in df.ID))
    if c["err"] is None and [str(i) for i in c["ip"]._indices] != ids:
        run.fail("aligned:ids", "output identifiers differ from the caller's identifiers / order", c["inp"], expected=ids, observed=list(c["ip"]._indices))
        return
    if c["err"] is None:
        names = c["names"]
        dims = declared_dims(model, names)
        sh = c["ip"]._parameters_shape
        if sorted(sh) != names or any(int(math.prod(sh[n]) or 1) != dims[n] for n in names):
            run.fail("aligned:shapes", "parameters are not shaped as the model declares", c["inp"], expected=dims, observed=str(sh))
            return
        if algo == "mode_posterior":
            # end to end: on the caller's own rows of each identifier, the returned row is at least as good as every kept draw
            rec, nb, n_iter = c["rec"], c["nb_eff"], c["inp"]["n_iter"]
            for i, pid in enumerate(ids[:6]):
                try:
                    st, _ = fresh_state(model, df[df.ID.astype(str) == pid], kind)
                    f_row = fresh_objective(model, st, names, dims, row_of(c["ip"], pid, names))
                    f_kept = [fresh_objective(model, st, names, dims, c["chain"][k - 1][0][i].tolist()) for k in range(max(1, nb + 1), n_iter + 1)]
                except Exception as e:
                    run.fail(f"oracle:fresh-objective-raises:{type(e).__name__}", f"recomputing the loss on a fresh state raised: {e}", dict(c["inp"], id=pid))
                    break
                if f_row > min(f_kept) + 1e-4 * (1 + abs(min(f_kept))):
                    run.fail("mode:fresh-loss-not-minimal", "on that individual's own data a kept draw has a lower loss than the returned row",
                             dict(c["inp"], id=pid), expected=min(f_kept), observed=f_row)
    chain_checks(run, c, acc)


def integer_ids_probe(run: Run, model):
    """Identifiers given as integers are accepted by the reader; personalize must then return one entry per individual."""
    from harness import synth
    df = synth.make_df(n_ind=3, n_feat=3, seed=11)
    df["ID"] = df.ID.map({k: i * 3 + 2 for i, k in enumerate(sorted(df.ID.unique()))})
    for algo, kw in (("scipy_minimize", {}), ("mean_posterior", dict(n_iter=6)), ("mode_posterior", dict(n_iter=6))):
        inp = dict(kind="logistic", algo=algo, ids=[2, 5, 8], **kw)
        run.case(("int-ids", algo), nontrivial=True)
        try:
            with quiet(), warnings.catch_warnings():
                warnings.simplefilter("ignore")
                ip = model.personalize(df, algo, seed=0, progress_bar=False, **kw)
        except Exception as e:
            run.fail("personalize:integer-ids", f"{algo}: integer identifiers (accepted by Data.from_dataframe) make personalize raise {type(e).__name__}: {str(e)[:120]}", inp)
            continue
        if list(ip._indices) != ["2", "5", "8"]:
            run.fail("aligned:ids", "integer identifiers are not returned as their strings in order", inp, expected=["2", "5", "8"], observed=list(ip._indices))


def metamorphic_scipy(run: Run, model, kind):
    """On a fitted (non-joint) model the optimisation is deterministic (start = the state's values): per identifier the row must not
    depend on the other individuals, on the order of the cohort or on the number of jobs."""
    from harness import synth
    import pandas as pd
    # the first individual has many visits (a long optimisation), the others few: with several workers the results do not come back in
    # submission order, so pairing them with the identifiers by position would show
    df = pd.concat([synth.make_df(n_ind=1, n_feat=3, seed=21, kind=kind, visits=(14, 14), id_prefix="a"),
                    synth.make_df(n_ind=3, n_feat=3, seed=22, kind=kind, visits=(2, 3), id_prefix="b")], ignore_index=True)
    ids = sorted(df.ID.unique())
    names = ind_names(model)

    def pers(d, **kw):
        with quiet(), warnings.catch_warnings():
            warnings.simplefilter("ignore")
            return model.personalize(d, "scipy_minimize", seed=0, progress_bar=False, **kw)
    def pers_delayed_threads(d):
        """n_jobs=2 on joblib's threading backend with the FIRST individual's task delayed (recording wrapper, same process): the
        results are then certain to be produced out of submission order, so a pairing by position cannot go unnoticed."""
        import time as _time
        import joblib
        import leaspy.algo.personalize.scipy_minimize as sm
        cls = sm.ScipyMinimizeAlgorithm
        orig = cls._get_individual_parameters_patient_master

        def slow(self, state, *, patient_id=None, **k):
            if str(patient_id) == str(ids[0]):
                _time.sleep(1.5)
            return orig(self, state, patient_id=patient_id, **k)
        cls._get_individual_parameters_patient_master = slow
        try:
            with joblib.parallel_backend("threading"):
                return pers(d, n_jobs=2)
        finally:
            cls._get_individual_parameters_patient_master = orig
    try:
        base = pers(df)
        perm = pers(reorder_blocks(df, [ids[2], ids[0], ids[3], ids[1]]))
        par = pers(df, n_jobs=2) if (run.tier == "thorough" or kind == "logistic") else base   # quick: worker processes for one kind only
        single = pers(df[df.ID == ids[1]])
        thr = pers_delayed_threads(df)
    except Exception as e:
        run.fail(f"scipy:metamorphic-raises:{type(e).__name__}", f"{type(e).__name__}: {e}", dict(kind=kind))
        return
    if list(thr._indices) != ids:
        run.fail("aligned:ids", "output order differs from the input order (two workers, first task delayed)", dict(kind=kind, ids=ids))
    else:
        for pid in ids:
            rp = row_of(thr, pid, names)
            dist = {q: max(abs(x - y) / (1 + abs(y)) for x, y in zip(rp, row_of(base, q, names))) for q in ids}
            if min(dist, key=dist.get) != pid or dist[pid] > 2e-2:
                run.fail("aligned:n-jobs-order", "with two workers and the first individual's task finishing last, the row returned for an "
                         "individual is not (close to) its own single-worker row", dict(kind=kind, model="fitted", algo="scipy_minimize", ids=ids, id=pid,
                                                                                      backend="threading, first task delayed"),
                         expected=row_of(base, pid, names), observed=rp)
    run.case(("metamorphic", kind), nontrivial=True)
    inp = dict(kind=kind, model="fitted", algo="scipy_minimize", ids=ids)
    if list(perm._indices) != [ids[2], ids[0], ids[3], ids[1]] or list(par._indices) != ids:
        run.fail("aligned:ids", "output order differs from the input order (permuted cohort / n_jobs=2)", inp)
        return
    for pid in ids:
        if row_of(perm, pid, names) != row_of(base, pid, names):
            run.fail("aligned:order-dependent", "the row of an individual changes when the cohort is given in another order", dict(inp, id=pid),
                     expected=row_of(base, pid, names), observed=row_of(perm, pid, names))
        # worker processes may round differently (the optimiser's path then differs in the 4th digit): the row must still be that individual's
        rp = row_of(par, pid, names)
        dist = {q: max(abs(x - y) / (1 + abs(y)) for x, y in zip(rp, row_of(base, q, names))) for q in ids}
        run.extra["max_rel_gap_n_jobs_2_vs_1"] = max(run.extra.get("max_rel_gap_n_jobs_2_vs_1", 0.0), dist[pid])
        if min(dist, key=dist.get) != pid or dist[pid] > 2e-2:
            run.fail("aligned:n-jobs-order", "with n_jobs=2 the row returned for an individual is not (close to) its own n_jobs=1 row", dict(inp, id=pid),
                     expected=row_of(base, pid, names), observed=rp)
    if row_of(single, ids[1], names) != row_of(base, ids[1], names):
        run.fail("aligned:cohort-dependent", "the row of an individual changes when it is personalised alone", dict(inp, id=ids[1]),
                 expected=row_of(base, ids[1], names), observed=row_of(single, ids[1], names))


# ----------------------------------------------------------------------------- D. directed calls of the real estimators


def estimator_probes(run: Run, live, n_cases: int, model_ok=True):
    """`_compute_individual_parameters_from_samples_torch` of the algorithm objects left by real runs (one per algorithm x schedule, in the
    state the run left them in: a `plateau1-T3` object still has temperature_inv = 1/3) on synthetic stacked histories: dyadic values,
    every draw distinguishable, attachment / regularity on a coarse grid so that exact ties between DIFFERENT draws are frequent (on real
    chains ties only occur between repeated, identical states).  Compared with the extracted rule in the harness and inside Coq."""
    import torch
    if not live:
        return
    mode_cases, mode_meta, mean_cases, mean_meta = [], [], [], []
    per = max(1, n_cases // len(live))
    for (algo, sched), c in sorted(live.items()):
        rec = c["rec"]
        obj, names = rec.algo, c["names"]
        if rec.hist is None:
            continue
        shapes = {n: tuple(rec.hist[0][n].shape[2:]) for n in names}
        dims = {n: int(math.prod(shapes[n]) or 1) for n in names}
        dim = sum(dims.values())
        rng = run.rng("estimator", algo, sched)
        tinv = float(getattr(obj, "temperature_inv", 1.0))
        for t in range(per):
            n_kept, n_ind = rng.randint(1, 6), rng.randint(1, 4)
            flat = [[[float(d * 16 + i * 4) + j / 8.0 for j in range(dim)] for i in range(n_ind)] for d in range(n_kept)]
            a = [[rng.randrange(0, 13) / 4.0 for _ in range(n_ind)] for _ in range(n_kept)]
            r = [[rng.randrange(0, 13) / 4.0 for _ in range(n_ind)] for _ in range(n_kept)]
            values, pos = {}, 0
            for n in names:
                values[n] = torch.tensor([[row[pos:pos + dims[n]] for row in draw] for draw in flat], dtype=torch.float32).reshape(n_kept, n_ind, *shapes[n])
                pos += dims[n]
            base = dict(probe="estimator", algo=algo, schedule=sched, temperature_inv_of_the_algorithm_object=tinv, n_draws=n_kept, n_ind=n_ind)
            try:
                out = type(obj)._compute_individual_parameters_from_samples_torch(obj, values, torch.tensor(a), torch.tensor(r))
                rows = [[float(x) for n in names for x in out[n][i].reshape(-1).tolist()] for i in range(n_ind)]
            except Exception as e:  # noqa
                run.fail(f"{algo.split('_')[0]}:estimator-probe:raises:{type(e).__name__}", f"the estimator raised {type(e).__name__}: {e}",
                         dict(base, values=flat, attachments=a, regularities=r))
                continue
            loss = [[frac(a[d][i]) + frac(r[d][i]) for i in range(n_ind)] for d in range(n_kept)]
            ties = any(sum(1 for d in range(n_kept) if loss[d][i] == min(loss[x][i] for x in range(n_kept))) > 1 for i in range(n_ind))
            run.case(("estimator", algo, sched, t), nontrivial=n_kept >= 2)
            run.count("estimator_probe", f"{algo}/{sched}" + ("/with-exact-tie" if ties and algo == "mode_posterior" else ""))
            h_lit = coq_list([coq_list(["(" + qlist(flat[d][i]) + f", {coq_Q(a[d][i])}, {coq_Q(r[d][i])})" for i in range(n_ind)]) for d in range(n_kept)])
            impl_lit = coq_list([qlist(row) for row in rows])
            found = None
            for i in range(n_ind):
                col = [loss[d][i] for d in range(n_kept)]
                if algo == "mode_posterior":
                    d0 = col.index(min(col))
                    if rows[i] == flat[d0][i]:
                        continue
                    d1 = next((d for d in range(n_kept) if flat[d][i] == rows[i]), None)
                    tie = d1 is not None and col[d1] == col[d0]
                    two = sorted({d0} | ({d1} if d1 is not None else set()))
                    found = ("mode:estimator-probe:tie-not-first-index" if tie else "mode:estimator-probe:not-the-lowest-loss-draw",
                             ("on an exact tie of attachment + regularity between different draws the estimator does not return the first one (the rule extracted "
                              "from the source, which is torch.argmin's documented convention)" if tie else
                              "the estimator returns a draw whose attachment + regularity is not minimal") + f"; temperature_inv of the algorithm object: {tinv}",
                             dict(base, n_draws=len(two), n_ind=1, individual=i, draws=[dict(index=d, values=flat[d][i], attachment=a[d][i], regularity=r[d][i]) for d in two],
                                  full_history=dict(values=[[flat[d][i]] for d in range(n_kept)], attachments=[[a[d][i]] for d in range(n_kept)],
                                                    regularities=[[r[d][i]] for d in range(n_kept)])),
                             flat[d0][i], rows[i])
                    break
                else:
                    exp = [float(sum(frac(flat[d][i][j]) for d in range(n_kept)) / n_kept) for j in range(dim)]
                    if all(abs(x - y) <= 1e-5 * (1 + abs(y)) for x, y in zip(rows[i], exp)) and len(rows[i]) == dim:
                        continue
                    found = ("mean:estimator-probe:not-the-mean", "the estimator does not return the mean over the draws it is given",
                             dict(base, n_ind=1, individual=i, draws=[dict(index=d, values=flat[d][i]) for d in range(n_kept)]), exp, rows[i])
                    break
            if found:
                run.fail(found[0], found[1], found[2], expected=found[3], observed=found[4])
            meta = found[2] if found else dict(base, values=flat, attachments=a, regularities=r)
            if algo == "mode_posterior":
                mode_cases.append(f"({h_lit}, {impl_lit})")
                mode_meta.append((meta, bool(found)))
            else:
                mean_cases.append(f"({dim}%nat, {h_lit}, {impl_lit})")
                mean_meta.append((meta, bool(found)))
    if not model_ok:
        return
    CH = "list (list (list Q * Q * Q))"
    bad = run.vm_bad_indices("est_mode", HDR_MODEL, f"{CH} * list (list Q)", mode_cases, "(fun c => check_est_mode (fst c) (snd c))", shard=100)
    for i in bad or []:
        if not mode_meta[i][1]:   # otherwise already reported, with its shrunk history, by the harness' own recomputation
            run.fail("mode:estimator-probe:not-the-lowest-loss-draw", "the estimator differs from mode_posterior of the model executed in Coq on a synthetic history", mode_meta[i][0])
    bad = run.vm_bad_indices("est_mean", HDR_MODEL, f"nat * {CH} * list (list Q)", mean_cases,
                             "(fun c => match c with (dim, h, impl) => check_est_mean (1 # 100000) dim h impl end)", shard=100)
    for i in bad or []:
        if not mean_meta[i][1]:
            run.fail("mean:estimator-probe:not-the-mean", "the estimator differs from mean_posterior of the model executed in Coq on a synthetic history", mean_meta[i][0])


# ----------------------------------------------------------------------------- the check


def grid_model(run: Run):
    from harness import synth
    return synth.fit("logistic", n_iter=30, seed=run.seed % 1000, n_ind=10, n_feat=2)[0]


def grid_df(run: Run, tag: str):
    from harness import synth
    seed = run.seed % 1000
    if tag.endswith("-8"):
        return synth.make_df(n_ind=8, n_feat=2, seed=seed + 9)
    return synth.make_df(n_ind=3, n_feat=2, seed=seed + 7)


def schedule_grid(thorough):
    """(schedule, n_iter, n_burn_in_iter, n_burn_in_iter_frac, cohort tag)"""
    out = []
    for s in SCHEDULES:
        for n_iter in ((12,) if not thorough else (12, 20, 31)):
            for nb, fr in ((0, None), (n_iter - 1, None), (None, 0.25), (None, 0.5)):
                if s == "default" and not thorough and (nb, fr) != (None, 0.5):
                    continue    # the default schedule is what the first grid explores
                out.append((s, n_iter, nb, fr, "grid-schedules"))
        if s != "default":
            out.append((s, 30 if not thorough else 60, 0, None, "grid-schedules-8"))
            out.append((s, 30 if not thorough else 60, None, 0.5, "grid-schedules-8"))
    return out


def check(run: Run, gen_ok=True, model_ok=True):
    from harness.common import use_impl
    use_impl()
    from harness import synth
    thorough = run.tier == "thorough"
    run.rule = ("A: random _AffineScalings1D (1-4 variables of 1-3 coordinates, dyadic loc/scale/x so float32 is exact) compared with the rule in the harness "
                "and inside Coq. B: real seeded mean_/mode_posterior runs, the whole chain (all individual variables, attachment, regularity, temperature_inv "
                "of every iteration) snapshotted by wrapping sampler.sample; grid over (n_iter, n_burn_in_iter | n_burn_in_iter_frac) incl. no kept draw, and "
                "over the schedules {default, annealing n_plateau=1 at T=3 (run ENDS at T=3), annealing 3 plateaus 3->1, oscillations} x burn-in {0, n_iter-1, "
                "25 %, 50 %} x {3, 8 individuals}; kept count, kept history, mode (bit-exact: first index minimising attachment + regularity after burn-in) and "
                "mean (1e-5) recomputed in the harness (exact rationals) AND by the model inside Coq, independently of the regenerated file; a mismatch is "
                "shrunk to the offending individual and the two competing iterations and re-checked on the real estimator. "
                "C: every shipped kind x {loaded, fitted} x {scipy_minimize, mean_posterior, mode_posterior} x cohort shape {1 individual, 1 visit each, "
                "missing data, shuffled numeric-looking ids, 30 individuals} (+ mode_posterior at T=3 and scipy with an optimiser that gives up, per kind): "
                "identifiers/order/shapes/finiteness; scipy: res.fun <= f(x0) as seen by the optimiser, returned row = loc + scale * res.x, objective recomputed on "
                "a fresh single-individual state <= objective at the start point. D: the real estimators called on synthetic histories with exact ties. "
                "Non-trivial = at least two individuals and two kept draws (B), two individuals (C), two variables (A), two draws (D); distinct by canonical tuple.")
    seed = run.seed % 1000
    REPAIRS.clear()
    # ---- A
    scalings_cases(run, 400 if thorough else 120)
    # ---- B: grid on a small logistic model
    from concurrent.futures import ThreadPoolExecutor
    pool = ThreadPoolExecutor(1)
    fut_grid = None
    acc = Acc()
    live = {}
    try:
        m_small = grid_model(run)
    except Exception as e:
        run.fail("setup:fit-raises:logistic", f"{type(e).__name__}: {e}", {})
        m_small = None
    if m_small is not None:
        df_small = grid_df(run, "grid")
        grid = []
        for n_iter in ((1, 2, 3, 5, 8, 12) if not thorough else (1, 2, 3, 4, 5, 7, 8, 12, 20, 33)):
            for nb in range(0, n_iter + 2):
                if thorough or nb in (0, 1, n_iter // 2, n_iter - 1, n_iter, n_iter + 1):
                    grid.append((n_iter, nb, None))
            for fr in (0.0, 0.1, 0.29, 0.5, 0.75, 0.9, 1.0):
                grid.append((n_iter, None, fr))
            if n_iter >= 5:
                grid.append((n_iter, 1, "default"))
                grid.append((n_iter, n_iter - 1, "default"))
        grid = list(dict.fromkeys(grid))
        for j, (n_iter, nb, fr) in enumerate(grid):
            algo = "mode_posterior" if j % 2 else "mean_posterior"
            c = chain_case(run, m_small, df_small, "logistic", algo, n_iter, nb=nb, frac_=fr, seed=seed + j, tag="grid")
            if c is not None:
                run.count("grid_n_iter", n_iter)
                chain_checks(run, c, acc)
        # the same under non-default temperature schedules
        for j, (s, n_iter, nb, fr, tag) in enumerate(schedule_grid(thorough)):
            for algo in ("mode_posterior", "mean_posterior"):
                if tag.endswith("-8") and algo == "mean_posterior" and not thorough:
                    continue
                c = chain_case(run, m_small, grid_df(run, tag), "logistic", algo, n_iter, nb=nb, frac_=fr, seed=seed + 500 + j, tag=tag, ann=SCHEDULES[s], sched=s)
                if c is not None:
                    run.count("grid_n_iter", n_iter)
                    chain_checks(run, c, acc)
                    if c["err"] is None:
                        live.setdefault((algo, s), c)
        run.log("B (grid + schedules) recorded")
        # the Coq side of the grid runs in the background (separate coqc processes) while the cohorts of part C are personalised
        fut_grid = pool.submit(run_chain_cases, run, acc, gen_ok, model_ok, "_grid")
        estimator_probes(run, live, 1600 if thorough else 400, model_ok=model_ok)
        integer_ids_probe(run, m_small)
    acc = Acc()
    # ---- C
    kinds = synth.KINDS
    run.log("A/B/D done")
    for kind in kinds:
        for tag, model in model_variants(run, kind, thorough):
            # scipy first: a sampling-based run replaces model.state (and, when it crashes, leaves it unusable)
            if tag == "fitted" and kind in (("logistic",) if not thorough else ("logistic", "linear", "shared_speed_logistic", "mixture_logistic")):
                metamorphic_scipy(run, model, kind)
            todo = []
            for cname, df in cohorts(kind, thorough, seed).items():
                if tag == "fitted" and not thorough and cname not in ("missing-data", "one-individual"):
                    continue
                todo.append((cname, df))
            for cname, df in todo:
                if tag == "fitted" and kind == "joint" and cname != "one-individual":
                    continue   # the known crash is reported once
                check_scipy(run, model, kind, tag, cname, df, seed)
                if tag == "loaded" and (thorough or cname in ("missing-data", "one-visit-each")):
                    check_scipy(run, model, kind, tag, cname, df, seed, settings="powell-maxiter1")
                if tag == "loaded" and kind != "mixture_logistic" and (thorough or cname == "missing-data"):
                    check_scipy(run, model, kind, tag, cname, df, seed, settings="bfgs-no-jacobian")
                    check_scipy(run, model, kind, tag, cname, df, seed, settings="bfgs-maxiter2")
            for cname, df in todo:
                for algo in ("mean_posterior", "mode_posterior"):
                    if kind == "mixture_logistic" and (cname != "one-individual" or algo != "mean_posterior") and not thorough:
                        continue   # the known crash is reported once per run
                    check_mcmc_cohort(run, model, kind, tag, cname, df, algo, seed, acc)
                    if kind != "mixture_logistic" and tag == "loaded" and (thorough or cname in ("missing-data", "shuffled-numeric-looking-ids")):
                        check_mcmc_cohort(run, model, kind, tag, cname, df, algo, seed, acc, sched="plateau1-T3")
            run.log(f"C {kind}/{tag} done")
    st_c = run_chain_cases(run, acc, gen_ok=gen_ok, model_ok=model_ok, part="_cohorts")
    merge_stats(run, fut_grid.result() if fut_grid is not None else {}, st_c)
    pool.shutdown()
    for k, v in REPAIRS.items():
        run.count("generator_repairs", k, v)
    run.extra.setdefault("skipped_cohorts", 0)
    n = run.extra.get("optimiser_runs", 0)
    run.extra["hypothesis_minimise_monotone_validated_on"] = f"{n} real optimisations of this run (validation of the oracle hypothesis, not a proof)"


def main(run: Run):
    from harness import common
    try:
        ok_t = translate(run)
    except Exception as e:  # noqa  - an AST shape the translator has never met must not stop the search
        import traceback
        run.broken("translate:GenC17", f"translator crashed: {type(e).__name__}: {e}\n{traceback.format_exc()[-800:]}", kind="broken-translation")
        ok_t = False
    ok_p = run.prove("C17", OBLIGATIONS) if ok_t else False
    if not ok_t:
        run.obligations += [o for o in OBLIGATIONS if o not in run.obligations]
    # whatever happened above, the chain-replay oracle runs: its Coq side only needs the model's own executable definitions
    model_ok = True
    if not ok_p:
        common.regen_coqproject()
        model_ok, out = common.make(MODEL_TARGETS)
        if not model_ok:
            run.broken("build:model-executables", out[-1500:])
    run.assumptions += [
        "minimise_monotone: scipy.optimize.minimize never returns a point worse than x0 (hypothesis of C17_non_worsening; the code has no guard)",
        "torch.argmin returns the first minimal index; torch.stack/mean as documented (validated on every recorded chain and on synthetic histories with exact ties)",
        "float rounding is outside the theorems: mean compared at 1e-5 relative, mode bit-exact up to float32 near-ties (1e-6 relative) of attachment+regularity",
        "identifiers are strings (IDType = str); integer identifiers are refused by the implementation (finding personalize:integer-ids)",
        "the samplers are not modelled: the chain (and the temperature schedule that shaped it) is an input of the modelled run",
    ]
    run.explanation = ("Theorems over all chains / temperature schedules / iteration counts / burn-in lengths / identifier lists / slice tables / real parameters; "
                       "decision rules regenerated from the source by symbolic execution of the Python AST and proved equal to the model; the model is executed "
                       "inside Coq on chains recorded from real seeded runs (default and non-default annealing schedules) - this part imports no regenerated file "
                       "and runs, with the harness' own exact recomputation, even when translation or proof are broken; the optimiser clause rests on the "
                       "hypothesis minimise_monotone which this run validates on the real optimiser but does not prove.")
    try:
        check(run, gen_ok=ok_p, model_ok=model_ok)
    except Exception as e:  # noqa
        import traceback
        run.broken("search", f"{type(e).__name__}: {e}\n{traceback.format_exc()[-1500:]}")
    return run.finish()


def replay_estimator(run: Run, inp):
    """A shrunk history on the real estimator: the algorithm object is the one a real run under the recorded schedule leaves behind."""
    import torch
    algo, sched = inp["algo"], inp.get("schedule", "default")
    c = chain_case(run, grid_model(run), grid_df(run, "grid-schedules"), "logistic", algo, 12, nb=0, seed=0, tag="grid-schedules", ann=SCHEDULES[sched], sched=sched)
    if c is None or c["rec"].hist is None:
        print("replay: could not obtain a live algorithm object")
        return
    obj, names = c["rec"].algo, c["names"]
    shapes = {n: tuple(c["rec"].hist[0][n].shape[2:]) for n in names}
    draws = inp["draws"]
    values, pos = {}, 0
    for n in names:
        d = int(math.prod(shapes[n]) or 1)
        values[n] = torch.tensor([[dr["values"][pos:pos + d]] for dr in draws], dtype=torch.float32).reshape(len(draws), 1, *shapes[n])
        pos += d
    a = torch.tensor([[dr.get("attachment", 0.0)] for dr in draws], dtype=torch.float32)
    r = torch.tensor([[dr.get("regularity", 0.0)] for dr in draws], dtype=torch.float32)
    out = type(obj)._compute_individual_parameters_from_samples_torch(obj, values, a, r)
    row = [float(x) for n in names for x in out[n][0].reshape(-1).tolist()]
    print(f"estimator of a live {algo} object (schedule {sched}, temperature_inv {getattr(obj, 'temperature_inv', None)}) on the {len(draws)} recorded draws returns {row}")
    if algo == "mode_posterior":
        loss = [frac(dr["attachment"]) + frac(dr["regularity"]) for dr in draws]
        exp = draws[loss.index(min(loss))]["values"]
        if row != [float(x) for x in exp]:
            tie = any([float(x) for x in dr["values"]] == row and l == min(loss) for dr, l in zip(draws, loss))
            run.fail("mode:estimator-probe:tie-not-first-index" if tie else "mode:estimator-probe:not-the-lowest-loss-draw",
                     "the estimator does not return the first draw of minimal attachment + regularity", inp, expected=exp, observed=row)
    else:
        exp = [float(sum(frac(dr["values"][j]) for dr in draws) / len(draws)) for j in range(len(row))]
        if any(abs(x - y) > 1e-5 * (1 + abs(y)) for x, y in zip(row, exp)):
            run.fail("mean:estimator-probe:not-the-mean", "the estimator does not return the mean of the draws", inp, expected=exp, observed=row)


def replay(run: Run, path: str):
    """Re-run one recorded input on the current tree."""
    from harness import common
    from harness.common import use_impl
    use_impl()
    from harness import synth
    d = json.load(open(path))
    inp = d.get("input") or {}
    if not isinstance(inp, dict) or ("algo" not in inp and "z" not in inp):
        print("replay: this file records a broken obligation / a model-level case, re-running the check itself")
        return main(run)
    common.regen_coqproject()
    model_ok, _ = common.make(MODEL_TARGETS)
    seed = run.seed % 1000
    if "z" in inp:   # a scalings case: self-contained
        import numpy as np
        import torch
        from leaspy.algo.personalize.scipy_minimize import _AffineScaling, _AffineScalings1D
        sc = _AffineScalings1D({n: _AffineScaling(torch.tensor(inp["loc"][n]), torch.tensor(inp["scale"][n])) for n in inp["names"]})
        un = sc.unscaling(np.array(inp["z"]))
        obs = {n: [float(x) for x in un[n].reshape(-1).tolist()] for n in inp["names"]}
        exp, pos = {}, 0
        for n in inp["names"]:
            exp[n] = [l + s * inp["z"][pos + j] for j, (l, s) in enumerate(zip(inp["loc"][n], inp["scale"][n]))]
            pos += len(inp["loc"][n])
        print("unscaling(z) =", obs, "| loc + scale * z per slice =", exp)
        if obs != exp:
            run.fail("scalings:model-mismatch", "_AffineScalings1D.unscaling is not loc + scale * x of each variable on its own slice", inp, expected=exp, observed=obs)
        else:
            scd = [float(x) for x in sc.scaling({n: torch.tensor(v) for n, v in inp["ips"].items()}).tolist()]
            exp_s = [(x - l) / s for n in inp["names"] for x, l, s in zip(inp["ips"][n], inp["loc"][n], inp["scale"][n])]
            print("scaling(ips) =", scd, "| (x - loc) / scale =", exp_s)
            if scd != exp_s:
                run.fail("scalings:model-mismatch", "_AffineScalings1D.scaling is not (x - loc) / scale", inp, expected=exp_s, observed=scd)
        return _replay_end(run)
    kind, algo = inp.get("kind", "logistic"), inp["algo"]
    print("replaying", {k: inp[k] for k in inp if k not in ("ids", "chain", "coq_case", "full_history")})
    if inp.get("probe") == "estimator":
        replay_estimator(run, inp)
    elif "ids" in inp and inp.get("ids") and isinstance(inp["ids"][0], int):
        integer_ids_probe(run, grid_model(run))
    elif str(inp.get("cohort", "")).startswith("grid"):
        acc = Acc()
        sched = inp.get("schedule", "default")
        c = chain_case(run, grid_model(run), grid_df(run, inp["cohort"]), "logistic", algo, inp["n_iter"], nb=inp.get("n_burn_in_iter"),
                       frac_=inp.get("n_burn_in_iter_frac"), seed=inp.get("seed", 0), tag=inp["cohort"], ann=inp.get("annealing", SCHEDULES.get(sched)), sched=sched)
        if c is not None:
            if "chain" in inp and "draws" in inp["chain"] and "attachment" in inp["chain"]["draws"][0]:
                sh = inp["chain"]
                ks = [dr["iteration"] for dr in sh["draws"]]
                same = all([float(x) for x in c["chain"][k - 1][0][sh["index"]].tolist()] == dr["values"] for k, dr in zip(ks, sh["draws"]))
                print(f"the seeded chain is {'the recorded one' if same else 'NOT the recorded one'} at iterations {ks} of individual {sh['individual']!r}")
                att_rec = {}
                if c["rec"].hist is not None:
                    kept = list(range(max(1, c['nb_eff'] + 1), inp["n_iter"] + 1))
                    att_rec = {k: (c["rec"].hist[1][d].reshape(-1), c["rec"].hist[2][d].reshape(-1)) for d, k in enumerate(kept) if d < c["rec"].hist[1].shape[0]}
                print("the real estimator on the two recorded draws returns", estimator_on(c, sh["index"], ks, att_rec), "| lowest attachment + regularity:", sh["expected_row"])
            chain_checks(run, c, acc)
            run_chain_cases(run, acc, gen_ok=False, model_ok=model_ok)
    else:
        cohort = inp.get("cohort", "one-individual")
        tag = inp.get("model") or cohort.split("/")[0]
        cname = cohort.split("/")[-1]
        for t, model in model_variants(run, kind, False):
            if t != tag:
                continue
            df = cohorts(kind, True, seed)[cname]
            if algo == "scipy_minimize":
                check_scipy(run, model, kind, t, cname, df, seed, settings=inp.get("settings", "default"))
            else:
                acc = Acc()
                check_mcmc_cohort(run, model, kind, t, cname, df, algo, seed, acc, sched=inp.get("schedule", "default"))
                run_chain_cases(run, acc, gen_ok=False, model_ok=model_ok)
    return _replay_end(run)


def _replay_end(run: Run):
    for f in run._fails:
        print("FAIL", f["signature"], "-", f["what"], "| expected", f["expected"], "| observed", f["observed"])
    for s, w in run._known_hit.items():
        print("KNOWN-FINDING", s, "-", w)
    bad = bool(run._fails or run._known_hit or run._broken)
    print("REPLAY", "FAILS" if bad else "passes")
    return 1 if bad else 0
