"""C17 (extension) — the MCMC chain of a sampling-based personalisation re-executed by the composed model
(coq/theories/Api/PersonalizeChain*.v: sweep of C03 individual steps at the C19 temperature / proposal scale) on the tape the
implementation consumed.  Helpers of harness/props/c17.py."""
from __future__ import annotations

import math
import warnings

from harness.common import Run, coq_Q, coq_Z, coq_list, coq_string, coq_bool, coq_R, frac

HDR_CHAIN = ("From Coq Require Import String ZArith QArith List Bool.\n"
             "From Leaspy Require Import Base.QAux Sampler.SamplerModel Saem.Anneal Sampler.AdaptiveStd Api.Personalize Api.PersonalizeExec "
             "Api.PersonalizeChain Api.PersonalizeChainExec.\nImport ListNotations.\nOpen Scope string_scope.\n")
CHAIN_TARGETS = ["theories/Api/PersonalizeChainExec.vo"]
TOL = "(1 # 10000)%Q"
CODES = {1: "a sampler call of the model fails (tape exhausted, or a state the implementation never visited: the proposal / the mix of accepted rows differs)",
         2: "the recorded order names a variable without sampler", 3: "the annealing scheme of the model raises", 4: "the sampler model raises",
         5: "a sampler call differs (variable called, decisions, or state after the call)",
         6: "temperature_inv handed to the samplers is not that of the schedule model",
         7: "what the run appended to the histories is not the kept part of the generated chain",
         8: "the model leaves draws on the tape (or needs more): draws consumed differ from n_iter x per-sweep count",
         9: "proposal scales at the end differ from the adaptive-std model",
         10: "the estimator applied to the generated chain does not give what personalize returned"}


class ChainRecorder:
    """Records (never replaces): every torch.randn / torch.rand result, the permutation `shuffle` leaves in the names, and around
    every IndividualGibbsSampler.sample call the values before / proposed / after, the decisions, the temperature and the std."""

    def __init__(self):
        self.steps = []          # dicts
        self.orders = {}         # iteration -> names in the order the samplers were called
        self.shuffle_calls = 0
        self.algo = None
        self.names = None
        self.init = None
        self.hist = None
        self.result = None
        self._cur = None
        self.stray_draws = 0     # draws made outside a sampler call (there should be none)

    def __enter__(self):
        import torch
        from leaspy.algo.personalize import mcmc
        from leaspy.algo.personalize.mcmc import McmcPersonalizeAlgorithm
        from leaspy.algo.personalize.mean_posterior import MeanPosteriorAlgorithm
        from leaspy.algo.personalize.mode_posterior import ModePosteriorAlgorithm
        from leaspy.samplers.gibbs import IndividualGibbsSampler
        from harness.props.c17 import ind_names
        rec = self
        self._torch, self._mcmc = torch, mcmc
        self._rand, self._randn, self._shuffle = torch.rand, torch.randn, mcmc.shuffle
        self._saved = [(McmcPersonalizeAlgorithm, "_initialize_algo", McmcPersonalizeAlgorithm._initialize_algo),
                       (IndividualGibbsSampler, "sample", IndividualGibbsSampler.sample),
                       (IndividualGibbsSampler, "_group_metropolis_step", IndividualGibbsSampler._group_metropolis_step)]
        o_init, o_sample, o_gms = (s[2] for s in self._saved)

        def rand(*a, **k):
            r = rec._rand(*a, **k)
            if rec._cur is not None:
                rec._cur["u"].append(r.detach().clone().reshape(-1))
            elif rec.algo is not None and rec.hist is None:
                rec.stray_draws += 1
            return r

        def randn(*a, **k):
            r = rec._randn(*a, **k)
            if rec._cur is not None:
                rec._cur["z"].append(r.detach().clone().reshape(-1))
            elif rec.algo is not None and rec.hist is None:
                rec.stray_draws += 1
            return r

        def shuffle(x, *a, **k):
            rec._shuffle(x, *a, **k)
            rec.shuffle_calls += 1

        def init(self_, model, dataset):
            rec.algo = self_
            rec.names = ind_names(model)
            return o_init(self_, model, dataset)

        def sample(self_, state, *, temperature_inv):
            snap = lambda: {n: state[n].detach().clone() for n in rec.names}     # noqa: E731
            if rec.init is None:
                rec.init = snap()
            cur = dict(name=self_.name, it=int(rec.algo.current_iteration), tinv=float(temperature_inv), std=self_.std.detach().clone(),
                       before=snap(), z=[], u=[], proposed=None, accepted=None, state=state)
            rec._cur = cur
            try:
                r = o_sample(self_, state, temperature_inv=temperature_inv)
            finally:
                rec._cur = None
            cur["after"] = snap()
            del cur["state"]
            rec.steps.append(cur)
            rec.orders.setdefault(cur["it"], []).append(self_.name)
            return r

        def gms(self_, alpha):
            cur = rec._cur
            if cur is not None:
                cur["proposed"] = {n: cur["state"][n].detach().clone() for n in rec.names}
            acc = o_gms(self_, alpha)
            if cur is not None:
                cur["accepted"] = acc.detach().clone().reshape(-1)
            return acc
        torch.rand, torch.randn, mcmc.shuffle = rand, randn, shuffle
        McmcPersonalizeAlgorithm._initialize_algo = init
        IndividualGibbsSampler.sample = sample
        IndividualGibbsSampler._group_metropolis_step = gms
        for cls in (MeanPosteriorAlgorithm, ModePosteriorAlgorithm):
            orig = cls._compute_individual_parameters_from_samples_torch
            self._saved.append((cls, "_compute_individual_parameters_from_samples_torch", orig))

            def est(self_, values, attachments, regularities, _orig=orig):
                rec.hist = ({k: v.detach().clone() for k, v in values.items()}, attachments.detach().clone(), regularities.detach().clone())
                r = _orig(self_, values, attachments, regularities)
                rec.result = {k: v.detach().clone() for k, v in r.items()}
                return r
            cls._compute_individual_parameters_from_samples_torch = est
        return self

    def __exit__(self, *a):
        self._torch.rand, self._torch.randn, self._mcmc.shuffle = self._rand, self._randn, self._shuffle
        for cls, name, orig in self._saved:
            setattr(cls, name, orig)
        return False


def tens_Q(t):
    if t.ndim == 0:
        return f"Sc {coq_Q(t.item())}"
    return "Nd [" + "; ".join(tens_Q(x) for x in t) + "]"


def state_Q(vals, names):
    return coq_list(tens_Q(vals[n]) for n in names)


def qs(xs):
    return coq_list(coq_Q(float(x)) for x in xs)


def record(run: Run, model, df, kind, algo, n_iter, nb, seed, ann=None, sched="default", random_order=None, tag="compose"):
    """One real personalisation, recorded call by call.  Returns a dict, or None (failure already reported / run not usable)."""
    import torch
    from harness.props.c17 import build_dataset, quiet
    inp = dict(kind=kind, algo=algo, n_iter=n_iter, n_burn_in_iter=nb, seed=seed, cohort=tag, n_ind=int(df.ID.nunique()), schedule=sched,
               part="composed-chain")
    kw = dict(n_iter=n_iter, n_burn_in_iter=nb, n_burn_in_iter_frac=None)
    if ann is not None:
        inp["annealing"] = dict(ann)
        kw["annealing"] = dict(ann)
    if random_order is not None:
        inp["random_order_variables"] = random_order
        kw["random_order_variables"] = random_order
    dataset = build_dataset(run, df, kind, inp)
    if dataset is None:
        return None
    params_before = {n: v.detach().clone() for n, v in model.parameters.items()}
    rec = ChainRecorder()
    err = None
    ip = None
    with rec, warnings.catch_warnings():
        warnings.simplefilter("ignore")
        try:
            with quiet():
                ip = model.personalize(dataset, algo, seed=seed, progress_bar=False, **kw)
        except Exception as e:  # noqa
            err = e
    if err is not None or rec.algo is None or rec.hist is None:
        run.fail(f"mcmc:{kind}:raises:{type(err).__name__ if err else 'no-run'}", f"{algo} did not complete: {type(err).__name__}: {str(err)[:200]}", inp)
        return None
    # (d) model parameters are never assigned by the run
    changed = [n for n, v in model.parameters.items() if n not in params_before or not torch.equal(v, params_before[n])]
    if changed or set(params_before) != set(model.parameters):
        run.fail("mcmc:run-assigns-model-parameters", f"{algo} changed the model parameters {changed}", inp)
    return dict(inp=inp, rec=rec, ip=ip, dataset=dataset, model=model, algo=algo, nb=nb, n_iter=n_iter, ann=ann, kind=kind)


def fresh_reader(model, dataset, names):
    """values of the three nodes on a from-scratch state holding the given individual values"""
    st = model.state.clone(disable_auto_fork=True)
    model.put_data_variables(st, dataset)
    pop_before = None

    def read(vals):
        for n in names:
            st[n] = vals[n]
        a = st.get_tensor_value("nll_attach_ind").detach().double().reshape(-1)
        rv = [st.get_tensor_value(f"nll_regul_{n}_ind").detach().double() for n in names]
        rs = st.get_tensor_value("nll_regul_ind_sum_ind").detach().double()
        if rs.ndim > 1 or any(r.ndim > 1 for r in rv):
            raise ValueError("per-cluster regularity (mixture model): not re-executed")
        return a, [r.reshape(-1) for r in rv], rs.reshape(-1)
    return read


def to_case(run: Run, c):
    """Coq literal of the recorded run (type chain_case) + the decision lemmas; None when the run cannot be encoded."""
    import torch
    rec, names, algo = c["rec"], c["rec"].names, c["rec"].algo
    inp = c["inp"]
    n_ind = int(next(iter(rec.init.values())).shape[0])
    n_iter = c["n_iter"]
    if rec.stray_draws:
        run.fail("mcmc:draws-outside-a-sampler-call", f"{rec.stray_draws} torch.rand/randn calls between the sampler calls of the run", inp)
        return None
    samplers = [algo.samplers[n] for n in names]
    s0 = samplers[0]
    # the settings as DECIMAL rationals (0.2 = 1/5): torch compares the float32 mean acceptance with the bound cast to float32, so a rate of
    # exactly 5/25 is not below 0.2 - as in the exact model with lo = 1/5 (the binary64 value of 0.2 is slightly above 1/5)
    from fractions import Fraction
    dec = lambda x: coq_Q(Fraction(repr(float(x))))     # noqa: E731
    scf = (f"{{| hist_len := {coq_Z(int(s0.acceptation_history_length))}; lo := {dec(s0._mean_acceptation_lower_bound_before_adaptation)}; "
           f"hi := {dec(s0._mean_acceptation_upper_bound_before_adaptation)}; fac := {dec(s0._adaptive_std_factor)} |}}")
    ann = algo.algo_parameters.get("annealing", {})
    on = bool(getattr(algo, "annealing_on", False))
    if on and ann.get("oscillations", False):
        return None
    n_ann = ann.get("n_iter", None)
    acf = (f"{{| a_on := {coq_bool(on)}; n_ann := {coq_Z(int(n_ann) if n_ann is not None else 0)}; "
           f"T0 := {coq_Q(ann.get('initial_temperature', 1))}; n_plateau := {coq_Z(int(ann.get('n_plateau', 1)))} |}}")
    random_order = bool(algo.random_order_variables)
    iters = sorted(rec.orders)
    if iters != list(range(1, n_iter + 1)) or any(sorted(rec.orders[k]) != sorted(names) for k in iters):
        run.fail("mcmc:sampler-calls-per-iteration", f"sampler calls per iteration: {[(k, rec.orders[k]) for k in iters][:3]} (expected every one of {names} once, iterations 1..{n_iter})", inp)
        return None
    if (rec.shuffle_calls != (n_iter if random_order else 0)):
        run.fail("mcmc:shuffle-calls", f"shuffle called {rec.shuffle_calls} times with random_order_variables={random_order} over {n_iter} iterations", inp)
    if not random_order and any(rec.orders[k] != list(names) for k in iters):
        run.fail("mcmc:order-without-shuffle", "random_order_variables is off but the samplers were not called in sorted-name order", inp)
    orders = [[names.index(n) for n in rec.orders[k]] for k in iters]
    read = fresh_reader(c["model"], c["dataset"], names)
    table, seen = [], set()

    def add_state(vals):
        key = tuple(float(x) for n in names for x in vals[n].reshape(-1))
        if key in seen:
            return None
        seen.add(key)
        a, rv, rs = read(vals)
        table.append(f"mkRow {state_Q(vals, names)} {qs(a)} {coq_list(qs(r) for r in rv)} {qs(rs)}")
        return a, rv, rs
    add_state(rec.init)
    normals, uniforms, dec, steps, lemmas = [], [], {}, [], []
    dup_conflict = False
    for s in rec.steps:
        if s["proposed"] is None or s["accepted"] is None or len(s["z"]) != 1 or len(s["u"]) != 1:
            run.fail("mcmc:draws-per-sampler-call", f"sampler call of {s['name']} at iteration {s['it']}: {len(s['z'])} randn and {len(s['u'])} rand calls", inp)
            return None
        v = names.index(s["name"])
        z, u, acc = s["z"][0], s["u"][0], s["accepted"]
        normals += [float(x) for x in z]
        uniforms += [float(x) for x in u]
        for x, b in zip(u, acc):
            x, b = float(x), bool(b)
            if dec.get(x, b) != b:
                dup_conflict = True
            dec[x] = b
        steps.append(f"({v}%nat, {coq_list(coq_bool(bool(b)) for b in acc)}, {state_Q(s['after'], names)})")
        for vals in (s["before"], s["proposed"], s["after"]):
            add_state(vals)
        # decision lemmas: D from the fresh values on the state before / the proposed state, at the recorded temperature
        pa, prv, _ = read(s["before"])
        na, nrv, _ = read(s["proposed"])
        for j in range(n_ind):
            lemmas.append(dict(u=float(u[j]), pa=float(pa[j]), na=float(na[j]), pr=float(prv[v][j]), nr=float(nrv[v][j]), tinv=s["tinv"],
                               accepted=bool(acc[j]), it=s["it"], var=s["name"], ind=j))
    if dup_conflict:
        run.count("composed_chain_skipped", "two equal uniform draws with opposite decisions")
        return None
    tinv = [next(s["tinv"] for s in rec.steps if s["it"] == k) for k in iters]
    vals_h, att_h, reg_h = rec.hist
    n_kept = int(att_h.shape[0])
    hist = []
    for d in range(n_kept):
        cells = []
        for i in range(n_ind):
            row = torch.cat([vals_h[n][d][i].reshape(-1) for n in names])
            cells.append(f"({qs(row)}, {coq_Q(float(att_h[d].reshape(-1)[i]))}, {coq_Q(float(reg_h[d].reshape(-1)[i]))})")
        hist.append(coq_list(cells))
    ids = [str(i) for i in c["dataset"].indices]
    res_rows = []
    for i, pid in enumerate(ids):
        row = torch.cat([rec.result[n][i].reshape(-1) for n in names])
        res_rows.append(f"({coq_string(pid)}, {qs(row)})")
    dim = int(sum(rec.init[n][0].numel() for n in names))
    lit = ("mkCase " + " ".join([
        f"({scf})", f"({acf})", coq_Z(int(algo.algo_parameters['n_burn_in_iter'])), coq_bool(random_order), coq_list(coq_string(i) for i in ids), f"{dim}%nat",
        state_Q(rec.init, names), coq_list(coq_Q(float(s.scale)) for s in samplers), qs(normals), qs(uniforms),
        coq_list(coq_list(f"{v}%nat" for v in o) for o in orders),
        coq_list(table), coq_list(f"({coq_Q(x)}, {coq_bool(b)})" for x, b in dec.items()),
        coq_list(steps), qs(tinv), coq_list(hist), coq_list(qs(s.std.reshape(-1)) for s in samplers),
        coq_bool(c["algo"] == "mode_posterior"), coq_list(res_rows)]))
    meta = dict(inp, names=names, orders=[rec.orders[k] for k in iters], n_normals=len(normals), n_uniforms=len(uniforms), n_kept=n_kept,
                expected_normals=n_iter * n_ind * dim, expected_uniforms=n_iter * n_ind * len(names))
    return lit, meta, lemmas


REL_BAND = 2.0 ** -14


def decision_lemma(m):
    """`u < exp(-D)` (or its negation) over exact reals, or None when the float evaluation of D could decide either way"""
    D = (frac(m["na"]) - frac(m["pa"])) + frac(m["tinv"]) * (frac(m["nr"]) - frac(m["pr"]))
    d = float(D)
    if not all(math.isfinite(m[k]) for k in ("pa", "na", "pr", "nr")) or abs(d) > 80:
        return None
    eps = 2.0 ** -23
    tol = 8 * eps * (abs(m["na"]) + abs(m["pa"]) + abs(m["nr"]) + abs(m["pr"]) + 1.0)
    u = m["u"]
    if u <= 0.0 or abs(math.log(u) + d) <= 2 * tol + REL_BAND:
        return None
    body = (f"({coq_R(u)} < exp (- (({coq_R(m['na'])} - {coq_R(m['pa'])}) + {coq_R(m['tinv'])} * ({coq_R(m['nr'])} - {coq_R(m['pr'])}))))%R")
    return body if m["accepted"] else f"~ {body}"


def compose(run: Run, model, dfs, thorough: bool, model_ok=True):
    """Record real runs, re-execute them through the composed model inside Coq, check a sample of decisions by interval."""
    cases, metas, lemmas = compose_record(run, model, dfs, thorough)
    compose_coq(run, cases, metas, lemmas, thorough)


def compose_record(run: Run, model, dfs, thorough: bool):
    """Real runs, recorded call by call and encoded as Coq literals (implementation side only)."""
    seed = run.seed % 1000
    plan = [
        # (algo, n_iter, nb, schedule name, annealing settings, random_order, cohort)
        ("mode_posterior", 12, 4, "default", None, None, "3"),
        ("mean_posterior", 12, 6, "linear3-T3", dict(do_annealing=True, initial_temperature=3, n_plateau=3), None, "3"),
        ("mode_posterior", 10, 0, "plateau1-T3", dict(do_annealing=True, initial_temperature=3, n_plateau=1), False, "3"),
        ("mean_posterior", 30, 15, "linear4-T5", dict(do_annealing=True, initial_temperature=5, n_plateau=4), None, "3"),
    ]
    if thorough:
        plan += [("mode_posterior", 60, 30, "default", None, None, "8"),
                 ("mean_posterior", 40, 10, "linear3-T3", dict(do_annealing=True, initial_temperature=3, n_plateau=3), False, "8")]
    cases, metas, lemmas = [], [], []
    for j, (algo, n_iter, nb, sched, ann, ro, coh) in enumerate(plan):
        c = record(run, model, dfs[coh], "logistic", algo, n_iter, nb, seed + 900 + j, ann=ann, sched=sched, random_order=ro)
        if c is None:
            continue
        try:
            enc = to_case(run, c)
        except Exception as e:  # noqa
            import traceback
            run.broken("compose:encode", f"{type(e).__name__}: {e}\n{traceback.format_exc()[-800:]}", kind="broken-correspondence")
            continue
        if enc is None:
            continue
        lit, meta, lem = enc
        cases.append(lit)
        metas.append(meta)
        run.case(("composed-chain", algo, n_iter, nb, sched, ro, coh), nontrivial=meta["n_kept"] >= 2)
        run.count("composed_chain_runs", f"{algo}/{sched}/random_order={ro}")
        if meta["n_normals"] != meta["expected_normals"] or meta["n_uniforms"] != meta["expected_uniforms"]:
            run.fail("mcmc:draws-consumed-differ-from-closed-form",
                     f"the run drew {meta['n_normals']} normals / {meta['n_uniforms']} uniforms; n_iter x per-sweep count = {meta['expected_normals']} / {meta['expected_uniforms']}",
                     meta, expected=[meta["expected_normals"], meta["expected_uniforms"]], observed=[meta["n_normals"], meta["n_uniforms"]])
        for m in lem:
            m["run"] = dict(meta)
        lemmas += lem
    run.extra["composed_chain_runs"] = len(cases)
    return cases, metas, lemmas


def compose_coq(run: Run, cases, metas, lemmas, thorough: bool):
    """The Coq side of `compose_record` (separate coqc processes: may run in a background thread)."""
    from harness import common
    if not cases:
        return
    ok, out = common.make(CHAIN_TARGETS)
    if not ok:
        run.broken("build:PersonalizeChainExec", out[-1500:], kind="broken-correspondence")
        return
    bad = run.vm_bad_indices("composed_chain", HDR_CHAIN, "chain_case", cases, f"(check_chain {TOL})", shard=1)
    for i in bad or []:
        what = ("the composed model (sweep of C03 individual steps at the C19 temperature and proposal scale, C17 burn-in test and estimator) "
                "re-executed on the recorded tape does not reproduce the run")
        run.fail("mcmc:composed-model-differs", what, metas[i])
    # which comparison failed: one extra evaluation per failing case, the code compared with each possible value
    for i in bad or []:
        for code, text in CODES.items():
            b2 = run.vm_bad_indices(f"composed_chain_code{code}", HDR_CHAIN, "chain_case", [cases[i]], f"(fun c => Nat.eqb (check_chain_code {TOL} c) {code})")
            if b2 == []:
                run.extra.setdefault("composed_chain_first_difference", []).append(dict(run=metas[i], code=code, what=text))
                run.log(f"composed chain: first difference = {code}: {text}")
                break
        break
    # decisions: u < exp(-D) with D from the fresh values at the recorded temperature (tied to the schedule model by code 6 above)
    todo = []
    for m in lemmas:
        s = decision_lemma(m)
        if s is None:
            run.count("composed_decisions", "skipped (near the threshold / extreme)")
        else:
            todo.append((s, m))
            run.count("composed_decisions", "accepted" if m["accepted"] else "rejected")
    cap = 1500 if thorough else 320
    if len(todo) > cap:
        g = run.rng("composed-decisions")
        g.shuffle(todo)
        todo = todo[:cap]
    hdr = "From Coq Require Import Reals Lra.\nFrom Interval Require Import Tactic.\nOpen Scope R_scope.\n"
    tac = "first [interval with (i_prec 64) | apply Rle_not_lt; interval with (i_prec 64)]."
    badl = run.interval_lemmas("composed_decisions", hdr, [s for s, _ in todo], tac, shard=40)
    run.extra["composed_decision_lemmas"] = len(todo)
    for i in badl or []:
        m = todo[i][1]
        run.fail("mcmc:decision-is-not-u-below-exp-minus-D" + (":tempered" if m["tinv"] != 1.0 else ""),
                 "a decision of the run is not `u < exp(-(delta attachment + temperature_inv * delta regularity))` for the fresh values before / after the proposal "
                 "at the temperature of that iteration", m)


def replay_one(run: Run, inp, model, grid_df):
    """Re-record the personalisation of a failing composed-chain input on the current tree and repeat both comparisons."""
    df = grid_df(run, "grid-schedules-8" if int(inp.get("n_ind", 3)) == 8 else "grid-schedules")
    c = record(run, model, df, inp["kind"], inp["algo"], int(inp["n_iter"]), inp["n_burn_in_iter"], int(inp["seed"]), ann=inp.get("annealing"),
               sched=inp.get("schedule", "default"), random_order=inp.get("random_order_variables"))
    enc = to_case(run, c) if c is not None else None
    if enc is not None:
        lit, meta, lem = enc
        for m in lem:
            m["run"] = dict(meta)
        print(f"replay: recorded {meta['n_normals']} normals / {meta['n_uniforms']} uniforms, {meta['n_kept']} kept draws; re-executing inside Coq")
        compose_coq(run, [lit], [meta], lem, run.tier == "thorough")
        for d in run.extra.get("composed_chain_first_difference", []):
            print("replay: first difference:", d["code"], d["what"])
    bad = bool(run.has_problem)
    print("replay:", "the composed model does NOT reproduce the run / a decision is not u < exp(-D)" if bad else "the composed model reproduces the run")
    return 1 if bad else 0
