"""C15 — dependency-graph construction is exact.

Theorems (coq/theories/Props/C15.v) are about `Dag.DagModel.build`, a line-by-line model of
`VariablesDAG.__post_init__` (src/leaspy/variables/dag.py).  The tie (T2, exact): the real class is run on graphs
(exhaustive small digraphs, sampled larger ones, every shipped model graph), under three PYTHONHASHSEED values, and
the model is run on the same graphs inside Coq (`agrees`, vm_compute): error code or
(sorted_variables_names, direct_children, sorted_children, sorted_ancestors) must be identical.
An independent oracle (DFS reachability written here) judges the implementation's answers against the property text.
"""
from __future__ import annotations

import json
import os
import subprocess
import tempfile
import time

from harness import common
from harness.common import Run, coq_list
from harness.translate import graphs as tgraphs
from harness.translate import c15_fromdict as tfromdict
from harness import c15_defs as cdefs

META = dict(
    technique="Coq theorems (loop invariant of Kahn's algorithm with the path matrix; pigeonhole for completeness) about an executable "
              "line-by-line model of VariablesDAG.__post_init__; the model is run inside Coq (vm_compute) on the same graphs as the "
              "implementation and compared exactly; independent DFS oracle on the implementation",
    level_text="Unbounded theorems for every digraph of any size: Ok => the order is a permutation of the nodes in which every node "
               "follows all its (transitive) ancestors; sorted_children / sorted_ancestors are exactly the nodes reachable from / "
               "reaching each node (inductive transitive closure), listed in that order; cyclic, self-referential, unknown-reference "
               "and isolated-node graphs are refused; every other graph is accepted (completeness of Kahn); the result does not "
               "depend on the iteration order of the ancestor sets.  Model tied to the code by exact comparison on all digraphs "
               "on <= 3 (quick) / <= 4 (thorough) nodes, sampled 5-12 node graphs and all shipped model graphs, under 3 hash seeds.  "
               "Extension 4: the graph from_dict builds from variable DEFINITIONS has exactly the edges 'p is a named parameter of v's function' "
               "(keyword-only parameters with or without default; NamedInputFunction names; `then` keeps the inner function's), a non-variable "
               "parameter is refused before any ordering, differing key sets are refused first; tied by a fail-closed ast translator and by "
               "running from_dict on functions of every signature kind and comparing inside Coq.",
    level_note="Trusted: Coq kernel (theorems print 'Closed under the global context'); Python's sorted() on names and the harness "
               "canonicalisation name -> index; torch boolean indexing as modelled by list operations (exercised by the tie, not proved); "
               "from_dict / get_named_parameters / NamedInputFunction.then / the key-set check are modelled (Dag/FromDict.v) starting from what "
               "python's inspect.signature reports of a callable (inspect itself, incl. its treatment of functools.partial, is outside the model).",
    design_ref="DESIGN.md section 4 C15",
)

OBLIGATIONS = [
    "C15_topological", "C15_exact", "C15_refuses", "C15_accepts", "C15_error_meaning", "C15_no_model_artefact",
    "C15_deterministic", "C15_set_order_irrelevant", "C15_direct_children", "C15_shipped_graphs",
    # extension 4: from the definitions (from_dict / get_named_parameters / then / key-set check) to the graph
    "C15_named_parameters", "C15_from_dict_edges", "C15_from_dict_refuses_signature", "C15_from_dict_refuses_unknown",
    "C15_then_keeps_parents", "C15_from_dict_closures", "C15_from_dict_params_only", "C15_from_dict_accepts_iff",
    "C15_from_dict_error_meaning", "C15_key_set_check", "C15_from_dict_source", "C15_shipped_definitions",
    # extension 5: the graph the State model of C01 / C02 works on starts from the signatures (Compose/FromDictState.v)
    "C15_from_dict_is_build_of_state_definitions", "C15_shipped_definitions_state", "C15_shipped_first_history",
]

HDR = "From Coq Require Import List.\nFrom Leaspy Require Import Dag.DagModel.\nImport ListNotations.\n"
HASH_SEEDS = ("0", "1", "20260926")

_GRAPHS_CACHE: dict = {}


def translate(run: Run) -> bool:
    gs = tgraphs.write_gen(run)
    _GRAPHS_CACHE["graphs"] = gs
    ok_fd = tfromdict.translate(run)
    if gs is not None:
        try:
            run.gen("GenC15Defs", cdefs.shipped_defs_coq(gs))
        except (KeyError, ValueError, TypeError) as e:
            run.broken("translate:GenC15Defs", f"{type(e).__name__}: {e}", kind="broken-translation")
            return False
    return gs is not None and ok_fd


# ----------------------------------------------------------------------------- independent oracle


def oracle(names, anc):
    """What the property text says about a set of definitions; plain DFS, no use of the implementation."""
    nodes = set(names)
    unknown = sorted({p for n in names for p in anc[n] if p not in nodes})
    selfl = sorted(n for n in names if n in anc[n])
    children = {n: set() for n in names}
    for c in names:
        for p in anc[c]:
            if p in nodes:
                children[p].add(c)
    isolated = sorted(n for n in names if not anc[n] and not children[n])

    def descendants(n):
        seen, stack = set(), list(children[n])
        while stack:
            x = stack.pop()
            if x not in seen:
                seen.add(x)
                stack.extend(children[x])
        return seen

    desc = {n: descendants(n) for n in names}
    cyclic = sorted(n for n in names if n in desc[n])
    reasons = []
    if unknown:
        reasons.append("unknown-ref")
    if selfl:
        reasons.append("self-loop")
    if isolated:
        reasons.append("isolated")
    if cyclic:
        reasons.append("cyclic")
    return dict(reasons=reasons, desc=desc)


def case_input(case, **over):
    """What a failure records (and `replay` reads back)."""
    d = dict(names=case["names"], anc=case.get("anc"), mode=case.get("mode", "ctor"))
    for k in ("defs", "var_names"):
        if k in case:
            d[k] = case[k]
    d.update(over)
    return d


def to_wire(c):
    if c.get("mode") in ("defs", "ctor_keys"):
        return cdefs.wire(c)
    return dict(names=c["names"], anc=c["anc"], mode=c.get("mode", "ctor"))


def judge(run: Run, case, obs, orc=None):
    """Compare one observation with the property; returns the list of failure signatures (also recorded)."""
    names, anc = case["names"], case["anc"]
    orc = orc or oracle(names, anc)
    sigs = []

    def fail(sig, what, expected=None, observed=None):
        sigs.append(sig)
        run.fail(sig, what, case_input(case, anc=anc), expected=expected, observed=observed)

    if "err" in obs:
        # any exception is a refusal; which check fired is a matter for the correspondence, not for the property
        if not orc["reasons"]:
            fail("refuses:well-formed-dag", f"a well-formed acyclic graph is refused: {obs['err'][0]}: {obs['err'][2]}",
                 expected="accepted", observed=obs["err"])
        return sigs
    if orc["reasons"]:
        fail("accepts:" + orc["reasons"][0], f"definitions that are {'/'.join(orc['reasons'])} are accepted",
             expected="refused", observed=dict(order=obs["order"]))
        return sigs
    order = obs["order"]
    if sorted(order) != sorted(names):
        fail("order:not-a-permutation", "sorted_variables_names is not a permutation of the variables", sorted(names), order)
        return sigs
    pos = {n: i for i, n in enumerate(order)}
    for n in names:
        for p in anc[n]:
            if pos[p] >= pos[n]:
                fail("order:ancestor-after-descendant", f"{n} is listed before its ancestor {p}", None, order)
                return sigs
    desc = orc["desc"]
    for key, what in (("children", "sorted_children"), ("ancestors", "sorted_ancestors")):
        items = obs[key]
        if [k for k, _ in items] != order:
            fail(f"{what}:keys", f"{what} keys are not sorted_variables_names", order, [k for k, _ in items])
            continue
        for n, lst in items:
            want_set = desc[n] if key == "children" else {m for m in names if n in desc[m]}
            want = [m for m in order if m in want_set]
            if set(lst) != want_set or len(lst) != len(set(lst)):
                fail(f"{what}:wrong-set", f"{what}[{n}] is not exactly the transitive {key} of {n}", want, lst)
            elif lst != want:
                fail(f"{what}:wrong-order", f"{what}[{n}] is not listed in the order of sorted_variables_names", want, lst)
    want_dc = {n: sorted(m for m in names if n in anc[m]) for n in names}
    if obs["dchildren"] != want_dc:
        fail("direct_children:wrong", "direct_children is not the inverse of direct_ancestors", want_dc, obs["dchildren"])
    return sigs


# ----------------------------------------------------------------------------- canonical form (indices in name-sorted order)


def canon(case, obs):
    """(graph literal, observed literal, python canonical tuple) or raises ValueError when the observation mentions an unknown name."""
    names, anc = case["names"], case["anc"]
    snames = sorted(names)
    ix = {n: i for i, n in enumerate(snames)}
    unk = sorted({p for n in names for p in anc[n] if p not in ix})
    for k, u in enumerate(unk):
        ix[u] = len(snames) + k
    g = [sorted(ix[p] for p in set(anc[n])) for n in snames]
    glit = coq_list([tgraphs.coq_nat_list(ps) for ps in g])
    if "err" in obs:
        olit = f"inl {obs['err'][1]}"
        ocan = ("err", obs["err"][1])
    else:
        real = {n: i for i, n in enumerate(snames)}
        order = [real[n] for n in obs["order"]]
        dch = [[real[c] for c in obs["dchildren"].get(n, ["<missing>"])] for n in snames]
        sch = [(real[n], [real[c] for c in v]) for n, v in obs["children"]]
        san = [(real[n], [real[c] for c in v]) for n, v in obs["ancestors"]]
        assoc = lambda l: coq_list([f"({k}, {tgraphs.coq_nat_list(v)})" for k, v in l])  # noqa: E731
        olit = f"inr ({tgraphs.coq_nat_list(order)}, {coq_list([tgraphs.coq_nat_list(c) for c in dch])}, {assoc(sch)}, {assoc(san)})"
        ocan = ("ok", tuple(order))
    return f"({glit}, {olit})", (tuple(map(tuple, g)), ocan)


# ----------------------------------------------------------------------------- generators

NAMES_A = ["a", "b", "c", "d", "e"]
NAMES_B = ["n10", "n9", "N1", "_n", "n1"]     # sorted: N1 < _n < n1 < n10 < n9
UNKNOWN_A, UNKNOWN_B = "zz", "A0"             # sorts after / before every node name


def digraph_cases(n, names, mode, with_unknown=None, reverse_insertion=False):
    """All digraphs on n labelled nodes, self loops included (2^(n*n)); with_unknown adds one possible foreign name per node."""
    names = names[:n]
    cols = n + (1 if with_unknown else 0)
    pool = names + ([with_unknown] if with_unknown else [])
    for bits in range(1 << (n * cols)):
        anc = {}
        for c in range(n):
            anc[names[c]] = [pool[p] for p in range(cols) if (bits >> (c * cols + p)) & 1]
        ins = list(reversed(names)) if reverse_insertion else list(names)
        yield dict(names=ins, anc=anc, mode=mode)


TRICKY = ["nll", "nll_regul", "x", "X", "_x", "x_sqr", "x_ind", "tau", "Tau", "v0", "v10", "v9", "z9", "Z10", "ab", "a_b", "aB", "a0", "a"]


def rand_names(rng, n):
    out = set()
    while len(out) < n:
        if rng.random() < 0.6:
            s = rng.choice(TRICKY) + (rng.choice(["", "_", "1", "_mean", "_std", "10", "2"]))
        else:
            s = "".join(rng.choice("abAB_019z") for _ in range(rng.randint(1, 4)))
        if s.isidentifier() and s not in ("p_",):
            out.add(s)
    out = list(out)
    rng.shuffle(out)
    return out


def rand_dag(rng, names, density):
    """Random DAG: edges go forward along a random permutation (unrelated to name order); every node gets >= 1 edge."""
    perm = list(names)
    rng.shuffle(perm)
    anc = {n: [] for n in names}
    for j in range(len(perm)):
        for i in range(j):
            if rng.random() < density:
                anc[perm[j]].append(perm[i])
    touched = {p for ps in anc.values() for p in ps} | {n for n in names if anc[n]}
    for n in names:
        if n not in touched:
            j = perm.index(n)
            if j > 0:
                anc[n].append(perm[rng.randrange(j)])
            else:
                anc[perm[rng.randrange(1, len(perm))]].append(n)
            touched = {p for ps in anc.values() for p in ps} | {m for m in names if anc[m]}
    for n in names:
        rng.shuffle(anc[n])
    return anc, perm


def sampled_case(rng, family):
    n = rng.randint(5, 12)
    names = rand_names(rng, n)
    density = rng.choice([0.1, 0.2, 0.3, 0.4, 0.5, 0.6])
    anc, perm = rand_dag(rng, names, density)
    if family == "dag":
        pass
    elif family == "cycle-unreachable-from-roots":
        # a strongly connected block with no incoming edge from outside, feeding the rest
        k = rng.randint(2, 4)
        blk = perm[:k]
        for i, b in enumerate(blk):
            anc[b] = [blk[(i - 1) % k]] + [x for x in anc[b] if x in blk and x != b and rng.random() < 0.3]
    elif family == "cycle-downstream":
        a, b = sorted(rng.sample(range(len(perm)), 2))
        lo, hi = perm[a], perm[b]
        # hi already (maybe) depends on lo; add the back edge lo <- hi through a path
        if lo not in anc[hi]:
            anc[hi].append(lo)
        anc[lo].append(hi)
    elif family == "diamond-late-root":
        top, l, r, bot = perm[0], perm[1], perm[2], perm[3]
        for c, p in ((l, top), (r, top), (bot, l), (bot, r)):
            if p not in anc[c]:
                anc[c].append(p)
        late = "zzz_late_root"
        names = names + [late]
        anc[late] = []
        for c in rng.sample(perm[1:], rng.randint(1, 3)):
            anc[c].append(late)
    elif family == "isolated":
        iso = rng.choice(["_iso", "iso", "zz_iso", "A_iso"])
        names = names + [iso]
        anc[iso] = []
    elif family == "unknown-ref":
        anc[rng.choice(names)].append(rng.choice(["ghost", "_ghost", "Ghost9", "zzghost"]))
    elif family == "self-loop":
        x = rng.choice(names)
        anc[x].append(x)
    elif family == "random-digraph":
        anc = {n: [m for m in names if m != n and rng.random() < density / 2] for n in names}
    elif family == "reverse-chain":
        s = sorted(names, reverse=True)
        anc = {s[i]: ([s[i - 1]] if i else []) for i in range(len(s))}
        for _ in range(rng.randint(0, 4)):
            i, j = sorted(rng.sample(range(len(s)), 2))
            if s[i] not in anc[s[j]]:
                anc[s[j]].append(s[i])
    else:
        raise ValueError(family)
    anc = {n: list(dict.fromkeys(ps)) for n, ps in anc.items()}   # a function cannot have two parameters of the same name
    ins = list(names)
    rng.shuffle(ins)
    return dict(names=ins, anc=anc, mode=rng.choice(["ctor", "from_dict"]), family=family, density=density)


def many_paths_case(rng, kind):
    """Valid DAGs in which some pair of variables is joined by a large number of distinct directed paths (a multiple of 256,
    of 65 536, or just a big number): a diamond ladder (2^k paths through k stacked diamonds), a complete DAG (every variable
    defined from all earlier ones: 2^(n-2) paths first -> last) and fully connected layers (w^(L-1) paths)."""
    anc = {}
    if kind == "diamond-ladder":
        k = rng.choice([8, 9, 16, 17])
        names = [f"v{i}" for i in range(3 * k + 1)]
        rng.shuffle(names)
        top = names[0]
        anc[top] = []
        idx = 1
        for _ in range(k):
            l, r, bot = names[idx], names[idx + 1], names[idx + 2]
            idx += 3
            anc[l], anc[r], anc[bot] = [top], [top], [l, r]
            top = bot
    elif kind == "complete-dag":
        n = rng.choice([10, 11, 13, 18])
        names = [f"c{i}" for i in range(n)]
        rng.shuffle(names)
        for j, x in enumerate(names):
            anc[x] = list(names[:j])
    elif kind == "layers":
        w, depth = rng.choice([(16, 2), (4, 4), (2, 8), (4, 8)])
        root, sink = "root_", "sink_"
        layers = [[f"l{d}_{i}" for i in range(w)] for d in range(depth)]
        names = [root, sink] + [x for lay in layers for x in lay]
        anc[root] = []
        prev = [root]
        for lay in layers:
            for x in lay:
                anc[x] = list(prev)
            prev = lay
        anc[sink] = list(prev)
    else:
        raise ValueError(kind)
    for n in anc:
        rng.shuffle(anc[n])
    ins = list(names)
    rng.shuffle(ins)
    return dict(names=ins, anc=anc, mode=rng.choice(["ctor", "from_dict"]), family="many-paths:" + kind)


FAMILIES = ["dag", "dag", "cycle-unreachable-from-roots", "cycle-downstream", "diamond-late-root", "isolated", "unknown-ref",
            "self-loop", "random-digraph", "reverse-chain"]


def shuffled_twin(rng, case):
    """Same definitions, different insertion order of the dictionary and of each ancestor collection."""
    ins = list(case["names"])
    rng.shuffle(ins)
    anc = {}
    for n in ins:
        ps = list(case["anc"][n])
        rng.shuffle(ps)
        anc[n] = ps
    return dict(case, names=ins, anc=anc)


def shipped_cases(rng, graphs, thorough):
    """Every shipped graph with its real names (ctor mode), plus damaged variants (back edge, cut node, foreign name)."""
    out = []
    seen = set()
    for g in graphs:
        key = (tuple(g["names"]), tuple(map(tuple, g["parents"])))
        if key in seen:
            continue
        seen.add(key)
        names = g["names"]
        anc = {n: [names[p] for p in ps] for n, ps in zip(names, g["parents"])}
        ins = list(names)
        rng.shuffle(ins)
        out.append(dict(names=ins, anc=anc, mode="ctor", family="shipped", label=g["label"]))
        n_var = 6 if thorough else 2
        order = [names[i] for i in g["order"]]
        for _ in range(n_var):
            # back edge: an ancestor now depends on one of its transitive children
            pairs = [(names[k], names[c]) for k, cs in g["children"] for c in cs]
            a, d = rng.choice(pairs)
            anc2 = {n: list(ps) for n, ps in anc.items()}
            anc2[a].append(d)
            out.append(dict(names=ins, anc=anc2, mode="ctor", family="shipped+back-edge", label=g["label"]))
            # forward extra edge (still a DAG, changes closures)
            i, j = sorted(rng.sample(range(len(order)), 2))
            anc3 = {n: list(ps) for n, ps in anc.items()}
            if order[i] not in anc3[order[j]]:
                anc3[order[j]].append(order[i])
            out.append(dict(names=ins, anc=anc3, mode="ctor", family="shipped+forward-edge", label=g["label"]))
        anc4 = {n: list(ps) for n, ps in anc.items()}
        anc4[rng.choice(names)].append("not_a_variable")
        out.append(dict(names=ins, anc=anc4, mode="ctor", family="shipped+unknown", label=g["label"]))
        out.append(dict(names=ins + ["lonely"], anc=dict(anc, lonely=[]), mode="ctor", family="shipped+isolated", label=g["label"]))
    return out


def all_cases(run: Run, graphs):
    thorough = run.tier == "thorough"
    cases = []

    def add(gen, family):
        for c in gen:
            c.setdefault("family", family)
            cases.append(c)

    kmax = 4 if thorough else 3
    for n in range(0, kmax + 1):
        add(digraph_cases(n, NAMES_A, "from_dict"), f"exhaustive-{n}-names-A")
        add(digraph_cases(n, NAMES_B, "ctor", reverse_insertion=True), f"exhaustive-{n}-names-B")
    for n in range(1, 4):
        add(digraph_cases(n, NAMES_A, "ctor", with_unknown=UNKNOWN_A), f"exhaustive-{n}+unknown-names-A")
    for n in range(1, 3 if not thorough else 4):
        add(digraph_cases(n, NAMES_B, "from_dict", with_unknown=UNKNOWN_B), f"exhaustive-{n}+unknown-names-B")
    if not thorough:
        # a sample of the 4-node space (exhaustive in the thorough tier)
        rng = run.rng("four")
        for _ in range(3000):
            bits = rng.getrandbits(16)
            if rng.random() < 0.5:
                bits &= rng.getrandbits(16)   # sparser: more acyclic ones
            nm = NAMES_A[:4] if rng.random() < 0.5 else NAMES_B[:4]
            anc = {nm[c]: [nm[p] for p in range(4) if (bits >> (c * 4 + p)) & 1] for c in range(4)}
            cases.append(dict(names=list(nm), anc=anc, mode="ctor", family="sampled-4"))
    rng = run.rng("sampled")
    for i in range(12000 if thorough else 2000):
        cases.append(sampled_case(rng, FAMILIES[i % len(FAMILIES)]))
    add(shipped_cases(run.rng("shipped"), graphs or [], thorough), "shipped")
    rng = run.rng("many-paths")
    for i in range(36 if thorough else 12):
        cases.append(many_paths_case(rng, ["diamond-ladder", "complete-dag", "layers"][i % 3]))
    # metamorphic twins: same definitions, other insertion orders (results must be identical)
    rng = run.rng("twins")
    n_base = len(cases)
    twins = []
    for i in range(n_base):
        c = cases[i]
        if len(c["names"]) >= 3 and (c["family"].startswith("shipped") or rng.random() < (0.25 if not c["family"].startswith("exhaustive-4") else 0.02)):
            t = shuffled_twin(rng, c)
            t["twin_of"] = i
            twins.append(t)
    cases += twins
    return cases


# ----------------------------------------------------------------------------- running the implementation


def run_impl(cases, hash_seeds=HASH_SEEDS):
    """Run harness.dagrun in one sub-process per PYTHONHASHSEED (in parallel); returns {seed: [observation]}."""
    tmp = tempfile.mkdtemp(prefix="c15_")
    fin = os.path.join(tmp, "cases.json")
    json.dump([to_wire(c) for c in cases], open(fin, "w"))
    procs = []
    for hs in hash_seeds:
        fout = os.path.join(tmp, f"out_{hs}.json")
        env = common.env_for_impl({"PYTHONHASHSEED": hs})
        p = subprocess.Popen([common.PY, "-m", "harness.dagrun", fin, fout], cwd=str(common.VERIF), env=env,
                             stdout=subprocess.PIPE, stderr=subprocess.STDOUT, text=True)
        procs.append((hs, fout, p))
    res = {}
    errs = []
    for hs, fout, p in procs:
        out, _ = p.communicate()
        if p.returncode != 0 or not os.path.exists(fout):
            errs.append(f"PYTHONHASHSEED={hs}: exit {p.returncode}\n{out[-1500:]}")
            continue
        res[hs] = json.load(open(fout))
    for f in os.listdir(tmp):
        os.unlink(os.path.join(tmp, f))
    os.rmdir(tmp)
    return res, errs


def strip(o):
    """Observation without the free-text message (set reprs inside messages legitimately vary with the hash seed)."""
    if "err" in o:
        return dict(o, err=o["err"][:2])
    return o


def check(run: Run, graphs):
    thorough = run.tier == "thorough"
    run.rule = ("all digraphs (self loops included) on <= %d labelled nodes under two name assignments (exhaustive), the same on <= 3 nodes "
                "with one foreign name; %s sampled graphs of 5-12 nodes (random DAGs along a permutation unrelated to name order, planted "
                "cycles with no entry from a root, cycles downstream of roots, diamonds with a late-sorting root, isolated nodes, unknown "
                "references, self loops, random digraphs, reverse-name chains); every shipped model graph with its real names plus damaged "
                "variants; shuffled-insertion-order twins.  Each graph is built by the real VariablesDAG under PYTHONHASHSEED in %s.  "
                "Non-trivial = refused, or some node has >= 2 direct ancestors; distinct by (name-sorted graph, outcome)."
                % (4 if thorough else 3, "4-node graphs exhaustively and 12000" if thorough else "3000 sampled 4-node graphs and 2000", list(HASH_SEEDS)))
    run.exhaustive = True
    t = time.time()
    cases = all_cases(run, graphs)
    run.log(f"{len(cases)} cases generated in {time.time() - t:.1f}s")
    t = time.time()
    res, errs = run_impl(cases)
    run.log(f"implementation run under {len(res)} hash seeds in {time.time() - t:.1f}s")
    for e in errs:
        run.broken("impl-runner", e, kind="broken-correspondence")
    if not res:
        return
    base_seed = HASH_SEEDS[0] if HASH_SEEDS[0] in res else sorted(res)[0]
    base = res[base_seed]
    # ---- determinism across hash seeds
    for hs, obs in res.items():
        if hs == base_seed:
            continue
        for i, (a, b) in enumerate(zip(base, obs)):
            if strip(a) != strip(b):
                c = cases[i]
                run.fail("nondeterministic:hash-seed", f"result differs between PYTHONHASHSEED={base_seed} and {hs}",
                         dict(names=c["names"], anc=c["anc"], mode=c.get("mode", "ctor"), hash_seeds=[base_seed, hs]),
                         expected=strip(a), observed=strip(b))
    run.extra["hash_seeds"] = sorted(res)
    # ---- metamorphic: insertion order
    for i, c in enumerate(cases):
        j = c.get("twin_of")
        if j is not None and strip(base[i]) != strip(base[j]):
            run.fail("depends-on:insertion-order", "result depends on the insertion order of the definitions",
                     dict(names=c["names"], anc=c["anc"], mode=c.get("mode", "ctor"), other_names=cases[j]["names"], other_anc=cases[j]["anc"]),
                     expected=strip(base[j]), observed=strip(base[i]))
    # ---- oracle + canonical literals
    lits: dict[str, list[int]] = {}
    judged: dict[int, list[str]] = {}
    for i, (c, o) in enumerate(zip(cases, base)):
        orc = oracle(c["names"], c["anc"])
        judged[i] = judge(run, c, o, orc)
        try:
            lit, can = canon(c, o)
        except (KeyError, ValueError) as e:
            run.fail("result:foreign-name", f"the result mentions a name that is not a variable: {e}",
                     dict(names=c["names"], anc=c["anc"], mode=c.get("mode", "ctor")), observed=strip(o))
            continue
        nontriv = ("err" in o) or any(len(set(ps)) >= 2 for ps in c["anc"].values())
        run.case(can, nontrivial=nontriv)
        run.count("family", c.get("family", "?"))
        run.count("n_nodes", len(c["names"]))
        run.count("outcome", "ok" if "err" not in o else {1: "refused:unknown-ref", 2: "refused:self-loop", 3: "refused:isolated",
                                                          4: "refused:not-a-dag", 5: "refused:not-triangular"}.get(o["err"][1], f"refused:other:{o['err'][0]}"))
        run.count("mode", c.get("mode", "ctor"))
        if c.get("density") is not None:
            run.count("density(sampled)", c["density"])
        lits.setdefault(lit, []).append(i)
    for fam in ("diamond-late-root", "cycle-unreachable-from-roots", "shipped"):
        for i, c in enumerate(cases):
            if c.get("family") == fam:
                run.sample(dict(family=fam, names=c["names"], anc=c["anc"], mode=c.get("mode"), observed=strip(base[i]), label=c.get("label")))
                break
    # ---- the model inside Coq on the same graphs
    keys = list(lits)
    t = time.time()
    bad = run.vm_bad_indices("agrees", HDR, "graph * observed", keys, "(fun c => agrees (fst c) (snd c))", shard=1500 if thorough else 600)
    run.log(f"model evaluated inside Coq on {len(keys)} distinct (graph, observation) pairs in {time.time() - t:.1f}s")
    run.extra["distinct_pairs_evaluated_in_coq"] = len(keys)
    if bad:
        n_unexplained = 0
        first = None
        for b in bad:
            for i in lits[keys[b]]:
                if not judged[i]:
                    n_unexplained += 1
                    if first is None or len(json.dumps(cases[i]["anc"])) < len(json.dumps(cases[first]["anc"])):
                        first = i
        run.extra["model_disagreements"] = len(bad)
        detail = f"{len(bad)} distinct graphs on which the implementation and Dag.DagModel.build disagree"
        if first is not None:
            c = cases[first]
            detail += (f"; {n_unexplained} of them are not property failures by the oracle, smallest: "
                       f"names={c['names']} anc={c['anc']} mode={c.get('mode')} observed={strip(base[first])}")
        else:
            i = lits[keys[bad[0]]][0]
            detail += f"; all of them are property failures reported above, e.g. anc={cases[i]['anc']} observed={strip(base[i])}"
        run.broken("correspondence:build", detail, kind="broken-correspondence")
    # ---- shipped graphs as the translator saw them (in-process observation) agree with the sub-process runs
    if graphs:
        by_label = {c.get("label"): i for i, c in enumerate(cases) if c.get("family") == "shipped"}
        for g in graphs:
            i = by_label.get(g["label"])
            if i is None:
                continue
            names = g["names"]
            if "err" in base[i] or [names.index(n) for n in base[i]["order"]] != g["order"]:
                run.fail("shipped:order-differs", "the order of a shipped graph differs between model.dag and a rebuilt VariablesDAG",
                         dict(label=g["label"]), expected=g["order"], observed=strip(base[i]))
        run.extra["shipped_graphs"] = [dict(label=g["label"], nodes=len(g["names"]), edges=sum(len(p) for p in g["parents"]),
                                            has_sources=g["has_sources"]) for g in graphs]


# ----------------------------------------------------------------------------- extension 4: from the definitions to the graph


def defs_cases(run: Run):
    thorough = run.tier == "thorough"
    cases = cdefs.exhaustive_signature_cases(thorough)
    rng = run.rng("defs")
    for i in range(6000 if thorough else 2000):
        if i % 2:
            base = sampled_case(rng, FAMILIES[(i // 2) % len(FAMILIES)])
        else:
            n = rng.randint(2, 4)
            nm = list(NAMES_A[:n] if rng.random() < 0.5 else NAMES_B[:n])
            pool = nm + ([UNKNOWN_A] if rng.random() < 0.15 else [])
            dens = rng.choice([0.2, 0.35, 0.5])
            anc = {c: [p for p in pool if p != c and rng.random() < dens] for c in nm}
            if rng.random() < 0.7:      # mostly acyclic: keep only edges going forward along a random permutation
                perm = list(nm)
                rng.shuffle(perm)
                anc = {c: [p for p in anc[c] if p not in perm or perm.index(p) < perm.index(c)] for c in nm}
            base = dict(names=nm, anc=anc, family=f"small-{n}")
        cases.append(cdefs.sampled_defs_case(rng, base, defect=(i % 4 == 3)))
    rng = run.rng("ctor-keys")
    bases = [sampled_case(rng, FAMILIES[i % len(FAMILIES)]) for i in range(1200 if thorough else 400)]
    bases += [dict(names=list(NAMES_A[:n]), anc={c: [p for p in NAMES_A[:n] if p < c and rng.random() < 0.6] for c in NAMES_A[:n]}, family="small")
              for n in (1, 2, 2, 3, 3, 3) for _ in range(10)]
    cases += cdefs.ctor_keys_cases(rng, bases)
    return cases


def judge_defs(run: Run, c, o):
    """Property-level verdict on one definitions / key-set case (python only); returns the failure signatures."""
    sigs = []
    if c["mode"] == "ctor_keys":
        if set(c["var_names"]) != set(c["names"]):
            if "err" not in o:
                sigs.append("accepts:inconsistent-key-sets")
                run.fail(sigs[-1], "a graph is built although the keys of `variables` and of `direct_ancestors` differ "
                         "(a name known only as a key / a parent is silently added or a variable silently dropped)",
                         case_input(c), expected="refused", observed=dict(order=o["order"]))
            return sigs
        return judge(run, c, o)
    seen = o.get("sigs") or {}
    for n, d in c["defs"].items():
        if d is not None and d["form"] in ("def", "lambda") and seen.get(n) != d["sig"]:
            run.broken("harness:signature", f"inspect.signature reports {seen.get(n)} for a function written as {d['sig']}", kind="broken-correspondence")
            return ["harness"]
    exp = {n: cdefs.expected_parents(d, seen.get(n)) for n, d in c["defs"].items()}
    if any(v is None for v in exp.values()):
        return sigs            # a function that cannot be given by name only: whether / how it is refused is compared by the model
    got = o.get("parents")
    if got is not None:
        for n in c["names"]:
            dropped = sorted(set(exp[n]) - set(got[n]))
            invented = sorted(set(got[n]) - set(exp[n]))
            for sig, lst, what in (("from_dict:parameter-dropped", dropped, "named parameter(s) %s of the function defining `%s` are not among its direct ancestors"),
                                   ("from_dict:parent-invented", invented, "direct ancestor(s) %s of `%s` are no named parameter of its function")):
                if lst:
                    sigs.append(sig)
                    run.fail(sig, what % (lst, n), case_input(c, anc=exp), expected=sorted(set(exp[n])), observed=got[n])
        if "dag_parents" in o and o["dag_parents"] != got:
            sigs.append("from_dict:ancestors-differ-from-declared")
            run.fail(sigs[-1], "dag.direct_ancestors differs from what the variables' get_ancestors_names() return", case_input(c, anc=exp),
                     expected=got, observed=o["dag_parents"])
    return sigs + judge(run, dict(c, anc=exp), o)


def check_defs(run: Run, graphs):
    t = time.time()
    cases = defs_cases(run)
    res, errs = run_impl(cases)
    run.log(f"from_dict / key-set: {len(cases)} definition cases run under {len(res)} hash seeds in {time.time() - t:.1f}s")
    for e in errs:
        run.broken("impl-runner:defs", e, kind="broken-correspondence")
    if not res:
        return
    base_seed = HASH_SEEDS[0] if HASH_SEEDS[0] in res else sorted(res)[0]
    base = res[base_seed]
    for hs, obs in res.items():
        for i, (a, b) in enumerate(zip(base, obs)):
            if hs != base_seed and strip(a) != strip(b):
                run.fail("nondeterministic:hash-seed", f"result differs between PYTHONHASHSEED={base_seed} and {hs}",
                         case_input(cases[i], hash_seeds=[base_seed, hs]), expected=strip(a), observed=strip(b))
    lits = {"defs": {}, "ctor_keys": {}}
    judged = {}
    for i, (c, o) in enumerate(zip(cases, base)):
        judged[i] = judge_defs(run, c, o)
        try:
            lit = cdefs.defs_literal(c, o) if c["mode"] == "defs" else cdefs.ctor_literal(c, o)
        except KeyError as e:
            run.fail("result:foreign-name", f"the result mentions a name that is not a variable: {e}", case_input(c), observed=strip(o))
            continue
        code = o["err"][1] if "err" in o else 0
        run.case(("defs", lit), nontrivial=True)
        run.count("family", c["family"])
        run.count("mode", c["mode"])
        run.count("outcome", {0: "ok", 1: "refused:unknown-ref", 2: "refused:self-loop", 3: "refused:isolated", 4: "refused:not-a-dag",
                              7: "refused:inconsistent-keys", 8: "refused:not-keyword-only"}.get(code, f"refused:other:{o.get('err', ['?'])[0]}"))
        for f in c.get("forms", []):
            run.count("function form (defs)", f)
        lits[c["mode"]].setdefault(lit, []).append(i)
    for fam in ("defs:exhaustive-signature", "defs:diamond-late-root", "ctor-keys:both"):
        for i, c in enumerate(cases):
            if c["family"] == fam and (fam != "defs:exhaustive-signature" or len(c["defs"]["v"]["sig"]) == 2):
                run.sample(dict(case_input(c), family=fam, observed=strip(base[i])))
                break
    shipped = {}
    for g in graphs or []:
        if "defs" in g:
            shipped.setdefault(cdefs.shipped_literal(g), []).append(g["label"])
    t = time.time()
    for mode, ctype, checker, extra in (("defs", "(list vdef * observed * list (list nat))", "from_dict_agrees", list(shipped)),
                                        ("ctor_keys", "(list nat * graph * observed)", "ctor_agrees", [])):
        keys = list(lits[mode]) + extra
        bad = run.vm_bad_indices(checker, cdefs.HDR, ctype, keys, checker, shard=300)
        run.extra[f"distinct_{mode}_cases_evaluated_in_coq"] = len(keys)
        if bad:
            unexplained = [i for b in bad if keys[b] in lits[mode] for i in lits[mode][keys[b]] if not judged[i]]
            labels = [lab for b in bad if keys[b] in shipped for lab in shipped[keys[b]]]
            detail = f"{len(bad)} distinct cases on which the implementation and Dag.FromDict.{checker[:-7]} disagree"
            if labels:
                detail += f"; shipped models: {labels[:4]}"
            if unexplained:
                i = min(unexplained, key=lambda k: len(json.dumps(to_wire(cases[k]))))
                detail += f"; {len(unexplained)} are not property failures by the oracle, smallest: {json.dumps(to_wire(cases[i]))} observed={strip(base[i])}"
            elif not labels:
                i = lits[mode][keys[bad[0]]][0]
                detail += f"; all of them are property failures reported above, e.g. {json.dumps(to_wire(cases[i]))[:600]}"
            run.broken(f"correspondence:{checker[:-7]}", detail, kind="broken-correspondence")
    run.extra["shipped_definitions_evaluated_in_coq"] = len(shipped)
    run.log(f"from_dict / ctor models evaluated inside Coq in {time.time() - t:.1f}s")


def main(run: Run):
    ok_t = translate(run)
    graphs = _GRAPHS_CACHE.get("graphs")
    if ok_t:
        run.prove("C15", OBLIGATIONS)
    run.assumptions += [
        "nodes are identified with their rank in Python's sorted() order of the names (sorted() itself is outside the model)",
        "a python callable is abstracted by what inspect.signature reports of it (name, kind, default of each parameter); inspect.signature itself, "
        "bound_to's optional check_arguments callback and _stratify_variables are outside the model",
    ]
    run.trusted.append("harness/dagrun.py + canonicalisation name -> index in harness/props/c15.py")
    run.trusted.append("harness/c15_defs.py (function descriptions -> python source / Coq literals) and python's inspect.signature as the description of a plain callable")
    run.explanation = ("Theorems about Dag.DagModel.build hold for every digraph of every size (induction over Kahn's loop). The model is "
                       "tied to dag.py by running both on the same graphs and comparing inside Coq; an independent DFS oracle turns any "
                       "disagreement that matters into a concrete failing graph.  Dag.FromDict.from_dict (extension 4) covers the step before: "
                       "from the variable definitions (function signatures, NamedInputFunction, then) to that graph, tied by an ast translator "
                       "and by running the real from_dict on functions of every signature kind.")
    check(run, graphs)
    check_defs(run, graphs)
    return run.finish()


def replay(run: Run, path: str):
    d = json.load(open(path))
    inp = d.get("input") or {}
    if "anc" not in inp:
        print("replay: this file records a broken obligation / correspondence; re-running the check:", [b["name"] for b in d.get("broken", [])])
        return main(run)
    case = dict(names=inp["names"], anc=inp["anc"], mode=inp.get("mode", "ctor"))
    for k in ("defs", "var_names"):
        if k in inp:
            case[k] = inp[k]
    seeds = tuple(inp.get("hash_seeds", HASH_SEEDS))
    cases = [case]
    if "other_names" in inp:
        cases.append(dict(names=inp["other_names"], anc=inp["other_anc"], mode=case["mode"]))
    res, errs = run_impl(cases, seeds)
    for e in errs:
        print(e)
    bad = bool(errs)
    first = None
    new_mode = case["mode"] in ("defs", "ctor_keys")
    for hs in seeds:
        if hs not in res:
            continue
        for k, o in enumerate(res[hs]):
            print(f"PYTHONHASHSEED={hs} case {k}: {json.dumps(strip(o))}")
            sigs = judge_defs(run, cases[k], o) if new_mode else judge(run, cases[k], o)
            if sigs:
                bad = True
                print("   property failures:", sigs)
            if first is None:
                first = strip(o)
            elif strip(o) != first:
                bad = True
                print("   differs from the first observation (non-deterministic / order dependent)")
    if not new_mode:
        orc = oracle(case["names"], case["anc"])
        print("oracle: expected", "refusal (" + ", ".join(orc["reasons"]) + ")" if orc["reasons"] else "acceptance")
    if res:
        o = res[sorted(res)[0]][0]
        try:
            if case["mode"] == "defs":
                b = run.vm_bad_indices("replay", cdefs.HDR, "(list vdef * observed * list (list nat))", [cdefs.defs_literal(case, o)], "from_dict_agrees")
                which = "Dag.FromDict.from_dict"
            elif case["mode"] == "ctor_keys":
                b = run.vm_bad_indices("replay", cdefs.HDR, "(list nat * graph * observed)", [cdefs.ctor_literal(case, o)], "ctor_agrees")
                which = "Dag.FromDict.ctor"
            else:
                lit, _ = canon(case, o)
                b = run.vm_bad_indices("replay", HDR, "graph * observed", [lit], "(fun c => agrees (fst c) (snd c))")
                which = "Dag.DagModel.build"
            print(f"model (Coq, {which}) agrees with the implementation:", b == [])
            bad = bad or b != []
        except (KeyError, ValueError) as e:
            print("result mentions a foreign name:", e)
            bad = True
    print("REPLAY", "FAILS" if bad else "passes")
    return 1 if bad else 0
