"""C12 — a fitted model is self-consistent and survives save/load unchanged."""
from __future__ import annotations

import copy
import io
import contextlib
import json
import math
import os
import shutil
import warnings
from fractions import Fraction
from pathlib import Path

from harness.common import Run, SRC, coq_Q, coq_Z, coq_bool, coq_list, coq_string, frac

META = dict(
    technique="Coq theorems on a model of to_dict / ModelSettings / model_factory / constructors / load_parameters over association "
              "lists and nested number lists, and of the end-of-fit script over an abstract store; the model's executable "
              "definitions are run inside Coq (vm_compute) on the dictionaries the real code wrote / was given and compared "
              "(key set, order, routing, error class, reshaped values); structural translation of the end-of-fit statements and of "
              "StatefulModel.load_parameters; histories (load_parameters / fit / observers on ONE model object) as event lists over the "
              "same store and over the real State model; State.__setitem__ traces of every load_parameters compared inside Coq; "
              "multi-step histories on the real code compared with a fresh model",
    level_text="Unbounded theorems: after the end-of-fit script every population variable is the mode of its prior under the final "
               "parameters and every read is the from-scratch value (store interface proved for the State model of C01: "
               "C12_self_consistent_state / _reachable, docs/Compose-api.md); the same after ANY sequence of load_parameters / fit / "
               "observer events on one model object, and an old model object reads like a fresh one built from the last parameters "
               "(C12_history_self_consistent, _independent, _reachable, _vs_fresh_reachable; C12_guarded_reset_refuted); load(save m) succeeds and "
               "preserves kind, features, dimension, sources, observation models, parameters for every well-formed model whose "
               "instance name is its kind; save/load/save is the identity on float32 declared-shape models; refutations for custom "
               "instance names, default-constructed univariate models, scalar-noise shape and float64 parameters.  Float side: the "
               "executable binary32 rounding r32 is idempotent on every rational (so save/load is a fixed point after one round with no "
               "hypothesis on the cast), F32.round_bin is idempotent and monotone wherever defined and equals r32 on the normal range.",
    level_note="Trusted: Coq kernel; json / repr float round trip and torch.tensor float32 cast being round-to-nearest-even "
               "(tested on sampled bit patterns, exact ties and boundaries, also through the real load; not proved); torch tolist / view; the graph-shape conditions of C12_self_consistent_state on population variables and "
               "their priors (checked on the shipped DAGs at run time); "
               "DAG node names other than parameters, hyper-parameters and mixing_matrix in a hand-written `parameters` section are "
               "outside the model.",
    design_ref="DESIGN.md section 4 C12",
)

OBLIGATIONS = [
    "C12_self_consistent", "C12_tie_end_of_fit", "C12_roundtrip_partial", "C12_roundtrip_exact", "C12_idempotent_partial",
    "C12_idempotent_after_one",
    # float side: r32 (the executable binary32 rounding tied to torch) is idempotent on every rational -> no cast hypothesis
    "C12_r32_idempotent", "C12_idempotent_after_one_r32",
    # Io/F32.v (round_bin / f32 / f64 / store32, the cast of the ingestion model of C14 / C20): idempotent, monotone, and the
    # C14 age collision for every pair of ages of the interval
    "C12_round_bin_idempotent", "C12_round_bin_monotone", "C12_store32_monotone", "C12_store32_defined",
    "C12_store32_collision_interval", "C12_f32_is_r32", "C12_r32_monotone_normal",
    "C12_instance_name_refuted", "C12_instance_name_case_refuted", "C12_univariate_default_refuted",
    "C12_scalar_noise_shape_refuted", "C12_float64_refuted",
    # composition with C01 (coq/theories/Compose/): the store hypotheses discharged on the real State model
    "C12_store_interface_discharged", "C12_self_consistent_state", "C12_self_consistent_reachable", "C12_state_example",
    # histories on one model object (Io/History.v, Compose/StateHistory.v): any sequence of load_parameters / fit
    "C12_tie_load_parameters", "C12_load_parameters_self_consistent", "C12_history_self_consistent", "C12_history_independent",
    "C12_history_self_consistent_reachable", "C12_history_last_load_params_state", "C12_history_vs_fresh_reachable",
    "C12_guarded_reset_refuted", "C12_history_example",
]

SCRATCH = Path(f"/tmp/scratch/c12-check-{os.getpid()}/run")

ERR = {"LeaspyModelInputError": "ModelInputError", "LeaspyInputError": "InputError", "ValueError": "ValueError",
       "TypeError": "TypeError", "KeyError": "KeyError", "AttributeError": "AttributeError",
       "NotImplementedError": "NotImplementedErr", "RuntimeError": "RuntimeErr"}
KIND = {"LogisticModel": "Logistic", "LinearModel": "Linear", "SharedSpeedLogisticModel": "SharedSpeed", "JointModel": "Joint",
        "LogisticMultivariateMixtureModel": "Mixture"}
KIND_NAME = {"Logistic": "logistic", "Linear": "linear", "SharedSpeed": "shared_speed_logistic", "Joint": "joint",
             "Mixture": "mixture_logistic"}


# ----------------------------------------------------------------------------- python -> Coq literals


def cq(x) -> str:
    f = frac(x)
    return f"({f.numerator} # {f.denominator})"


def coq_jv(o) -> str:
    if o is None:
        return "JNull"
    if isinstance(o, bool):
        raise ValueError("bool in settings")
    if isinstance(o, int):
        return f"(JInt ({o}))"
    if isinstance(o, float):
        if not math.isfinite(o):
            raise ValueError("non-finite")
        return f"(JNum {cq(o)})"
    if isinstance(o, str):
        return f"(JStr {cs(o)})"
    if isinstance(o, (list, tuple)):
        return "(JList [" + "; ".join(coq_jv(x) for x in o) + "])"
    if isinstance(o, dict):
        return "(JObj " + coq_dict(o) + ")"
    raise ValueError(f"not json: {type(o)}")


def cs(s: str) -> str:
    if any(ord(c) < 32 or ord(c) > 126 for c in s):
        raise ValueError("non printable-ASCII string")
    return '"' + s.replace('"', '""') + '"'


def coq_dict(d: dict) -> str:
    return "[" + "; ".join(f"({cs(k)}, {coq_jv(v)})" for k, v in d.items()) + "]"


def coq_tensor(t) -> str:
    shape = list(t.shape)
    data = t.detach().reshape(-1).tolist()
    return f"(mkT [{'; '.join(str(n) + '%nat' for n in shape)}] [{'; '.join(cq(x) for x in data)}])"


def coq_opt(x, f) -> str:
    return "None" if x is None else f"(Some {f(x)})"


def obs_lit(o) -> str:
    n = type(o).__name__
    if n == "FullGaussianObservationModel":
        return f"(Gauss {int(o.extra_vars['noise_std'].shape[0])})"
    return {"BernoulliObservationModel": "Bern", "WeibullRightCensoredObservationModel": "Weib",
            "WeibullRightCensoredWithSourcesObservationModel": "WeibSrc"}[n]


def coq_model(m) -> str:
    """The attributes of a real model object as a Coq `model` literal."""
    kind = KIND[type(m).__name__]
    sd = getattr(m, "source_dimension", None)
    mix = "(mkT [] [])"
    if isinstance(sd, int) and sd >= 1 and m._state is not None:
        mix = coq_tensor(m.state["mixing_matrix"])
    params = "[" + "; ".join(f"({cs(k)}, {coq_tensor(v)})" for k, v in m.parameters.items()) + "]"
    feats = coq_opt(m.features, lambda f: "[" + "; ".join(cs(x) for x in f) + "]")
    return (f"(mkM {kind} {cs(m.name)} {feats} {coq_opt(m._dimension, lambda z: f'({z})%Z')} "
            f"{coq_opt(sd, lambda z: f'({z})%Z')} [{'; '.join(obs_lit(o) for o in m.obs_models)}] "
            f"{coq_opt(getattr(m, 'n_clusters', None), lambda z: f'({z})%Z')} ({int(getattr(m, 'nb_events', 1))})%Z "
            f"{coq_jv(m.fit_metrics)} {params} {mix})")


def coq_result(kind: str, payload: str) -> str:
    return f"(Ok {payload})" if kind == "ok" else f"(Err {payload})"


# ----------------------------------------------------------------------------- building real models


def quiet():
    return contextlib.redirect_stdout(io.StringIO())


def build_model(spec: dict):
    """A real, state-initialised model for one configuration (initialise on a small cohort, optionally a short fit,
    optionally hand-written parameter values)."""
    from harness import synth
    from leaspy.models import model_factory
    from leaspy.models.obs_models import observation_model_factory
    from leaspy.io.data import Dataset
    import torch
    kind, nf = spec["kind"], spec["n_feat"]
    hp = {}
    if spec.get("dimension_given"):
        hp["dimension"] = nf
    if spec.get("source_dimension") is not None:
        hp["source_dimension"] = spec["source_dimension"]
    if spec.get("noise") is not None:
        if spec["noise"] == "gaussian-diagonal":
            hp["obs_models"] = observation_model_factory("gaussian-diagonal", dimension=nf)
        else:
            hp["obs_models"] = spec["noise"]
    if kind == "mixture_logistic":
        hp["n_clusters"] = spec.get("n_clusters", 2)
        hp["dimension"] = nf
        hp.pop("obs_models", None)
        if spec.get("noise") is not None:
            hp["obs_models"] = spec["noise"]
    joint = kind == "joint"
    df = synth.make_df(n_ind=spec.get("n_ind", 8), n_feat=nf, seed=spec.get("data_seed", 1), joint=joint,
                       kind="linear" if kind == "linear" else "logistic", binary=(spec.get("noise") == "bernoulli"))
    names = spec.get("features")
    if names:
        df = df.rename(columns={f"Y{i}": n for i, n in enumerate(names)})
    if spec.get("features_given"):
        hp["features"] = list(names) if names else [f"Y{i}" for i in range(nf)]
    with warnings.catch_warnings(), quiet():
        warnings.simplefilter("ignore")
        m = model_factory(kind, spec.get("name"), **hp)
        data = synth.make_data(df, kind)
        if spec.get("fit_iter"):
            with _RunRecorder() as rr:
                m.fit(data, "mcmc_saem", n_iter=spec["fit_iter"], seed=spec.get("fit_seed", 0), progress_bar=False)
            m._c12_sampling_state = rr.states[-1] if rr.states else None
        else:
            m.initialize(Dataset(data))
        if spec.get("hand_seed") is not None:
            # hand-written parameter values: float32 dyadic numbers of the declared shapes (positive where a std / probs)
            import random
            rng = random.Random(spec["hand_seed"])
            with m.state.auto_fork(None):
                for p in m.parameters_names:
                    shp = m.dag[p].shape
                    shp = (shp,) if isinstance(shp, int) else tuple(shp)
                    n = int(torch.Size(shp).numel())
                    if p == "probs":
                        vals = [1.0 / n] * n
                    elif p.endswith("_std") or p == "noise_std":
                        vals = [rng.randrange(1, 200) / 256.0 for _ in range(n)]
                    elif p == "tau_mean":
                        vals = [60 + rng.randrange(0, 4096) / 128.0 for _ in range(n)]
                    else:
                        vals = [rng.randrange(-512, 512) / 256.0 for _ in range(n)]
                    m.state[p] = torch.tensor(vals, dtype=torch.float32).view(shp)
                from leaspy.variables.specs import LatentVariableInitType
                m.state.put_population_latent_variables(LatentVariableInitType.PRIOR_MODE)
    return m, df


def real_to_dict(m):
    """to_dict followed by the json round trip (what a file holds)."""
    try:
        with warnings.catch_warnings():
            warnings.simplefilter("ignore")
            d = m.to_dict()
        return "ok", json.loads(json.dumps(d))
    except Exception as e:  # noqa
        return "err", type(e).__name__


def real_load(d):
    from leaspy.models import BaseModel
    try:
        with warnings.catch_warnings(), quiet():
            warnings.simplefilter("ignore")
            m = BaseModel.load(copy.deepcopy(d))
        return "ok", m
    except Exception as e:  # noqa
        if isinstance(e, ValueError) and "Can not reset the variable" in str(e):
            return "err", "unmodelled:duplicate-observation-variable"
        return "err", type(e).__name__


# ----------------------------------------------------------------------------- case generation

ODD_FEATURES = [["a b", "x_y-z", "Y 2%", "UPPER lower"], ["f(1)", "f[2]", "f{3}", "f'4"], ["__a__", "-", ".", "0"],
                ["memory", "Memory", "MEMORY", "memory "]]


def config_specs(run: Run, thorough: bool):
    """Configurations: every kind x features x sources x noise x naming, initialised (cheap), hand-written or briefly fitted."""
    rng = run.rng("configs")
    specs = []
    names_for = lambda kind: [None] * 9 + ["my-study", kind.upper(), "Study 1", "linear" if kind != "linear" else "logistic"]
    for kind in ["logistic", "linear", "shared_speed_logistic", "joint", "mixture_logistic"]:
        for nf in ([1, 2, 3, 4] if kind != "mixture_logistic" else [2, 3, 4]):
            sds = [None, 0] + list(range(1, nf))
            if kind == "mixture_logistic":
                sds = list(range(1, nf))
            for sd in sds:
                noises = [None, "gaussian-scalar", "gaussian-diagonal"]
                if kind == "logistic":
                    noises.append("bernoulli")
                if kind == "joint":
                    noises = [None, "gaussian-diagonal"]
                for noise in noises:
                    for dim_given in ([False, True] if kind != "mixture_logistic" else [True]):
                        if noise == "gaussian-diagonal" and not dim_given and kind != "joint":
                            pass
                        specs.append(dict(kind=kind, n_feat=nf, source_dimension=sd, noise=noise, dimension_given=dim_given))
    rng.shuffle(specs)
    n = 260 if thorough else 90
    # keep the mix of kinds: round-robin over kinds
    by_kind = {}
    for s in specs:
        by_kind.setdefault(s["kind"], []).append(s)
    out = []
    while len(out) < n and any(by_kind.values()):
        for k in list(by_kind):
            if by_kind[k] and len(out) < n:
                out.append(by_kind[k].pop())
    for i, s in enumerate(out):
        s["name"] = rng.choice(names_for(s["kind"])) or None
        s["data_seed"] = rng.randrange(1, 50)
        if rng.random() < 0.35 and s["n_feat"] <= 4:
            s["features"] = rng.choice(ODD_FEATURES)[: s["n_feat"]]
        s["features_given"] = s["kind"] != "mixture_logistic" and rng.random() < 0.2
        if s["kind"] == "mixture_logistic":
            s["n_clusters"] = rng.choice([2, 2, 3])
        r = rng.random()
        if r < (0.2 if not thorough else 0.3):
            s["fit_iter"] = rng.choice([2, 3, 5])
            s["fit_seed"] = rng.randrange(100)
        elif r < 0.7:
            s["hand_seed"] = rng.randrange(10 ** 6)
    directed = [
        dict(kind="logistic", n_feat=3, source_dimension=2, noise=None, dimension_given=False, name="my-study", hand_seed=1),
        dict(kind="linear", n_feat=2, source_dimension=1, noise=None, dimension_given=True, name="LINEAR"),
        dict(kind="logistic", n_feat=1, source_dimension=None, noise=None, dimension_given=False),
        dict(kind="logistic", n_feat=2, source_dimension=0, noise="gaussian-scalar", dimension_given=False, fit_iter=2, fit_seed=1),
        dict(kind="joint", n_feat=2, source_dimension=1, noise=None, dimension_given=False, fit_iter=2, fit_seed=2),
        dict(kind="mixture_logistic", n_feat=3, source_dimension=1, noise=None, dimension_given=True, n_clusters=2, fit_iter=2, fit_seed=3),
        dict(kind="logistic", n_feat=3, source_dimension=2, noise="gaussian-diagonal", dimension_given=True, fit_iter=3, fit_seed=4),
        dict(kind="shared_speed_logistic", n_feat=3, source_dimension=1, noise=None, dimension_given=True, fit_iter=3, fit_seed=5),
        # a JointModel whose instance name is another kind, no sources: with `features` and `dimension` dropped the file loads as a
        # LinearModel whose DAG is built without a dimension and load_parameters refuses the joint parameters (seed-2 mismatch)
        dict(kind="joint", n_feat=2, source_dimension=0, noise=None, dimension_given=False, name="linear", hand_seed=2),
        dict(kind="logistic", n_feat=2, source_dimension=0, noise="gaussian-scalar", dimension_given=False, hand_seed=3),
        dict(kind="linear", n_feat=3, source_dimension=0, noise="gaussian-scalar", dimension_given=True, name="logistic", hand_seed=4),
        dict(kind="shared_speed_logistic", n_feat=2, source_dimension=0, noise="gaussian-scalar", dimension_given=True, hand_seed=5),
        dict(kind="mixture_logistic", n_feat=3, source_dimension=1, noise="gaussian-scalar", dimension_given=True, n_clusters=2, hand_seed=6),
        dict(kind="joint", n_feat=3, source_dimension=1, noise=None, dimension_given=True, hand_seed=7),
        dict(kind="logistic", n_feat=1, source_dimension=0, noise=None, dimension_given=True, hand_seed=8),
    ]
    for sp in directed:
        sp["directed"] = True
    return directed + out


DIM_PARAMS = ("log_g_mean", "log_v0_mean", "g_mean", "betas_mean", "deltas_mean")


def _nodim(x):
    x.pop("features")
    x.pop("dimension")


def mutations(run: Run, d: dict, key, directed: bool = False):
    """Hand edits of a settings dictionary: which keys exist, their case, their values.  `directed`: additionally the
    combinations around an UNKNOWN dimension (both `features` and `dimension` dropped), whose outcome depends on how far
    load_parameters gets (DAG construction / unknown names / reshape to a (None,) shape / prior means missing)."""
    rng = run.rng("mut", key)
    out = []

    def mut(tag, f):
        dd = copy.deepcopy(d)
        try:
            f(dd)
        except Exception:
            return
        out.append((tag, dd))
    cands = [
        ("drop:features", lambda x: x.pop("features")),
        ("drop:dimension", lambda x: x.pop("dimension")),
        ("drop:source_dimension", lambda x: x.pop("source_dimension")),
        ("drop:obs_models", lambda x: x.pop("obs_models")),
        ("drop:fit_metrics", lambda x: x.pop("fit_metrics")),
        ("drop:hyperparameters", lambda x: x.pop("hyperparameters")),
        ("drop:leaspy_version", lambda x: x.pop("leaspy_version")),
        ("drop:name", lambda x: x.pop("name")),
        ("drop:parameters", lambda x: x.pop("parameters")),
        ("drop:n_clusters", lambda x: x.pop("n_clusters")),
        ("drop:nb_events", lambda x: x.pop("nb_events")),
        ("drop:features+dimension", lambda x: (x.pop("features"), x.pop("dimension"))),
        ("upper:key-features", lambda x: x.update({"Features": x.pop("features")})),
        ("upper:key-source_dimension", lambda x: x.update({"SOURCE_DIMENSION": x.pop("source_dimension")})),
        ("upper:name", lambda x: x.update(name=x["name"].upper())),
        ("name:unknown", lambda x: x.update(name="my-study")),
        ("name:other-kind", lambda x: x.update(name="linear" if x["name"] != "linear" else "logistic")),
        ("add:unknown-key", lambda x: x.update(foo=1)),
        ("add:instance_name", lambda x: x.update(instance_name="cohort A")),
        ("add:initialization_method", lambda x: x.update(initialization_method="random")),
        ("add:initialization_method-bad", lambda x: x.update(initialization_method="nope")),
        ("obs:string", lambda x: x.update(obs_models=x["obs_models"]["y"])),
        ("obs:underscore", lambda x: x.update(obs_models={"y": x["obs_models"]["y"].replace("-", "_").upper()})),
        ("obs:no-y", lambda x: x.update(obs_models={"event": "weibull-right-censored"})),
        ("obs:unknown", lambda x: x.update(obs_models={"y": "student"})),
        ("obs:scalar", lambda x: x.update(obs_models={"y": "gaussian-scalar"})),
        ("obs:diagonal", lambda x: x.update(obs_models={"y": "gaussian-diagonal"})),
        ("obs:null", lambda x: x.update(obs_models=None)),
        ("sdim:float", lambda x: x.update(source_dimension=float(x["source_dimension"]))),
        ("sdim:negative", lambda x: x.update(source_dimension=-1)),
        ("sdim:too-large", lambda x: x.update(source_dimension=x["dimension"])),
        ("sdim:null", lambda x: x.update(source_dimension=None)),
        ("sdim:zero", lambda x: x.update(source_dimension=0)),
        ("dim:mismatch", lambda x: x.update(dimension=x["dimension"] + 1)),
        ("dim:float", lambda x: x.update(dimension=float(x["dimension"]))),
        ("dim:null", lambda x: x.update(dimension=None)),
        ("features:null", lambda x: x.update(features=None)),
        ("features:shorter", lambda x: x.update(features=x["features"][:-1])),
        ("n_clusters:1", lambda x: x.update(n_clusters=1) if "n_clusters" in x else 1 / 0),
        ("n_clusters:other", lambda x: x.update(n_clusters=x["n_clusters"] + 1)),
        ("nb_events:2", lambda x: x.update(nb_events=2) if "nb_events" in x else 1 / 0),
        ("param:drop-one", lambda x: x["parameters"].pop(sorted(x["parameters"])[rng.randrange(len(x["parameters"]))])),
        ("param:drop-mixing", lambda x: x["parameters"].pop("mixing_matrix")),
        # the parameters a mixing matrix derives from are edited by hand, the (redundant, "overwritten at loading") stored matrix is not
        ("param:betas-edited-mixing-kept", lambda x: x["parameters"].update(
            betas_mean=[[round(v + 0.375 * (1 + i + j), 6) for j, v in enumerate(row)] for i, row in enumerate(x["parameters"]["betas_mean"])])
            if ("mixing_matrix" in x["parameters"] and x["parameters"].get("betas_mean")) else 1 / 0),
        ("param:unknown", lambda x: x["parameters"].update(foo=[1.0])),
        ("param:hyper-present", lambda x: x["parameters"].update(log_g_std=0.5) if "log_g_std" in x["hyperparameters"] else 1 / 0),
        ("param:wrong-numel", lambda x: x["parameters"].update(tau_mean=[70.0, 71.0, 72.0, 73.0, 74.0])),
        ("param:scalar-for-1", lambda x: x["parameters"].update(tau_std=5.5)),
        ("param:nested-for-1", lambda x: x["parameters"].update(xi_std=[[0.5]])),
        ("param:double", lambda x: x["parameters"].update(tau_std=[5.123456789012345])),
    ]
    k = 6
    for tag, f in rng.sample(cands, k):
        mut(tag, f)
    if directed:
        other = "linear" if d.get("name") != "linear" else "logistic"
        for tag, f in [
            ("drop:features+dimension", _nodim),
            ("nodim+name:other-kind", lambda x: (_nodim(x), x.update(name=other))),
            ("nodim+name:logistic", lambda x: (_nodim(x), x.update(name="logistic"))),
            ("nodim+param:unknown", lambda x: (_nodim(x), x["parameters"].update(foo=[1.0]))),
            ("nodim+param:mixing", lambda x: (_nodim(x), x["parameters"].update(mixing_matrix=[[0.5]]))),
            ("nodim+sdim:zero", lambda x: (_nodim(x), x.update(source_dimension=0))),
            ("nodim+sdim:zero+param:no-sources", lambda x: (_nodim(x), x.update(source_dimension=0),
                                                           [x["parameters"].pop(q, None) for q in ("betas_mean", "mixing_matrix", "sources_mean")])),
            ("nodim+param:drop-dim-params", lambda x: (_nodim(x), [x["parameters"].pop(q, None) for q in DIM_PARAMS + ("mixing_matrix",)])),
            ("nodim+param:wrong-numel", lambda x: (_nodim(x), x["parameters"].update(tau_mean=[70.0, 71.0, 72.0, 73.0, 74.0]))),
            ("nodim+param:wrong-numel-noise", lambda x: (_nodim(x), x["parameters"].update(noise_std=[0.1, 0.2, 0.3, 0.4, 0.5, 0.6, 0.7]))),
            ("nodim+param:hyper-present", lambda x: (_nodim(x), x["parameters"].update(log_v0_std=0.5))),
            ("nodim+obs:scalar", lambda x: (_nodim(x), x.update(obs_models={"y": "gaussian-scalar"}))),
            ("nodim+obs:scalar+sdim:zero", lambda x: (_nodim(x), x.update(obs_models={"y": "gaussian-scalar"}, source_dimension=0))),
            ("nodim+drop:source_dimension", lambda x: (_nodim(x), x.pop("source_dimension"))),
        ]:
            mut(tag, f)
    return out


def edge32_values() -> list:
    """Exact ties and boundaries of binary32 (every value is an exact float64): half-way points with an even and an odd
    significand below them, one float64 ulp on each side of a tie, the tie that renormalises (2^24 - 1/2 -> 2^24), 2^24 +- 1,
    subnormal ties (2^-150 -> 0, 3*2^-150 -> 2^-148, 5*2^-150 -> 2^-148), the largest subnormal, the smallest normal, the tie
    between them, powers of two over the whole range, the largest finite float32 (overflow is outside the model: never generated).
    Used twice: r32 against torch.tensor directly, and as parameter values of dictionaries given to the REAL BaseModel.load."""
    ties = [8388613.5, 8388614.5, 8388615.5, 16777215.5, 16777215.0, 16777216.0, 16777217.0, 16777218.0, 33554434.0, 33554438.0,
            1.0 + 2 ** -24 - 2 ** -52, 1.0 + 2 ** -24 + 2 ** -52, 1.0 + 3 * 2 ** -24 - 2 ** -52, 1.0 + 3 * 2 ** -24 + 2 ** -52,
            2.0 - 2 ** -25, 2.0 - 2 ** -24, 0.5 - 2 ** -27, 0.1 + 0.2, 2 / 3,
            2.0 ** -150, 3 * 2.0 ** -150, 5 * 2.0 ** -150, 2.0 ** -150 * (1 + 2 ** -52), 2.0 ** -150 * (1 - 2 ** -53), 2.0 ** -151,
            (2 ** 23 - 1) * 2.0 ** -149, 2.0 ** -126, (2 ** 24 - 1) * 2.0 ** -150, (2 ** 24 - 3) * 2.0 ** -150,
            (2 ** 24 + 1) * 2.0 ** -150, (2 ** 23 + 1) * 2.0 ** -149, 2.0 ** -126 * (1 + 2 ** -24), 2.0 ** -126 * (1 + 3 * 2 ** -24),
            (2 ** 24 - 1) * 2.0 ** 104, (2 ** 24 - 1) * 2.0 ** 104 * (1 + 2 ** -30), (2 ** 25 - 3) * 2.0 ** 103]
    ties += [2.0 ** k for k in (-149, -148, -127, -125, -100, -24, -23, -1, 1, 10, 23, 25, 64, 100, 127)]
    ties += [-t for t in ties[:16] + ties[19:29]]
    return ties


EDGE_PARAMS = ("tau_mean", "tau_std", "xi_std", "noise_std")   # parameters the mixing matrix does not depend on


def edge_edit(d: dict, offset: int):
    """The dictionary with every number of EDGE_PARAMS replaced by the next tie / boundary value (float64, NOT float32 values:
    the real load has to round them); returns (dictionary, number of values replaced)."""
    ties = edge32_values()
    dd = copy.deepcopy(d)
    n = [0]

    def repl(x):
        if isinstance(x, list):
            return [repl(y) for y in x]
        v = ties[(offset + n[0]) % len(ties)]
        n[0] += 1
        return v
    for p in EDGE_PARAMS:
        if p in dd.get("parameters", {}):
            dd["parameters"][p] = repl(dd["parameters"][p])
    return dd, n[0]

# ----------------------------------------------------------------------------- comparisons on the real code


def tensors_equal_bits(a, b) -> bool:
    import torch
    return a.dtype == b.dtype and tuple(a.shape) == tuple(b.shape) and bool(torch.equal(a, b))


def same_values(a, b) -> bool:
    """bit-equal, NaN positions included (data-dependent nodes such as predictions_event hold NaN for censored rows)"""
    import torch
    if tensors_equal_bits(a, b):
        return True
    if a.dtype != b.dtype or tuple(a.shape) != tuple(b.shape) or not a.is_floating_point():
        return False
    na, nb = torch.isnan(a), torch.isnan(b)
    return bool(torch.equal(na, nb) and torch.equal(a[~na], b[~nb]))


def trajectories(m, df):
    """estimate on an age grid for three hand-written individuals"""
    import numpy as np
    from leaspy.io.outputs import IndividualParameters
    sd = m.source_dimension or 0
    ip = IndividualParameters()
    for i, (xi, tau) in enumerate([(0.0, 70.0), (0.3, 65.5), (-0.4, 77.25)]):
        p = {"xi": xi, "tau": tau}
        if sd:
            p["sources"] = [0.1 * ((i + j) % 3 - 1) for j in range(sd)]
        ip.add_individual_parameters(f"i{i}", p)
    grid = [50.0, 60.0, 65.0, 70.0, 72.5, 75.0, 80.0, 90.0]
    with warnings.catch_warnings(), quiet():
        warnings.simplefilter("ignore")
        est = m.estimate({f"i{i}": grid for i in range(3)}, ip)
    return {k: np.asarray(v, dtype=float) for k, v in est.items()}


def classify_load_failure(spec_name, kind_name, d, exc_name):
    name = d.get("name")
    if isinstance(name, str) and name != kind_name:
        return "save-load:custom-instance-name"
    if d.get("dimension") == 1 and isinstance(d.get("source_dimension"), int) and d["source_dimension"] >= 1:
        return "save-load:univariate-default-source-dimension"
    return f"save-load:load-raises:{exc_name}"


def oracle_roundtrip(run: Run, m, df, spec, tmp: Path, idx: int):
    """save -> load -> save on the real code, with files."""
    import torch
    import numpy as np
    from leaspy.models import BaseModel
    kind_name = KIND_NAME[KIND[type(m).__name__]]
    p1, p2 = tmp / f"m{idx}.json", tmp / f"m{idx}_again.json"
    small = {k: v for k, v in spec.items()}
    try:
        with warnings.catch_warnings():
            warnings.simplefilter("ignore")
            m.save(str(p1))
    except Exception as e:  # noqa
        run.fail(f"save-load:save-raises:{type(e).__name__}", f"save raised {type(e).__name__}: {e}", small)
        return
    d1 = json.loads(p1.read_text())
    try:
        with warnings.catch_warnings(), quiet():
            warnings.simplefilter("ignore")
            m2 = BaseModel.load(str(p1))
    except Exception as e:  # noqa
        sig = classify_load_failure(spec.get("name"), kind_name, d1, type(e).__name__)
        run.fail(sig, f"load(save(model)) raised {type(e).__name__}: {str(e)[:160]}", small,
                 expected="the model back", observed=f"{type(e).__name__}: {str(e)[:200]}")
        run.count("roundtrip", "load-raises")
        return
    with warnings.catch_warnings():
        warnings.simplefilter("ignore")
        m2.save(str(p2))
    d2 = json.loads(p2.read_text())
    same_bytes = p1.read_bytes() == p2.read_bytes()
    run.count("roundtrip", "bytes-equal" if same_bytes else "bytes-differ")
    # --- hyper-parameters
    if type(m2) is not type(m):
        run.fail("save-load:custom-instance-name" if d1["name"] != kind_name else "save-load:kind-changed",
                 f"reloaded as {type(m2).__name__}", small, expected=type(m).__name__, observed=type(m2).__name__)
        return
    for attr in ("features", "dimension", "source_dimension", "n_clusters", "nb_events"):
        a, b = getattr(m, attr, None), getattr(m2, attr, None)
        if a != b:
            run.fail(f"save-load:hyperparameter-changed:{attr}", f"{attr} differs after reload", small, expected=a, observed=b)
    if m.name != m2.name:
        run.fail("save-load:custom-instance-name", "instance name differs after reload", small, expected=m.name, observed=m2.name)
    oa, ob = [(o.name, o.to_string()) for o in m.obs_models], [(o.name, o.to_string()) for o in m2.obs_models]
    if oa != ob:
        run.fail("save-load:hyperparameter-changed:obs_models", "observation models differ after reload", small, expected=oa, observed=ob)
    for h in m.hyperparameters_names:
        if h not in m2.hyperparameters_names or not tensors_equal_bits(m.state[h], m2.state[h]):
            run.fail(f"save-load:hyperparameter-changed:{h}", "hyper-parameter node differs after reload", small)
    # --- parameters
    pa, pb = m.parameters, m2.parameters
    if list(pa) != list(pb):
        run.fail("save-load:parameter-set-changed", "parameter names differ after reload", small, expected=list(pa), observed=list(pb))
    for k in pa:
        if k not in pb:
            continue
        a, b = pa[k], pb[k]
        if same_values(a, b):      # bit-equal, NaN positions included (a diverged fit leaves NaN parameters; json keeps them)
            continue
        if a.dtype == torch.float64 and b.dtype == torch.float32 and tuple(a.shape) == tuple(b.shape) and same_values(a.to(torch.float32), b):
            run.fail("save-load:float64-parameters", f"parameter {k} is float64 after the fit and float32 after reload "
                     "(equal to single precision; the re-saved file differs)", small,
                     expected=a.reshape(-1).tolist()[:3], observed=b.reshape(-1).tolist()[:3])
        elif tuple(a.shape) == () and tuple(b.shape) == (1,) and float(a.to(torch.float32)) == float(b[0]):
            run.fail("save-load:scalar-noise-shape" if k == "noise_std" else f"save-load:shape-changed:{k}",
                     f"parameter {k} has shape () in the fitted model and its declared shape (1,) after reload "
                     "(same value; the re-saved file differs)", small, expected=a.tolist(), observed=b.tolist())
            if a.dtype == torch.float64:
                run.fail("save-load:float64-parameters", f"parameter {k} is float64 after the fit and float32 after reload", small)
        else:
            run.fail(f"save-load:parameter-changed:{k}", f"parameter {k} differs after reload", small,
                     expected=(str(a.dtype), list(a.shape), a.reshape(-1).tolist()[:4]),
                     observed=(str(b.dtype), list(b.shape), b.reshape(-1).tolist()[:4]))
    # --- the file: every difference must be one of the differences already explained above
    if not same_bytes:
        explained = True
        for k in set(d1) | set(d2):
            if d1.get(k) == d2.get(k):
                continue
            if k == "name":
                continue
            if k == "parameters":
                for q in set(d1[k]) | set(d2[k]):
                    if d1[k].get(q) == d2[k].get(q):
                        continue
                    a = np.asarray(d1[k].get(q), dtype=float)
                    b = np.asarray(d2[k].get(q), dtype=float)
                    if a.size == b.size and np.array_equal(a.astype(np.float32).reshape(-1), b.astype(np.float32).reshape(-1), equal_nan=True):
                        continue  # float64 -> float32 or () -> (1,), reported above (mixing_matrix: derived from them)
                    if q == "mixing_matrix" and a.shape == b.shape and np.allclose(a, b, atol=1e-6, rtol=0, equal_nan=True):
                        continue
                    explained = False
                    run.fail(f"save-load:file-differs:parameters.{q}", "re-saved file differs", small,
                             expected=d1[k].get(q), observed=d2[k].get(q))
            else:
                explained = False
                run.fail(f"save-load:file-differs:{k}", "re-saved file differs", small, expected=d1.get(k), observed=d2.get(k))
    # third generation: after one round trip the file is a fixed point
    try:
        with warnings.catch_warnings(), quiet():
            warnings.simplefilter("ignore")
            m3 = BaseModel.load(str(p2))
            p3 = tmp / f"m{idx}_third.json"
            m3.save(str(p3))
        if p3.read_bytes() != p2.read_bytes():
            run.fail("save-load:not-a-fixed-point-after-one-round", "save(load(f)) != f for a file f written by a reloaded model", small)
    except Exception as e:  # noqa
        run.fail(f"save-load:second-load-raises:{type(e).__name__}", str(e)[:200], small)
    # --- mixing matrix in the file vs recomputed
    sd = m.source_dimension or 0
    if sd >= 1 and "mixing_matrix" in d1["parameters"]:
        a = np.asarray(d1["parameters"]["mixing_matrix"], dtype=float)
        b = m2.state["mixing_matrix"].detach().double().numpy()
        if a.shape != b.shape or not np.allclose(a, b, atol=1e-6, rtol=0, equal_nan=True):
            run.fail("self-consistency:mixing-matrix", "mixing_matrix written in the file differs from the one recomputed from the "
                     "saved parameters", small, expected=a.tolist(), observed=b.tolist())
    # --- trajectories
    try:
        ta, tb = trajectories(m, df), trajectories(m2, df)
        for k in ta:
            if ta[k].shape != tb[k].shape or not np.allclose(ta[k], tb[k], atol=1e-6, rtol=0, equal_nan=True):
                run.fail("save-load:trajectories-differ", "estimate() differs between the model and its reloaded copy", small,
                         expected=ta[k].reshape(-1)[:4].tolist(), observed=tb[k].reshape(-1)[:4].tolist())
                break
    except Exception as e:  # noqa
        run.fail(f"save-load:estimate-raises:{type(e).__name__}", str(e)[:200], small)


def oracle_self_consistent(run: Run, m, spec, when: str = "after the fit"):
    """after a fit: population variables are bit-for-bit the mode of their prior under the final parameters, and every
    derived value read from the model's state equals its from-scratch value in a fresh state."""
    import torch
    from leaspy.variables.specs import PopulationLatentVariable, LinkedVariable
    from leaspy.variables.state import State
    st = m.state
    small = dict(spec)
    for pp, var in st.dag.sorted_variables_by_type[PopulationLatentVariable].items():
        loc_name = var.prior.parameters_names[0]
        mode = var.prior.mode.call(st)
        loc = st[loc_name]
        if not (same_values(st[pp], mode) and same_values(st[pp], loc.expand(st[pp].shape).to(st[pp].dtype))):
            run.fail("self-consistency:population-not-at-prior-mode", f"{when} {pp} differs from the mode of its prior "
                     f"under the model's current parameters ({loc_name})", small,
                     expected=loc.reshape(-1).tolist()[:4], observed=st[pp].reshape(-1).tolist()[:4])
    # from-scratch: a new State on the same DAG with the same parameters and population values
    fresh = State(st.dag)
    with fresh.auto_fork(None):
        for p in list(m.parameters_names):
            fresh[p] = st[p]
        for pp in m.population_variables_names:
            fresh[pp] = st[pp]
    derived = [n for n, v in st.dag.items() if isinstance(v, LinkedVariable)]
    checked = 0
    for n in derived:
        try:
            b = fresh[n]
        except Exception:
            continue  # needs data / individual variables
        a = st[n]
        checked += 1
        av, bv = getattr(a, "value", a), getattr(b, "value", b)
        if not (av.shape == bv.shape and same_values(av, bv)):
            run.fail("self-consistency:stale-derived-value", f"{when}: {n} read from the model differs from its from-scratch value", small)
    run.count("self-consistency", "derived-values-compared", checked)


# ----------------------------------------------------------------------------- histories on ONE model object


def history_specs(run: Run, thorough: bool):
    """Every shipped kind x source dimension x noise model (3 features; thorough: also 2 and 4), each with several histories
    of load / load_parameters / fit on one model object."""
    rng = run.rng("histories")
    cfgs = []
    for kind in ["logistic", "linear", "shared_speed_logistic", "joint", "mixture_logistic"]:
        for nf in ([3] if not thorough else [2, 3, 4]):
            sds = [s for s in (0, 1, 2) if s < nf]
            if kind == "mixture_logistic":
                sds = [s for s in sds if s >= 1]
            noises = ["gaussian-scalar", "gaussian-diagonal"]
            if kind == "logistic":
                noises.append("bernoulli")
            if kind == "joint":
                noises = [None, "gaussian-diagonal"]
            if kind == "mixture_logistic":
                noises = [None, "gaussian-scalar", "gaussian-diagonal"]
            for sd in sds:
                for noise in noises:
                    cfgs.append(dict(kind=kind, n_feat=nf, source_dimension=sd, noise=noise, dimension_given=True,
                                     data_seed=rng.randrange(1, 50)))
    out = []
    for c in cfgs:
        a, b, d = (rng.randrange(10 ** 6) for _ in range(3))
        fit = ["fit", rng.choice([1, 2]), rng.randrange(100)]
        hs = [
            [["load", a], ["load_parameters", b]],                       # the model already holds (other) parameters
            [fit, ["save"], ["load_parameters", b]],                      # ... from a fit, and was saved in between
            [["load", a], ["load_parameters", a]],                       # same values twice
            [["load", a], ["save"], ["load_parameters", b], ["save"]],   # observers between and after
        ]
        extra = [
            [["load", a], ["load_parameters", b], ["save"], ["load_parameters", d]],
            [["load", a], ["load_parameters", b], fit],
            [fit, ["load_parameters", b], ["load_parameters", b]],
            [["load", a], ["save"], fit, ["save"], ["load_parameters", d]],
        ]
        hs += extra if thorough else [rng.choice(extra)]
        # an update that is REFUSED half-way (a late parameter cannot be reshaped): whatever the model holds afterwards, it must
        # still be self-consistent and survive save / load (on the shipped code a refused update leaves the model as it was)
        hs.append(rng.choice([[["load", a], ["load_parameters_rejected", b], ["save"]],
                              [fit, ["load_parameters_rejected", b]],
                              [["load", a], ["load_parameters", b], ["load_parameters_rejected", d]]]))
        for steps in hs:
            out.append(dict(spec=c, steps=steps))
    return out


class _RunRecorder:
    """Records the State returned by TensorMcmcSaemAlgorithm._run (the sampling state after the last iteration: it holds the
    FINAL parameters) while active; restores on exit."""

    def __enter__(self):
        from leaspy.algo.fit.mcmc_saem import TensorMcmcSaemAlgorithm as A
        self.A, self.orig, self.states = A, A._run, []
        rec, orig = self.states, self.orig

        def wrapped(algo, model, dataset, **kw):
            st = orig(algo, model, dataset, **kw)
            rec.append(st)
            return st
        A._run = wrapped
        return self

    def __exit__(self, *exc):
        self.A._run = self.orig
        return False


def oracle_final_parameters(run: Run, m, sampling_state, small):
    """after a fit: the parameters of the state installed in the model are the FINAL ones (those of the sampling state after
    the last iteration), bit-for-bit — second clause of C12_self_consistent."""
    if sampling_state is None:
        return
    n = 0
    for p in m.parameters_names:
        a, b = m.state[p], sampling_state[p]
        n += 1
        if not same_values(a, b):
            run.fail("self-consistency:fit:model-parameters-not-the-final-ones", f"after the fit the model's `{p}` is not the value "
                     "held by the sampling state after the last iteration (the model was derived from earlier parameters)", small,
                     expected=b.reshape(-1).tolist()[:4], observed=a.reshape(-1).tolist()[:4])
            break
    run.count("self-consistency", "final-parameters-compared", n)


class _SetRecorder:
    """Records the names assigned through State.__setitem__ (any State object) while active; restores on exit."""

    def __enter__(self):
        from leaspy.variables.state import State
        self.State, self.orig, self.names = State, State.__setitem__, []
        rec, orig = self.names, self.orig

        def wrapped(st, name, value):
            rec.append(name)
            return orig(st, name, value)
        State.__setitem__ = wrapped
        return self

    def __exit__(self, *exc):
        self.State.__setitem__ = self.orig
        return False


def _snapshot(m, tmp: Path, tag: str):
    """what an observer can read without data: parameters, population variables, derived values; and the saved file"""
    import torch
    from leaspy.variables.specs import LinkedVariable
    out = {}
    for n in list(m.parameters_names) + list(m.population_variables_names) + [k for k, v in m.dag.items() if isinstance(v, LinkedVariable)]:
        try:
            v = m.state[n]
        except Exception:
            continue
        out[n] = getattr(v, "value", v).detach().clone()
    p = tmp / f"{tag}.json"
    with warnings.catch_warnings():
        warnings.simplefilter("ignore")
        m.save(str(p))
    return out, p.read_bytes()


def oracle_history(run: Run, hist: dict, tmp: Path, idx: int, lp_cases: list | None = None, lp_meta: list | None = None):
    """One history on ONE model object, then: population variables == prior modes bit-for-bit, derived values == from-scratch,
    everything readable == a FRESH model loaded from the last parameters (<= 1e-6), save -> load -> save byte-identical with
    `parameters` / `mixing_matrix` in the file equal to the last / recomputed ones."""
    import numpy as np
    import torch
    from harness import synth
    from leaspy.models import BaseModel
    from leaspy.variables.specs import LinkedVariable, PopulationLatentVariable
    spec, steps = hist["spec"], hist["steps"]
    cache = {}

    def written(seed):
        """(file, dictionary) of a model of this configuration with hand-written parameter set `seed`"""
        if seed not in cache:
            mm, _ = build_model({**spec, "hand_seed": seed})
            k, d = real_to_dict(mm)
            if k != "ok":
                raise RuntimeError(f"to_dict raised {d}")
            f = tmp / f"h{idx}_p{seed}.json"
            f.write_text(json.dumps(d, indent=2))
            cache[seed] = (f, d)
        return cache[seed]

    def bad(what_sig, what, **kw):
        run.fail(f"self-consistency:history:{what_sig}", what, hist, **kw)

    m, df, last = None, None, None
    # everything the history needs that is NOT the property's business (synthetic cohort, initialisation of the models whose
    # parameters are loaded): a failure here (degenerate cohort: no event, zero spread) skips the history
    data = None
    try:
        with warnings.catch_warnings(), quiet():
            warnings.simplefilter("ignore")
            for st in steps:
                if st[0] in ("load", "load_parameters", "load_parameters_rejected"):
                    written(st[1])
            if any(st[0] == "fit" for st in steps[1:]):
                df = synth.make_df(n_ind=8, n_feat=spec["n_feat"], seed=spec.get("data_seed", 1), joint=spec["kind"] == "joint",
                                   kind="linear" if spec["kind"] == "linear" else "logistic", binary=(spec.get("noise") == "bernoulli"))
                data = synth.make_data(df, spec["kind"])
    except Exception as e:  # noqa
        run.count("history-skipped", f"not-buildable:{type(e).__name__}")
        return None
    try:
        for st in steps:
            op = st[0]
            with warnings.catch_warnings(), quiet():
                warnings.simplefilter("ignore")
                if op == "load":
                    f, _ = written(st[1])
                    m = BaseModel.load(str(f))
                    last = ("params", st[1])
                elif op == "save":
                    # an observer between two updates: to_dict / save / estimate read the state (and fill its cache)
                    m.save(str(tmp / f"h{idx}_obs{steps.index(st)}.json"))
                    m.to_dict()
                    trajectories(m, df)
                elif op == "fit":
                    # the property does not say that a fit succeeds: a fit that raises ends the history without a verdict
                    try:
                        if m is None:
                            m, df = build_model({**spec, "fit_iter": st[1], "fit_seed": st[2]})
                            sampling = getattr(m, "_c12_sampling_state", None)
                        else:
                            if data is None:
                                data = synth.make_data(df, spec["kind"])
                            with _RunRecorder() as rr:
                                m.fit(data, "mcmc_saem", n_iter=st[1], seed=st[2], progress_bar=False)
                            sampling = rr.states[-1] if rr.states else None
                    except Exception as e:  # noqa
                        run.count("history-skipped", f"fit-raises:{type(e).__name__}")
                        return None
                    oracle_final_parameters(run, m, sampling, hist)
                    last = ("fit",)
                elif op == "load_parameters":
                    _, d = written(st[1])
                    before = _snapshot(m, tmp, f"h{idx}_before") if last == ("params", st[1]) else None
                    pops = list(m.state.dag.sorted_variables_by_type[PopulationLatentVariable])
                    provided = [q for q in m.parameters_names if q in d["parameters"]]
                    with _SetRecorder() as rec:
                        m.load_parameters(copy.deepcopy(d["parameters"]))
                    if lp_cases is not None:
                        lp_cases.append(f"(({coq_list([cs(q) for q in provided])}, {coq_list([cs(q) for q in pops])}), "
                                        f"{coq_list([cs(q) for q in rec.names])})")
                        lp_meta.append(dict(hist, at_step=steps.index(st), provided=provided, population=pops, observed_sets=rec.names))
                    if before is not None:
                        after = _snapshot(m, tmp, f"h{idx}_after")
                        same = before[1] == after[1] and set(before[0]) == set(after[0]) and all(
                            same_values(before[0][k], after[0][k]) for k in before[0])
                        if not same:
                            diff = [k for k in before[0] if k not in after[0] or not same_values(before[0][k], after[0][k])]
                            bad("load_parameters-same-values-changes-the-model", "load_parameters with the values the model already "
                                "holds changed what it reads / saves", expected="identical reads and file", observed=diff[:6])
                    last = ("params", st[1])
                elif op == "load_parameters_rejected":
                    _, d = written(st[1])
                    ps = copy.deepcopy(d["parameters"])
                    late = [q for q in m.parameters_names if q in ps][-1]
                    flat = np.asarray(ps[late], dtype=float).reshape(-1).tolist()
                    ps[late] = flat + [flat[-1] if flat else 0.5, 0.25]       # two values too many for the declared shape
                    try:
                        m.load_parameters(ps)
                        run.count("history", "ill-shaped-update-accepted")
                        last = None
                    except Exception as e:  # noqa
                        run.count("history", f"ill-shaped-update-refused:{type(e).__name__}")
                        last = None if last is None or last[0] != "params" else ("unknown-after-refusal",)
                else:
                    raise ValueError(f"unknown step {op}")
            run.count("history-step", op)
    except Exception as e:  # noqa
        if isinstance(e, ValueError) and "Can not reset the variable" in str(e):
            run.count("skipped", "unmodelled:duplicate-observation-variable")
            return False
        bad(f"{op}-raises:{type(e).__name__}", f"history step `{op}` raised {type(e).__name__}: {str(e)[:200]}")
        return False
    n_before = len(run._fails) + len(run._known_hit)
    # (a) population variables == prior modes bit-for-bit; derived values == from-scratch values in a fresh State
    oracle_self_consistent(run, m, hist, when="after the history")
    # (b) against a FRESH model built from the last parameters
    if last and last[0] == "params":
        f, d = written(last[1])
        try:
            with warnings.catch_warnings(), quiet():
                warnings.simplefilter("ignore")
                fresh = BaseModel.load(str(f))
        except Exception as e:  # noqa
            bad(f"fresh-load-raises:{type(e).__name__}", f"BaseModel.load of a file written by to_dict raised {type(e).__name__}: {str(e)[:160]}")
            return False
        for k, v in fresh.parameters.items():
            if k not in m.parameters or not tensors_equal_bits(m.parameters[k], v):
                bad("parameters-not-the-last-ones", f"parameter {k} is not the value given to the last load_parameters",
                    expected=v.reshape(-1).tolist()[:4], observed=(m.parameters[k].reshape(-1).tolist()[:4] if k in m.parameters else None))
        names = list(fresh.population_variables_names) + [k for k, v in fresh.dag.items() if isinstance(v, LinkedVariable)]
        n_cmp = 0
        for n in names:
            try:
                b = fresh.state[n]
            except Exception:
                continue
            a = m.state[n]
            av, bv = getattr(a, "value", a).detach().double(), getattr(b, "value", b).detach().double()
            n_cmp += 1
            if av.shape != bv.shape or not torch.allclose(av, bv, atol=1e-6, rtol=0, equal_nan=True):
                bad("differs-from-fresh-model", f"`{n}` read from the model after the history differs from a fresh model loaded "
                    "from the same parameters (stale population variables / derived values)",
                    expected=bv.reshape(-1).tolist()[:4], observed=av.reshape(-1).tolist()[:4])
                break
        run.count("history", "values-compared-with-fresh-model", n_cmp)
        try:
            ta, tb = trajectories(m, df), trajectories(fresh, df)
            for k in ta:
                if ta[k].shape != tb[k].shape or not np.allclose(ta[k], tb[k], atol=1e-6, rtol=0, equal_nan=True):
                    bad("trajectories-differ-from-fresh-model", "estimate() after the history differs from a fresh model loaded from "
                        "the same parameters", expected=tb[k].reshape(-1)[:4].tolist(), observed=ta[k].reshape(-1)[:4].tolist())
                    break
        except Exception as e:  # noqa
            bad(f"estimate-raises:{type(e).__name__}", str(e)[:200])
        # the file the model writes: parameters are the last ones, mixing_matrix the recomputed one
        k, dm = real_to_dict(m)
        if k != "ok":
            bad(f"to_dict-raises:{dm}", "to_dict raised after the history")
        else:
            for q, v in d["parameters"].items():
                w = dm["parameters"].get(q)
                if q == "mixing_matrix":
                    ref = fresh.state["mixing_matrix"].detach().double().numpy()
                    if w is None or np.asarray(w).shape != ref.shape or not np.allclose(np.asarray(w, dtype=float), ref, atol=1e-6, rtol=0):
                        bad("saved-mixing-matrix-not-recomputed", "mixing_matrix written by to_dict after the history is not the one "
                            "derived from the parameters written beside it", expected=ref.tolist(), observed=w)
                elif w != v:
                    bad("saved-parameters-not-the-last-ones", f"`{q}` written by to_dict is not the value given to the last "
                        "load_parameters", expected=v, observed=w)
    # (c) save -> load -> save (bytes, bits, trajectories, mixing_matrix in the file vs recomputed by the reloaded model)
    oracle_roundtrip(run, m, df, hist, tmp, 10_000 + idx)
    return len(run._fails) + len(run._known_hit) == n_before


# ----------------------------------------------------------------------------- float32 <-> json


def float_roundtrip(run: Run, thorough: bool):
    """float32 -> python float (tolist) -> json text -> python float -> float32 is the identity: TESTED, not proved."""
    import torch
    n = 1_000_000 if thorough else 200_000
    rng = run.rng("float32")
    g = torch.Generator().manual_seed(rng.randrange(2 ** 31))
    bits = torch.randint(-2 ** 31, 2 ** 31, (n,), generator=g, dtype=torch.int64).to(torch.int32)
    edge = [0, 1, 2, 0x007FFFFF, 0x00800000, 0x00800001, 0x3F800000, 0x3F7FFFFF, 0x3F800001, 0x7F7FFFFF, 0x3C23D70A,
            -0x80000000, -0x7FFFFFFF, 0x7F800000, 0x00000100, 0x33800000, 0x4B000000, 0x4B7FFFFF]
    sub = torch.randint(1, 0x00800000, (n // 20,), generator=g, dtype=torch.int64).to(torch.int32)
    bits = torch.cat([bits, torch.tensor(edge, dtype=torch.int64).to(torch.int32), sub])
    x = bits.view(torch.float32)
    keep = ~torch.isnan(x)
    x, bits = x[keep], bits[keep]
    text = json.dumps({"v": x.tolist()}, indent=2)
    back = torch.tensor(json.loads(text)["v"])
    ok = back.dtype == torch.float32 and torch.equal(back.view(torch.int32), bits)
    n_sub = int(((x != 0) & (x.abs() < 1.1754943508222875e-38)).sum())
    run.extra["float32_json_roundtrip"] = dict(patterns=int(x.numel()), subnormals=n_sub, infinities=int(torch.isinf(x).sum()),
                                               identity=bool(ok))
    if not ok:
        bad = (back.view(torch.int32) != bits).nonzero().reshape(-1)[:3].tolist() if back.dtype == torch.float32 else []
        run.fail("save-load:float32-json-roundtrip", "float32 -> tolist -> json -> torch.tensor is not the identity",
                 dict(bit_patterns=[int(bits[i]) for i in bad], dtype=str(back.dtype)))
    return x


# ----------------------------------------------------------------------------- end-of-fit statements (structural translation)


def translate_load_parameters() -> list[str]:
    """The statements of StatefulModel.load_parameters (models/stateful.py) as a list of `lp_op` (Io/History.v).  Every
    statement must be one of the recognised forms; a guard `if not self._state.are_variables_set(self.population_variables_names)`
    around ONE recognised statement is translated (LpIfPopsUnset), anything else raises ValueError (fail closed)."""
    import ast
    tree = ast.parse((SRC / "models" / "stateful.py").read_text())
    cls = [n for n in tree.body if isinstance(n, ast.ClassDef) and n.name == "StatefulModel"]
    if len(cls) != 1:
        raise ValueError("class StatefulModel not found in models/stateful.py")
    fns = [n for n in cls[0].body if isinstance(n, ast.FunctionDef) and n.name == "load_parameters"]
    if len(fns) != 1:
        raise ValueError("StatefulModel.load_parameters not found")
    fn = fns[0]
    if [a.arg for a in fn.args.args] != ["self", "parameters"] or fn.decorator_list:
        raise ValueError("load_parameters: unexpected signature / decorators")

    def writes_state(node) -> bool:
        for n in ast.walk(node):
            if isinstance(n, (ast.Assign, ast.AugAssign, ast.AnnAssign, ast.Delete)):
                tg = n.targets if isinstance(n, (ast.Assign, ast.Delete)) else [n.target]
                if any("self._state" in ast.unparse(t) or ast.unparse(t).startswith("self.") for t in tg):
                    return True
            if isinstance(n, ast.Call) and ast.unparse(n.func).startswith(("self._state.", "self.state.")):
                return True
            if isinstance(n, ast.Call) and ast.unparse(n.func) in ("setattr", "self._initialize_state", "self.load_parameters"):
                return True
        return False

    def one(s):
        """op for one statement; None for a pure helper binding"""
        src = ast.unparse(s)
        if isinstance(s, ast.Expr) and isinstance(s.value, ast.Constant):
            return None
        if isinstance(s, ast.ImportFrom) and src == "from .utilities import val_to_tensor":
            return None
        if isinstance(s, ast.If) and not s.orelse and len(s.body) == 1:
            test, body = ast.unparse(s.test), ast.unparse(s.body[0])
            if test == "self._state is None" and body == "self._initialize_state()":
                return "LpInitState"
            if test == "len(missing_params)" and isinstance(s.body[0], ast.Expr) and body.startswith("warnings.warn("):
                return "LpWarnMissing"
            if test == "len(extra_vars)" and isinstance(s.body[0], ast.Raise) and body.startswith("raise LeaspyModelInputError("):
                return "LpRefuseUnknown"
            if test == "not self._state.are_variables_set(self.population_variables_names)":
                inner = one(s.body[0])
                if inner is None:
                    raise ValueError(f"load_parameters: guard around a helper statement: {src[:120]}")
                return f"(LpIfPopsUnset {inner})"
            raise ValueError(f"load_parameters: unexpected conditional: {src[:160]}")
        if isinstance(s, ast.Assign):
            if src in ("params_names = self.parameters_names", "missing_params = set(params_names).difference(parameters)",
                       "extra_vars = set(parameters).difference(self.dag)"):
                return None
            if src == ("provided_params = {p: val_to_tensor(parameters[p], self.dag[p].shape) for p in params_names "
                       "if p in parameters}"):
                return "LpReshape"
            raise ValueError(f"load_parameters: unexpected assignment: {src[:160]}")
        if isinstance(s, ast.For) and not s.orelse:
            head = (ast.unparse(s.target), ast.unparse(s.iter))
            if head == ("(p, val)", "provided_params.items()") and [ast.unparse(t) for t in s.body] == ["self._state[p] = val"]:
                return "LpAssignParams"
            if head == ("(parameter_name, parameter_value)", "parameters.items()"):
                if any(writes_state(t) for t in s.body):
                    raise ValueError("load_parameters: the comparison loop writes to the state")
                if "self._state[parameter_name]" not in ast.unparse(s):
                    raise ValueError("load_parameters: the comparison loop no longer reads self._state[parameter_name]")
                return "LpCompareDerived"
            raise ValueError(f"load_parameters: unexpected loop: {src[:160]}")
        if isinstance(s, ast.Expr):
            for meth, lit in (("PRIOR_MODE", "InitMode"), ("PRIOR_MEAN", "InitMean")):
                if src == f"self._state.put_population_latent_variables(LatentVariableInitType.{meth})":
                    return f"(LpPutPop {lit})"
        raise ValueError(f"load_parameters: unexpected statement: {src[:160]}")

    ops = [o for o in (one(s) for s in fn.body) if o is not None]
    if not ops:
        raise ValueError("load_parameters: empty body")
    return ops


def translate(run: Run) -> bool:
    """Regenerate coq/gen/GenC12.v: the statements of TensorMcmcSaemAlgorithm._run after the iteration loop, as a list of
    store operations, and the PRIOR_MODE routing of put_population_latent_variables / _get_init_func_generic.  Fail closed."""
    import ast
    try:
        ops = []
        tree = ast.parse((SRC / "algo" / "fit" / "mcmc_saem.py").read_text())
        fn = None
        for node in ast.walk(tree):
            if isinstance(node, ast.FunctionDef) and node.name == "_run":
                fn = node
        if fn is None:
            raise ValueError("_run not found")
        body = [s for s in fn.body if not (isinstance(s, ast.Expr) and isinstance(s.value, ast.Constant))]
        if not (isinstance(body[0], ast.With) and "_device_manager" in ast.unparse(body[0].items[0])):
            raise ValueError("first statement is not `with self._device_manager`")
        names = {}
        for s in body[1:]:
            src = ast.unparse(s)
            if isinstance(s, ast.Assign) and src == "model.fit_metrics = self._get_fit_metrics()":
                ops.append("OpMetrics")
            elif isinstance(s, ast.Assign) and isinstance(s.value, ast.Call) and ast.unparse(s.value) == "state.clone()":
                names["clone"] = ast.unparse(s.targets[0])
                ops.append("OpClone")
            elif isinstance(s, ast.With):
                ctx = ast.unparse(s.items[0].context_expr)
                if ctx != f"{names.get('clone')}.auto_fork(None)":
                    raise ValueError(f"unexpected context manager {ctx}")
                ops.append("OpNoFork")
                for t in s.body:
                    tsrc = ast.unparse(t)
                    if tsrc == f"{names['clone']}.put_population_latent_variables(LatentVariableInitType.PRIOR_MODE)":
                        ops.append("(OpPutPop InitMode)")
                    elif tsrc == f"{names['clone']}.put_population_latent_variables(LatentVariableInitType.PRIOR_MEAN)":
                        ops.append("(OpPutPop InitMean)")
                    elif isinstance(t, ast.Expr) and isinstance(t.value, ast.Constant):
                        continue
                    else:
                        raise ValueError(f"unexpected statement in the no-fork block: {tsrc}")
                ops.append("OpEndNoFork")
            elif isinstance(s, ast.Assign) and src == f"model.state = {names.get('clone')}":
                ops.append("OpInstallClone")
            elif isinstance(s, ast.Return) and src == "return state":
                ops.append("OpReturnSamplingState")
            else:
                raise ValueError(f"unexpected statement after the loop: {src}")
        # put_population_latent_variables: for every population variable, self[pp] = var.get_init_func(method).call(self)
        tree = ast.parse((SRC / "variables" / "state.py").read_text())
        fn = [n for n in ast.walk(tree) if isinstance(n, ast.FunctionDef) and n.name == "put_population_latent_variables"][0]
        loop = [s for s in fn.body if isinstance(s, ast.For)]
        if len(loop) != 1 or "sorted_variables_by_type[PopulationLatentVariable].items()" not in ast.unparse(loop[0].iter):
            raise ValueError("put_population_latent_variables no longer loops over the population latent variables")
        lsrc = ast.unparse(loop[0])
        if "self[pp] = var.get_init_func(method).call(self)" not in lsrc:
            raise ValueError("put_population_latent_variables no longer assigns get_init_func(method).call(self)")
        lbody = [ast.unparse(t) for t in loop[0].body if not isinstance(t, ast.AnnAssign)]
        if ast.unparse(loop[0].target) != "(pp, var)" or loop[0].orelse or lbody != [
                "if method is None:\n    self[pp] = None\nelse:\n    self[pp] = var.get_init_func(method).call(self)"]:
            raise ValueError("put_population_latent_variables: the loop body is no longer the unconditional assignment of every "
                             f"population variable: {lbody}")
        if [type(t).__name__ for t in fn.body if not (isinstance(t, ast.Expr) and isinstance(t.value, ast.Constant))] != ["For"]:
            raise ValueError("put_population_latent_variables: statements besides the loop")
        tree = ast.parse((SRC / "variables" / "specs.py").read_text())
        fn = [n for n in ast.walk(tree) if isinstance(n, ast.FunctionDef) and n.name == "_get_init_func_generic"][0]
        fsrc = ast.unparse(fn)
        route = {}
        for meth, attr in (("PRIOR_MODE", "mode"), ("PRIOR_MEAN", "mean")):
            for a2 in ("mode", "mean"):
                if f"if method is LatentVariableInitType.{meth}:\n        return self.prior.{a2}.then(expand_left, shape=sample_shape)" in fsrc:
                    route[meth] = a2
        if set(route) != {"PRIOR_MODE", "PRIOR_MEAN"}:
            raise ValueError("_get_init_func_generic: PRIOR_MODE / PRIOR_MEAN routing not recognised")
        cap = {"mode": "UseMode", "mean": "UseMean"}
        lp_ops = translate_load_parameters()
        text = ("(* REGENERATED on every run from $VERIF_REPO/src/leaspy by harness/props/c12.py — do not edit *)\n"
                "From Coq Require Import List. Import ListNotations.\nFrom Leaspy Require Import Io.EndOfFit.\n"
                f"Definition gen_end_of_fit : list fit_op := [{'; '.join(ops)}].\n"
                f"Definition gen_init_route (i : init_type) : prior_stat := match i with InitMode => {cap[route['PRIOR_MODE']]} "
                f"| InitMean => {cap[route['PRIOR_MEAN']]} end.\n"
                "From Leaspy Require Import Io.History.\n"
                f"Definition gen_load_parameters : list lp_op := [{'; '.join(lp_ops)}].\n")
        run.gen("GenC12", text)
        run.trusted.append("structural translator in harness/props/c12.py (python ast -> op list for the tail of "
                           "TensorMcmcSaemAlgorithm._run, StatefulModel.load_parameters, put_population_latent_variables, "
                           "_get_init_func_generic)")
        return True
    except (ValueError, IndexError, KeyError, OSError, SyntaxError) as e:
        run.broken("translate:GenC12", f"{type(e).__name__}: {e}", kind="broken-translation")
        return False


# ----------------------------------------------------------------------------- the check


def check(run: Run):
    from harness.common import use_impl
    use_impl()
    import torch
    import leaspy
    thorough = run.tier == "thorough"
    version = leaspy.__version__
    run.rule = ("configurations = kind x number of features (1-4) x source dimension (None, 0..d-1) x noise model x dimension/"
                "features given or not x instance name (default, custom, upper-case, another kind) x odd ASCII feature names; each "
                "model is initialised on a synthetic cohort, then left as is / given hand-written dyadic float32 parameters / "
                "fitted 2-5 iterations.  Each gives one save case (to_dict vs model), one load case and 6 hand edits of the "
                "dictionary (dropped / re-cased / wrong-typed keys, parameter edits).  Non-trivial = load case whose dictionary "
                "differs from a plain default-named save image, or a model with sources / non-default noise / custom name.")
    if SCRATCH.exists():
        shutil.rmtree(SCRATCH.parent, ignore_errors=True)
    tmp = SCRATCH / "files"
    tmp.mkdir(parents=True, exist_ok=True)
    try:
        _check(run, thorough, version, tmp)
    finally:
        shutil.rmtree(SCRATCH.parent, ignore_errors=True)


def _check(run: Run, thorough: bool, version: str, tmp: Path):
    import torch
    specs = config_specs(run, thorough)
    save_cases, save_meta, load_cases, load_meta = [], [], [], []
    edge_off = [0]
    for idx, spec in enumerate(specs):
        try:
            m, df = build_model(spec)
        except Exception as e:  # construction / initialisation problems are not this property's business
            run.count("build", f"not-buildable:{type(e).__name__}")
            continue
        run.count("build", "fitted" if spec.get("fit_iter") else ("hand-written" if spec.get("hand_seed") is not None else "initialised"))
        run.count("kind", spec["kind"])
        run.count("n_feat", spec["n_feat"])
        run.count("source_dimension", m.source_dimension)
        run.count("noise", "+".join(o.to_string() for o in m.obs_models))
        run.count("instance-name", "default" if m.name == KIND_NAME[KIND[type(m).__name__]] else "custom")
        # --- T2: to_dict
        kind_, payload = real_to_dict(m)
        try:
            lit = coq_model(m)
            obs = coq_result(kind_, coq_dict(payload) if kind_ == "ok" else ERR.get(payload, "Unmodelled"))
            save_cases.append(f"({lit}, {cs(version)}, {obs})")
            save_meta.append(spec)
        except (ValueError, KeyError) as e:
            run.count("skipped", f"save-literal:{e}")
        nontriv = bool((m.source_dimension or 0) >= 1 or spec.get("noise") or spec.get("name") or spec.get("features"))
        run.case(("save", json.dumps(spec, sort_keys=True)), nontrivial=nontriv)
        if kind_ != "ok":
            run.fail(f"save-load:to_dict-raises:{payload}", "to_dict raised on an initialised model", spec)
            continue
        # --- T2: load of the image and of hand edits
        edge_d, n_edge = edge_edit(payload, edge_off[0])
        edge_off[0] += n_edge
        edits = [("image", payload)] + mutations(run, payload, idx, directed=bool(spec.get("directed")))
        if n_edge:
            edits.append(("param:float32-edge", edge_d))
        for tag, d in edits:
            k2, r2 = real_load(d)
            if k2 == "err" and r2.startswith("unmodelled:"):
                # JointModel configured with two observation models named "y" (construction-time ValueError of the DAG):
                # outside the model, see docs/C12.md
                run.count("skipped", r2)
                continue
            try:
                if k2 == "ok":
                    if any(v.dtype != torch.float32 for v in r2.parameters.values()):
                        raise ValueError("non-float32 after load")
                    obs = coq_result("ok", coq_model(r2))
                else:
                    obs = coq_result("err", ERR[r2])
                load_cases.append(f"({coq_dict(d)}, {obs})")
                load_meta.append(dict(spec=spec, edit=tag, settings=d, observed=("ok" if k2 == "ok" else r2)))
                if k2 == "ok" and tag.startswith("param:") and tag != "param:float32-edge":
                    # a model loaded from a hand-edited file is self-consistent too: what it reads (mixing matrix, velocities, ...) is
                    # what a fresh state computes from the parameters it holds
                    run.count("self-consistency-after-edited-load", tag)
                    oracle_self_consistent(run, r2, dict(spec, edit=tag, settings=d), when=f"after loading a file with the hand edit {tag}")
                if tag == "param:float32-edge":
                    run.count("r32-edge", "through-BaseModel.load:" + ("ok" if k2 == "ok" else r2), n_edge)
                    if k2 == "ok":
                        # ... and what to_dict writes for the float32 ties / subnormals / 2^127 the reloaded model now holds
                        k3, p3 = real_to_dict(r2)
                        if k3 == "ok":
                            save_cases.append(f"({coq_model(r2)}, {cs(version)}, (Ok {coq_dict(p3)}))")
                            save_meta.append(dict(spec=spec, edit=tag, settings=d))
                            run.count("r32-edge", "through-to_dict", n_edge)
                run.count("load-outcome", "ok" if k2 == "ok" else r2)
                run.count("edit", tag.split(":")[0])
                run.case(("load", json.dumps(d, sort_keys=True)), nontrivial=(tag != "image" or nontriv))
            except (ValueError, KeyError) as e:
                run.count("skipped", f"load-literal:{type(e).__name__}:{str(e)[:40]}")
        # --- oracles on the real code
        oracle_roundtrip(run, m, df, spec, tmp, idx)
        if spec.get("fit_iter"):
            oracle_self_consistent(run, m, spec)
            oracle_final_parameters(run, m, getattr(m, "_c12_sampling_state", None), spec)
    n_edge_ok = run.distribution.get("r32-edge", {}).get("through-BaseModel.load:ok", 0)
    run.extra["r32_edge_values_through_real_load"] = n_edge_ok
    if specs and n_edge_ok < len(edge32_values()):
        # fail closed: the binary32 ties / boundaries must reach the real load (each at least once over the configurations)
        run.broken("tie:float32-edge-not-exercised", f"only {n_edge_ok} tie / boundary values went through BaseModel.load "
                   f"(expected at least {len(edge32_values())})", kind="broken-correspondence")
    if save_meta:
        run.sample(dict(kind="save-case", spec=save_meta[0]))
    if load_meta:
        for j in (1, len(load_meta) // 2):
            lm = load_meta[min(j, len(load_meta) - 1)]
            run.sample(dict(kind="load-case", edit=lm["edit"], observed=lm["observed"], spec=lm["spec"],
                            settings_keys=list(lm["settings"].keys())))
    hdr = ("From Coq Require Import ZArith QArith List String.\nFrom Leaspy Require Import Io.SaveLoad Io.SaveLoadExec.\n"
           "Import ListNotations.\nOpen Scope string_scope.\nOpen Scope list_scope.\n")
    bad = run.vm_bad_indices("save", hdr, "model * string * result dict", save_cases, "save_case_ok", shard=40)
    for i in bad or []:
        run.fail("tie:to_dict", "the model's save differs from the dictionary written by the real to_dict (keys, order or values)",
                 save_meta[i], kind="broken-correspondence")
    bad = run.vm_bad_indices("load", hdr, "dict * result model", load_cases, "load_case_ok", shard=60)
    for i in bad or []:
        lm = load_meta[i]
        run.fail(f"tie:load:{lm['edit']}", "the model's load differs from what BaseModel.load did with the same dictionary "
                 "(error class, routing of a key, or reshaped values)", dict(edit=lm["edit"], observed=lm["observed"], settings=lm["settings"]),
                 kind="broken-correspondence")
    run.extra["t2_save_cases"] = len(save_cases)
    run.extra["t2_load_cases"] = len(load_cases)

    # --- histories on ONE model object: load / load_parameters / fit sequences for every kind x sources x noise
    hists = history_specs(run, thorough)
    lp_cases, lp_meta, n_ok = [], [], 0
    for j, h in enumerate(hists):
        shape = "+".join(st[0] for st in h["steps"])
        run.count("history", shape)
        run.count("history-config", f"{h['spec']['kind']}/s{h['spec']['source_dimension']}/{h['spec']['noise']}")
        run.case(("history", json.dumps(h, sort_keys=True)), nontrivial=True)
        if oracle_history(run, h, tmp, j, lp_cases, lp_meta):   # None: skipped (cohort not usable), False: something failed
            n_ok += 1
    if hists:
        run.sample(dict(kind="history", **hists[0]))
        run.sample(dict(kind="history", **hists[len(hists) // 2]))
    run.extra["histories"] = dict(run=len(hists), clean=n_ok, load_parameters_traces=len(lp_cases))
    hdr2 = ("From Coq Require Import List String.\nFrom Leaspy Require Import Io.History Io.HistoryExec.\n"
            "Import ListNotations.\nOpen Scope string_scope.\nOpen Scope list_scope.\n")
    bad = run.vm_bad_indices("lptrace", hdr2, "(list string * list string) * list string", lp_cases, "lp_trace_ok", shard=80)
    for i in bad or []:
        run.fail("tie:load_parameters-trace", "the State assignments recorded during load_parameters are not those of the model's "
                 "script (provided parameters in order, then EVERY population variable)", lp_meta[i],
                 expected=lp_meta[i]["provided"] + lp_meta[i]["population"], observed=lp_meta[i]["observed_sets"],
                 kind="broken-correspondence")

    # --- float32 <-> json (tested library fact) and the concrete float32 rounding used by the executable model
    x = float_roundtrip(run, thorough)
    rng = run.rng("r32")
    r_cases = []
    vals = [rng.uniform(-100, 100) for _ in range(150)] + [rng.uniform(-1, 1) * 10 ** rng.randrange(-44, 38) for _ in range(150)]
    vals += [0.1, 1 / 3, 16777217.0, 16777219.0, 1e-45, 1.4e-45, 7e-46, 2.1e-45, 1.1754943e-38, 5e-324, 0.0, 1.0 + 2 ** -24,
             1.0 + 2 ** -24 + 2 ** -50, 1.0 + 3 * 2 ** -24]
    ties = edge32_values()
    for t in ties:
        assert math.isfinite(t) and math.isfinite(float(torch.tensor([t]).item())), t
        run.count("r32-edge", "tie-or-boundary")
    vals += ties
    for v in vals:
        f32 = float(torch.tensor([v]).item())     # torch.tensor(list of python floats) -> float32
        r_cases.append(f"({cq(v)}, {cq(f32)})")
        run.case(("r32", v), nontrivial=(f32 != v))
        # casting twice is casting once (hypothesis cast_idem_on of C12_idempotent_after_one): a float32 value is a fixed point
        r_cases.append(f"({cq(f32)}, {cq(f32)})")
        run.case(("r32-fixed-point", f32), nontrivial=(f32 != v))
    bad = run.vm_bad_indices("r32", hdr, "Q * Q", r_cases, "r32_case_ok")
    for i in bad or []:
        run.fail("tie:float32-rounding", "r32 (model of torch.tensor's float32 cast) differs from torch", dict(value=vals[i // 2], fixed_point_case=bool(i % 2)),
                 kind="broken-correspondence")
    # the other executable rounding (Io/F32.v: f32 / store32, about which C12_round_bin_* / C12_store32_* speak) on the same values
    hdr_f = hdr + "From Leaspy Require Import Io.R32.\n"
    bad = run.vm_bad_indices("f32", hdr_f, "Q * Q", r_cases, "f32_case_ok")
    for i in bad or []:
        run.fail("tie:float32-rounding-f32", "F32.f32 / F32.store32 (float32 store of the ingestion model) differ from torch or from r32",
                 dict(value=vals[i // 2], fixed_point_case=bool(i % 2)), kind="broken-correspondence")


def main(run: Run):
    ok_t = translate(run)
    run.prove("C12", OBLIGATIONS)
    run.assumptions += [
        "float32 -> tolist -> json.dump -> json.load -> torch.tensor is the identity on finite float32 values and infinities "
        "(library fact, tested on sampled bit patterns on every run, see float32_json_roundtrip)",
        "a read of the store after the end-of-fit / load_parameters script returns the from-scratch value (hypothesis fresh_reads of "
        "C12_self_consistent and C12_history_self_consistent; discharged for the State model of C01 in the _state / _reachable theorems)",
        "a fit is modelled as an arbitrary transformer of the model's State followed by the end-of-fit script; the iterations "
        "themselves are not part of this property",
        "every population latent variable has a Normal prior whose mode is its first parameter broadcast (checked on every fitted model)",
    ]
    run.trusted += [
        "json / repr round trip of python floats, torch.Tensor.tolist, torch.tensor, Tensor.view (exercised, not verified)",
        "harness conversion of model attributes and dictionaries to Coq literals (harness/props/c12.py: coq_model, coq_jv)",
    ]
    run.explanation = ("Theorems on the save/load model for all models, dictionaries and parameter values; the same definitions are "
                       "executed inside Coq on every dictionary the real to_dict wrote and on hand-edited dictionaries, and must "
                       "reproduce the real outcome exactly (ordered key list, values as exact rationals, loaded attributes, error "
                       "class).  The real code is additionally driven through save -> load -> save with files (bytes, bits, "
                       "trajectories) and, after fits, through the prior-mode / from-scratch comparison.  Histories: for every kind x "
                       "sources x noise, sequences of load / load_parameters / fit / save on ONE model object, then population "
                       "variables == prior modes bit-for-bit, every derived value and trajectory == a fresh model loaded from the last "
                       "parameters, re-save byte-identical; the assignments of every load_parameters call are compared inside Coq with "
                       "the model's script.")
    try:
        check(run)
    except Exception as e:  # noqa
        import traceback
        run.broken("check-crashed", traceback.format_exc()[-1500:])
    return run.finish()


def replay(run: Run, path: str):
    from harness.common import use_impl
    use_impl()
    d = json.load(open(path))
    inp = d.get("input") or {}
    if "settings" in inp:
        k, r = real_load(inp["settings"])
        print("load of the recorded settings:", k, r if k == "err" else type(r).__name__)
        print("recorded observation:", inp.get("observed"))
        return 0 if (k == "ok") == (inp.get("observed") == "ok") and (k == "ok" or r == inp.get("observed")) else 1
    if "steps" in inp:
        SCRATCH.mkdir(parents=True, exist_ok=True)
        tmp = SCRATCH / "replay"
        tmp.mkdir(parents=True, exist_ok=True)
        try:
            print("replaying on ONE model object:", " -> ".join(f"{st[0]}({', '.join(map(str, st[1:]))})" for st in inp["steps"]),
                  "| configuration:", inp["spec"])
            oracle_history(run, dict(spec=inp["spec"], steps=inp["steps"]), tmp, 0)
        finally:
            shutil.rmtree(SCRATCH.parent, ignore_errors=True)
        hits = [f for f in run._fails] + [dict(signature=s, what=w) for s, w in run._known_hit.items()]
        for f in hits:
            print("REPLAY", f["signature"], "-", f["what"], "| expected", f.get("expected"), "| observed", f.get("observed"))
        print("REPLAY", "FAILS" if hits else "passes")
        return 1 if hits else 0
    if "kind" not in inp:
        print("replay: this file records a broken obligation, re-running the check")
        return main(run)
    SCRATCH.mkdir(parents=True, exist_ok=True)
    tmp = SCRATCH / "replay"
    tmp.mkdir(parents=True, exist_ok=True)
    try:
        m, df = build_model(inp)
        oracle_roundtrip(run, m, df, inp, tmp, 0)
        if inp.get("fit_iter"):
            oracle_self_consistent(run, m, inp)
            oracle_final_parameters(run, m, getattr(m, "_c12_sampling_state", None), inp)
    finally:
        shutil.rmtree(SCRATCH.parent, ignore_errors=True)
    hits = [f for f in run._fails] + [dict(signature=s, what=w) for s, w in run._known_hit.items()]
    for f in hits:
        print("REPLAY", f["signature"], "-", f["what"])
    print("REPLAY", "FAILS" if hits else "passes")
    return 1 if hits else 0
