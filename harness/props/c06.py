"""C06 — missing and padded observations never influence any result."""
from __future__ import annotations

import json
import math

from harness.common import Run
from harness.props import c06_api as A
from harness.props import c06_pipeline as P

META = dict(
    technique="Coq theorems (all atoms incl. NaN/inf, all shapes, all sets of summed axes, all padding amounts, all trees of API "
              "operations) on a hand-written executable model of WeightedTensor / the observation layer; the model is run inside Coq "
              "(vm_compute) on the operation trees the real API just executed and compared exactly; metamorphic oracles on the real pipeline",
    level_text="Unbounded theorems: weighted sums / sums of weights ignore everything under a weight 0 (any axes, any fill value); padding "
               "with any content is invisible to every sum over the padded axis; agreement on observed positions is closed under every "
               "tree of binary (weight propagation/expansion, error on differing weights), unary, map, index_put, view, expand operations; "
               "per-individual attachment of any point-wise nll independent of masked y, masked model values and padding; counts = numbers of "
               "weight-1 cells; model tensor exactly 0 at weight-0 visits.  Scalar noise rule: REFUTED (finding F3, witness replayed on the "
               "code).  Diagonal noise rule: partial (ingredients), completed by the correspondence and the from-scratch oracle.",
    level_note="Trusted: Coq kernel (no axioms: every theorem is closed under the global context); the hand-written model is tied to the code "
               "by exact differential execution (not regenerated): torch kernels (broadcasting, sum, masked_fill, index_put, view/expand) are "
               "modelled and checked by that execution, not verified; atoms have no rounding/overflow/signed zero (the tie keeps inputs "
               "exactly representable); put_data_variables / model_with_sources / noise rules are mirrored by hand and exercised by the "
               "metamorphic oracles on real fits of every shipped kind.",
    design_ref="DESIGN.md section 4 C06",
)

OBLIGATIONS = [
    "C06_wsum_ignores_masked", "C06_wsum_dim_ignores_masked", "C06_sum_dim_ignores_masked", "C06_padding", "C06_padding_plain",
    "C06_observed_closed", "C06_attach", "C06_attach_padding", "C06_counts", "C06_counts_ignore_values",
    "C06_model_zero_on_padding", "C06_model_ignores_masked_times", "C06_noise_observed_only_partial", "C06_noise_scalar_refuted",
]

HDR = ("From Coq Require Import List NArith ZArith QArith Bool.\nFrom Leaspy Require Import Base.Atoms Masked.Weighted.\n"
       "Import ListNotations.\nLocal Close Scope Q_scope.\n")
F3 = "scalar-noise:model-sq-over-unobserved"


def api_tie(run: Run, n: int):
    """T2: random trees over the real WeightedTensor API, re-evaluated by the model inside Coq, exact comparison."""
    from harness.common import use_impl
    use_impl()
    import torch
    import leaspy.utils.weighted_tensor as wtmod
    cases, coq = [], []
    for i in range(n):
        c = A.make_case(run.rng("api", i), torch, wtmod)
        res = A.observe(c, torch, wtmod)
        ops = A.tree_ops(c["tree"], [])
        nontrivial = any(l.get("w") and 0 in l["w"]["data"] for l in c["env"]) or res[0] == "E"
        run.case(("api", json.dumps(A.jsonable(c), sort_keys=True)), nontrivial=nontrivial)
        for o in ops or ["leaf-only"]:
            run.count("api-op", o)
        run.count("api-query", c["query"][0])
        run.count("api-outcome", res[0] if res[0] != "E" else res[1])
        run.count("api-depth", len(ops))
        if res[0] == "X":
            run.fail("api:unexpected-exception", f"WeightedTensor API raised an exception class outside its contract: {res[1]}", A.jsonable(c))
            continue
        cases.append(c)
        coq.append(A.coq_case(c, res))
        if i in (3, 11):
            run.sample(dict(kind="api-case", case=A.jsonable(c), outcome=A.coq_outcome(res)[:300]))
    bad = run.vm_bad_indices("api", HDR, "list lit * expr * query * outcome", coq, "check_case")
    for b in bad or []:
        c = cases[b]
        q = c["query"][0]
        ops = A.tree_ops(c["tree"], [])
        run.fail(f"api-differs-from-model:{q}",
                 "the real WeightedTensor API and the Coq model disagree on this operation tree (the theorems are about the model)",
                 dict(scenario="api", case=A.jsonable(c)), expected="model outcome (run Leaspy.Masked.Weighted.run in Coq)",
                 observed=A.coq_outcome(A.observe(c, torch, wtmod))[:400])
    run.extra["api_cases"] = len(coq)
    return bad


def witness_on_code(run: Run):
    """Replay the Coq witness of C06_noise_scalar_refuted on the real update rule."""
    from harness.common import use_impl
    use_impl()
    import torch
    from leaspy.utils.weighted_tensor import WeightedTensor, wsum_dim
    from leaspy.models.obs_models import FullGaussianObservationModel as G
    y = WeightedTensor(torch.tensor([[[1.0, 0.0]], [[2.0, 3.0]]]), torch.tensor([[[True, False]], [[True, True]]]))
    out = {}
    for name, m in (("model_a", [[[1.0, 5.0]], [[2.0, 3.0]]]), ("model_b", [[[1.0, 0.0]], [[2.0, 3.0]]])):
        model = torch.tensor(m)
        y2 = y ** 2
        l2, n = wsum_dim(y2)
        state = {"y_L2": l2, "n_obs": n}
        try:
            v = G.scalar_noise_std_update(state=state, y_x_model=y * model, model_x_model=model ** 2)
            out[name] = float(v) ** 2
        except Exception as e:  # variance 0 -> convergence error for model_b is possible
            out[name] = f"{type(e).__name__}"
    run.case(("witness", "noise-scalar"))
    run.extra["witness_noise_scalar"] = out
    a = out["model_a"]
    if isinstance(a, float) and abs(a - 25.0 / 3.0) < 1e-4:
        run.fail(F3, "scalar_noise_std_update sums model^2 over entries of real visits where y is missing "
                     "(witness 2x1x2: variance 25/3 instead of 0 = residual mean square over observed entries)",
                 dict(scenario="witness", y=[[[1.0, None]], [[2.0, 3.0]]], model=[[[1.0, 5.0]], [[2.0, 3.0]]]), expected=0.0, observed=a)
    elif isinstance(a, float) and abs(a) < 1e-6:
        pass  # repaired upstream: the witness no longer reproduces
    else:
        run.fail("scalar-noise:witness-differs-from-model", f"witness evaluates to {a!r} on the code, 25/3 in the model", dict(scenario="witness"))


def main(run: Run):
    thorough = run.tier == "thorough"
    run.prove("C06", OBLIGATIONS)
    run.rule = ("(1) random trees (depth 0-3) over the real WeightedTensor API: constructors incl. refused ones, all arithmetic/comparison "
                "dunders incl. reflected ones, neg/abs/pow, map and the unary-operator factory with fill values, index_put, view/"
                "unsqueeze_right, expand, then one query among raw/filled/weighted_value/wsum/sum/sum_dim/wsum_dim with dim and but_dim "
                "(valid, negative, out of range, repeated, both); float64 entries from {-6..6, +-2^20, NaN, +-inf} kept exactly "
                "representable; bool or integer weights with ~40% zeros and whole zero slices (empty aggregates). Non-trivial = a leaf has a "
                "zero weight or the outcome is an error. (2) real fits of every shipped kind on a cohort with missing entries, whole features "
                "and whole visits missing: garbage {0, 7.5, 1e30, NaN, inf} under the mask and in padded slots (bit-identical), 1-5 extra "
                "padded visits (1e-6), one individual alone vs in the batch (1e-5), counts, noise update vs RMS over observed entries.")
    run.explanation = ("Theorems are about the executable model in coq/theories/Masked; the model is tied to the current source by running the same "
                       "operation trees through leaspy.utils.weighted_tensor and through the model inside Coq with exact comparison, and the "
                       "pipeline-level statements (put_data_variables, model tensor, attachment, noise rules) by metamorphic oracles on real runs.")
    run.assumptions += ["atoms have no rounding: the differential inputs are kept exactly representable in float64",
                        "torch kernels are modelled (broadcast, sum, masked_fill, index_put, view, expand), checked by execution only"]
    run.trusted.append("hand-written model coq/theories/Masked/{Weighted,Pipeline}.v tied by exact differential execution (harness/props/c06_api.py)")
    api_tie(run, 50000 if thorough else 3000)
    witness_on_code(run)
    try:
        P.put_data_tie(run, 400 if thorough else 60)
        P.run_oracle(run, thorough)
    except Exception as e:  # noqa: BLE001
        import traceback
        run.broken("oracle-crashed", f"{type(e).__name__}: {e}\n{traceback.format_exc()[-1500:]}", kind="broken-correspondence")
    return run.finish()


def replay(run: Run, path: str):
    from harness.common import use_impl
    use_impl()
    d = json.load(open(path))
    inp = d.get("input") or {}
    sc = inp.get("scenario") if isinstance(inp, dict) else None
    if sc == "api":
        import torch
        import leaspy.utils.weighted_tensor as wtmod
        c = A.case_from_json(inp["case"])
        res = A.observe(c, torch, wtmod)
        print("implementation:", A.coq_outcome(res) if res[0] != "X" else res)
        bad = run.vm_bad_indices("replay", HDR, "list lit * expr * query * outcome", [A.coq_case(c, res)], "check_case") if res[0] != "X" else [0]
        print("REPLAY", "FAILS (model disagrees)" if bad else "passes")
        return 1 if bad else 0
    if sc == "witness":
        witness_on_code(run)
        print(run.extra.get("witness_noise_scalar"))
        fails = bool(run._fails or run._known_hit)
        print("REPLAY", "FAILS" if fails else "passes")
        return 1 if fails else 0
    if sc in ("garbage", "padding", "alone", "noise"):
        cfg = (inp["kind"], inp["noise"], inp["source_dimension"], inp["n_feat"])
        fills = [float(inp["fill"])] if sc == "garbage" else []
        pads = [(inp["extra_pad"], None if inp["fill"] == "None" else float(inp["fill"]))] if sc == "padding" else []
        P.run_config(run, cfg, inp["seed"], fills, pads, personalize=str(inp.get("quantity", "")).startswith("personalize"), n_ind=inp["n_ind"])
        for f in run._fails:
            print("FAIL", f["signature"], f["what"])
        for s, w in run._known_hit.items():
            print("KNOWN", s, w)
        fails = bool(run._fails or run._known_hit)
        print("REPLAY", "FAILS" if fails else "passes")
        return 1 if fails else 0
    print("replay: this file records a broken obligation; re-running the check")
    return main(run)
