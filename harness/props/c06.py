"""C06 — missing and padded observations never influence any result."""
from __future__ import annotations

import json
import math

from harness.common import Run
from harness.props import c06_api as A
from harness.props import c06_pipeline as P
from harness.props import c06_saem as S
from harness.props import c06_src as SRC
from harness.translate import c06_weighted

META = dict(
    technique="Source-level tie (T1): a fail-closed python-ast translator regenerates 26 function bodies of the weighted-tensor layer, of "
              "compute_std_from_variance and of the two noise update rules as programs of a small language (coq/gen/GenC06.v); Coq proves for all "
              "inputs that each regenerated body computes the hand-written model function, and re-states C06 over the regenerated bodies.  "
              "Coq theorems (all atoms incl. NaN/inf, all shapes, all sets of summed axes, all padding amounts, all trees of API "
              "operations) on a hand-written executable model of WeightedTensor / the observation layer; the model is run inside Coq "
              "(vm_compute) on the operation trees the real API just executed and compared exactly; metamorphic oracles on the real pipeline",
    level_text="Every regenerated body = the model function, for all inputs (C06_src_apply_operation: the whole case table of the weights; "
               "C06_src_readings / _maps / _unary / _utils / _signatures / _noise_rules); C06 over the translated source "
               "(C06_src_tree_ignores_masked: for every tree of operations and every masked reading executed through the regenerated bodies, what sits "
               "under weight 0 never reaches the result); compute_std_from_variance refuses exactly when an entry is < tol and otherwise returns the "
               "square root of the same tensor, defined for every non-NaN entry (C06_src_std_guard, _std_sqrt_defined; a NaN variance passes the "
               "comparison: C06_src_std_nan_not_refused); the ADOPTED noise estimate / its refusal uses observed entries only, before and after "
               "burn-in (C06_noise_std_observed_only*), and is the translated rule body applied to the statistics (C06_noise_std_is_rule).  "
               "Unbounded theorems: weighted sums / sums of weights ignore everything under a weight 0 (any axes, any fill value); padding "
               "with any content is invisible to every sum over the padded axis; agreement on observed positions is closed under every "
               "tree of binary (weight propagation/expansion, error on differing weights), unary, map, index_put, view, expand operations; "
               "per-individual attachment of any point-wise nll independent of masked y, masked model values and padding; counts = numbers of "
               "weight-1 cells; model tensor exactly 0 at weight-0 visits; noise estimates use observed entries only: FULL theorem for BOTH update "
               "rules (scalar and per feature) — the updated variance is unchanged (or the rule fails identically) when y changes under the mask "
               "(any atoms, NaN/inf included) and the model tensor changes where y is not observed, or when visits of weight 0 with any content are "
               "appended; and AFTER BURN-IN too: the same statement for the rules applied to the statistics averaged by the stochastic-approximation "
               "blend v*(1-e) + e*new of the memory phase (on y_x_model a blend of two WeightedTensors, which keeps the weights of y), for every number "
               "of memory iterations and every coefficients (induction over the iterations).  (The former scalar rule summed model^2 without "
               "the mask — finding F3, repaired upstream by 3d244df; the check reports it as a violation with a 2x1x2 witness if it comes back.)",
    level_note="Trusted: Coq kernel (no axioms: every theorem is closed under the global context); the translator "
               "harness/translate/c06_weighted.py (prints the ast node for node, interprets nothing, fails closed) and the meaning given to the "
               "primitives in Masked/Source.v (torch kernels = the tensor operations of Weighted.v; a call of a sibling function = the hand-written "
               "function, whose own body is tied; acyclic call graph checked); clone is the identity, sqrt symbolic, **kws carries dim only.  The "
               "hand-written model is ALSO still tied to the code by exact differential execution: torch kernels (broadcasting, sum, masked_fill, index_put, view/expand) are "
               "modelled and checked by that execution, not verified; atoms have no rounding/overflow/signed zero (the tie keeps inputs "
               "exactly representable); the two noise update rules are mirrored by hand and tied on every run: the real statistics + update rule "
               "(wiring of with_noise_std_as_model_parameter, variance recorded at compute_std_from_variance) against noise_var_scalar / "
               "noise_var_diagonal inside Coq on small exact float64 inputs (equal up to the rounding of the final division, 2^-52 relative; "
               "non-finite entries identical); the memory phase the same way: the real TensorMcmcSaemAlgorithm._maximization_step driven on a real State "
               "over the real variables of the Gaussian observation model, the stored statistics (weights of y_x_model, its values where observed, "
               "model_x_model) and the variance after EACH step against Masked/Saem.v inside Coq (burn_in_step_power 1 and iterations "
               "n_burn_in_iter + 2^j: exact); the positivity check and the square root after the variance are now modelled (std_from_variance) and tied "
               "by T1 + two T2 stages (std-tie on directed variances, noise-std-tie on the outcome of the real update rules); "
               "put_data_variables weights tied the same way; model_with_sources mirrored by hand and exercised by the metamorphic "
               "oracles on real fits of every shipped kind.",
    design_ref="DESIGN.md section 4 C06",
)

OBLIGATIONS = [
    "C06_wsum_ignores_masked", "C06_wsum_dim_ignores_masked", "C06_sum_dim_ignores_masked", "C06_padding", "C06_padding_plain",
    "C06_observed_closed", "C06_attach", "C06_attach_padding", "C06_counts", "C06_counts_ignore_values",
    "C06_model_zero_on_padding", "C06_model_ignores_masked_times", "C06_noise_observed_only", "C06_noise_ingredients_observed_only", "C06_noise_padding",
    "C06_noise_observed_only_after_burn_in", "C06_saem_statistics_carry_weights", "C06_noise_saem_no_memory",
    # source-level tie (T1): the function bodies regenerated from the current source (coq/gen/GenC06.v)
    "C06_src_apply_operation", "C06_src_readings", "C06_src_maps", "C06_src_utils", "C06_src_signatures",
    "C06_src_tree_ignores_masked", "C06_src_observed_closed", "C06_src_std_guard", "C06_src_std_sqrt_defined",
    "C06_src_std_nan_not_refused", "C06_src_unary", "C06_noise_std_observed_only", "C06_noise_std_observed_only_after_burn_in",
    "C06_src_noise_rules", "C06_noise_std_is_rule", "C06_noise_std_saem_is_rule",
]


def translate(run: Run) -> bool:
    """T1: regenerate coq/gen/GenC06.v (every function body of the weighted-tensor layer + compute_std_from_variance as a
    source-level program) from $VERIF_REPO; fail closed."""
    try:
        ok = c06_weighted.translate(run)
    except Exception as e:  # noqa - an AST shape the translator has never met must not stop the search for a failing input
        import traceback
        run.broken("translate:GenC06", f"translator crashed: {type(e).__name__}: {e}\n{traceback.format_exc()[-800:]}", kind="broken-translation")
        ok = False
    if not ok:
        # never leave the programs of an earlier run behind: the proofs must not be checked against a stale translation
        run.gen("GenC06", "(* the translation of this run FAILED (harness/translate/c06_weighted.py): no program *)\n")
    return ok


HDR = ("From Coq Require Import List NArith ZArith QArith Bool.\nFrom Leaspy Require Import Base.Atoms Masked.Weighted.\n"
       "Import ListNotations.\nLocal Close Scope Q_scope.\n")
F3 = P.F3


def api_tie(run: Run, n: int):
    """T2: random trees over the real WeightedTensor API, re-evaluated by the model inside Coq, exact comparison."""
    from harness.common import use_impl
    use_impl()
    import torch
    import leaspy.utils.weighted_tensor as wtmod
    cases, coq = [], []
    for i in range(n):
        c = A.make_case(run.rng("api", i), torch, wtmod)
        res = A.observe(c, torch, wtmod)
        ops = A.tree_ops(c["tree"], [])
        nontrivial = any(l.get("w") and 0 in l["w"]["data"] for l in c["env"]) or res[0] == "E"
        run.case(("api", json.dumps(A.jsonable(c), sort_keys=True)), nontrivial=nontrivial)
        for o in ops or ["leaf-only"]:
            run.count("api-op", o)
        run.count("api-query", c["query"][0])
        run.count("api-outcome", res[0] if res[0] != "E" else res[1])
        run.count("api-depth", len(ops))
        if res[0] == "X":
            run.fail("api:unexpected-exception", f"WeightedTensor API raised an exception class outside its contract: {res[1]}", A.jsonable(c))
            continue
        cases.append(c)
        coq.append(A.coq_case(c, res))
        if i in (3, 11):
            run.sample(dict(kind="api-case", case=A.jsonable(c), outcome=A.coq_outcome(res)[:300]))
    bad = run.vm_bad_indices("api", HDR, "list lit * expr * query * outcome", coq, "check_case")
    for b in bad or []:
        c = cases[b]
        q = c["query"][0]
        ops = A.tree_ops(c["tree"], [])
        run.fail(f"api-differs-from-model:{q}",
                 "the real WeightedTensor API and the Coq model disagree on this operation tree (the theorems are about the model)",
                 dict(scenario="api", case=A.jsonable(c)), expected="model outcome (run Leaspy.Masked.Weighted.run in Coq)",
                 observed=A.coq_outcome(A.observe(c, torch, wtmod))[:400])
    run.extra["api_cases"] = len(coq)
    return bad


def main(run: Run):
    thorough = run.tier == "thorough"
    translate(run)
    run.prove("C06", OBLIGATIONS)
    run.log(f"translated and proved {len(run.discharged)}/{len(OBLIGATIONS)} obligations")
    run.rule = ("(1) random trees (depth 0-3) over the real WeightedTensor API: constructors incl. refused ones, all arithmetic/comparison "
                "dunders incl. reflected ones, neg/abs/pow, map and the unary-operator factory with fill values, index_put, view/"
                "unsqueeze_right, expand, then one query among raw/filled/weighted_value/wsum/sum/sum_dim/wsum_dim with dim and but_dim "
                "(valid, negative, out of range, repeated, both); float64 entries from {-6..6, +-2^20, NaN, +-inf} kept exactly "
                "representable; bool or integer weights with ~40% zeros and whole zero slices (empty aggregates). Non-trivial = a leaf has a "
                "zero weight or the outcome is an error. (2) real fits of every shipped kind on a cohort with missing entries, whole features "
                "and whole visits missing: garbage {0, 7.5, 1e30, NaN, inf} under the mask and in padded slots (bit-identical), 1-5 extra "
                "padded visits (1e-6), one individual alone vs in the batch (1e-5), counts, noise update vs RMS over observed entries. "
                "(3) noise rules: the F3 witness + random y (1-3 individuals x 1-3 visits x 1-3 features, half-integers in [-3, 3], 15-70% missing, "
                "{0, 7.5, -2, 1e30, NaN, +-inf} under the mask) and model tensors (half-integers; garbage incl. NaN/inf where y is missing) through "
                "the real scalar / diagonal update rule and through the Coq model. Non-trivial = the model tensor is not 0 at some missing entry. "
                "(4) memory phase: the same kind of y with a memory-less step followed by 1-4 steps with memory (iterations n_burn_in_iter + 2^j, "
                "burn_in_step_power 1, one model tensor per step, garbage incl. NaN/inf where y is missing) through the real _maximization_step on a real "
                "State and through Masked/Saem.v; non-trivial = a model tensor of a memory step is not 0 at some missing entry. (5) real fits of every "
                "shipped kind x scalar/diagonal noise, n_iter 10 with n_burn_in_iter 3, cohort with partially observed visits: noise_std^2 recomputed "
                "from scratch (explicit dataset mask) at every iteration; the same fits with {NaN, 1e30} under the mask bit-identical "
                "(non-trivial = an iteration with memory on a cohort with missing entries on observed visits). (6) compute_std_from_variance on "
                "float32 / float64 tensors of 1-5 entries from {regular, tiny, huge, +-inf, NaN, 0, negative, exactly tol, one ulp around tol} with tol in "
                "{default, 1e-5, 0.5, 0, 1e-8, -1, 2}; non-trivial = refused or an entry small / negative. (7) the outcome (adopted std / refusal) of the "
                "real noise update rules on the inputs of (3), a quarter of them fitted exactly (variance 0); non-trivial = a missing entry.")
    run.explanation = ("Theorems are about the executable model in coq/theories/Masked; the model is tied to the current source by running the same "
                       "operation trees through leaspy.utils.weighted_tensor and through the model inside Coq with exact comparison, and the "
                       "pipeline-level statements by the same kind of differential execution (put_data_variables weights, the two noise update rules) and "
                       "by metamorphic oracles on real runs (model tensor, attachment, statistics, parameters, personalisation).")
    run.assumptions += ["atoms have no rounding: the differential inputs are kept exactly representable in float64 (noise rules: every operation but the "
                        "final division by the count is exact on the generated inputs; that division is compared up to 2^-52 relative, inside Coq)",
                        "torch kernels are modelled (broadcast, sum, masked_fill, index_put, view, expand), checked by execution only"]
    run.trusted.append("translator harness/translate/c06_weighted.py (python ast -> coq/gen/GenC06.v, fail closed) and the primitive semantics of "
                       "coq/theories/Masked/Source.v")
    run.trusted.append("hand-written model coq/theories/Masked/{Weighted,Pipeline}.v tied by exact differential execution (harness/props/c06_api.py; noise rules and put_data_variables: harness/props/c06_pipeline.py; memory phase Masked/Saem.v: harness/props/c06_saem.py)")
    api_tie(run, 50000 if thorough else 3000)
    run.log("api tie done")
    # each stage on its own: a tie that no longer runs must not stop the search for a failing input on the real pipeline
    for stage, fn in (("std-tie", lambda: SRC.std_tie(run, 6000 if thorough else 600)),
                      ("noise-std-tie", lambda: SRC.noise_std_tie(run, 2000 if thorough else 200)),
                      ("noise-tie", lambda: P.noise_tie(run, 4000 if thorough else 400)),
                      ("saem-tie", lambda: S.saem_tie(run, 3000 if thorough else 300)),
                      ("put-data-tie", lambda: P.put_data_tie(run, 400 if thorough else 60)),
                      ("saem-oracle", lambda: S.saem_oracle(run, thorough)),
                      ("pipeline-oracle", lambda: P.run_oracle(run, thorough))):
        try:
            fn()
            run.log(f"{stage} done")
        except Exception as e:  # noqa: BLE001
            import traceback
            run.broken(f"oracle-crashed:{stage}", f"{type(e).__name__}: {e}\n{traceback.format_exc()[-1500:]}", kind="broken-correspondence")
    return run.finish()


def replay(run: Run, path: str):
    from harness.common import use_impl
    use_impl()
    d = json.load(open(path))
    inp = d.get("input") or {}
    sc = inp.get("scenario") if isinstance(inp, dict) else None
    if sc == "api":
        import torch
        import leaspy.utils.weighted_tensor as wtmod
        c = A.case_from_json(inp["case"])
        res = A.observe(c, torch, wtmod)
        print("implementation:", A.coq_outcome(res) if res[0] != "X" else res)
        bad = run.vm_bad_indices("replay", HDR, "list lit * expr * query * outcome", [A.coq_case(c, res)], "check_case") if res[0] != "X" else [0]
        print("REPLAY", "FAILS (model disagrees)" if bad else "passes")
        return 1 if bad else 0
    if sc == "std":
        SRC.std_tie(run, 0, only=[inp["case"]])
        for f in run._fails:
            print("FAIL", f["signature"], f["what"], "observed:", f.get("observed"))
        fails = bool(run._fails or run._known_hit or run._broken)
        print("REPLAY", "FAILS" if fails else "passes")
        return 1 if fails else 0
    if sc == "noise-std-tie":
        SRC.noise_std_tie(run, 0, only=[inp])
        for f in run._fails:
            print("FAIL", f["signature"], f["what"], "observed:", f.get("observed"))
        fails = bool(run._fails or run._known_hit or run._broken)
        print("REPLAY", "FAILS" if fails else "passes")
        return 1 if fails else 0
    if sc in ("witness", "noise-tie"):
        v, m, mod = P.noise_case_tensors(inp)
        for diagonal in ([inp["rule"] == "diagonal"] if "rule" in inp else [False, True]):
            res = P.noise_on_code(v, m, mod, diagonal)
            print("implementation,", "diagonal" if diagonal else "scalar", "rule: variance =", res[1].tolist() if res[0] == "V" else res)
        P.noise_tie(run, 0, only=[inp])
        for f in run._fails:
            print("FAIL", f["signature"], f["what"])
        for s, w in run._known_hit.items():
            print("KNOWN", s, w)
        fails = bool(run._fails or run._known_hit or run._broken)
        print("REPLAY", "FAILS (the code does not compute the model's variance)" if fails else "passes")
        return 1 if fails else 0
    if sc in ("saem-tie", "saem-witness"):
        values, mask, models, its = S._case_tensors(inp)
        for diagonal in ([inp["rule"] == "diagonal"] if "rule" in inp else [False, True]):
            res = S.TinyFit(diagonal, values.shape[-1]).run(values, mask, models, its)
            if res[0] == "S":
                for it, st in zip(its, res[1]):
                    print(f"implementation, {'diagonal' if diagonal else 'scalar'} rule, iteration {it}: y_x_model "
                          f"{'carries weights' if st['weight'] is not None else 'HAS NO WEIGHTS'}, variance = {st['var'].tolist()}")
            else:
                print("implementation:", res)
        S.saem_tie(run, 0, only=[inp])
        for f in run._fails:
            print("FAIL", f["signature"], f["what"])
        fails = bool(run._fails or run._known_hit or run._broken)
        print("REPLAY", "FAILS (the real _maximization_step does not leave the model's statistics / variance)" if fails else "passes")
        return 1 if fails else 0
    if sc in ("saem-noise", "saem-garbage"):
        cfg = (inp["kind"], inp["noise"], inp["source_dimension"], inp["n_feat"])
        S.run_saem_config(run, cfg, inp["seed"], [float(inp["fill"])] if sc == "saem-garbage" else [], n_iter=inp["n_iter"],
                          n_burn_in=inp["n_burn_in_iter"], n_ind=inp["n_ind"])
        for f in run._fails:
            print("FAIL", f["signature"], f["what"])
        for s_, w in run._known_hit.items():
            print("KNOWN", s_, w)
        fails = bool(run._fails or run._known_hit)
        print("REPLAY", "FAILS" if fails else "passes")
        return 1 if fails else 0
    if sc in ("garbage", "padding", "alone", "noise"):
        cfg = (inp["kind"], inp["noise"], inp["source_dimension"], inp["n_feat"])
        fills = [float(inp["fill"])] if sc == "garbage" else []
        pads = [(inp["extra_pad"], None if inp["fill"] == "None" else float(inp["fill"]))] if sc == "padding" else []
        P.run_config(run, cfg, inp["seed"], fills, pads, personalize=str(inp.get("quantity", "")).startswith("personalize"), n_ind=inp["n_ind"])
        for f in run._fails:
            print("FAIL", f["signature"], f["what"])
        for s, w in run._known_hit.items():
            print("KNOWN", s, w)
        fails = bool(run._fails or run._known_hit)
        print("REPLAY", "FAILS" if fails else "passes")
        return 1 if fails else 0
    print("replay: this file records a broken obligation; re-running the check")
    return main(run)
