"""C16 — individual-parameter containers convert losslessly."""
from __future__ import annotations

import copy
import json
import os
import shutil
import tempfile
from fractions import Fraction

from harness.common import Run, frac

META = dict(
    technique="Coq theorems (induction over the list of individuals / parameters / columns) on an executable list-codec model of "
              "IndividualParameters written line by line from the source; the model is run inside Coq (vm_compute, exact rationals and "
              "strings) on the same containers, tables, tensors and paths as the implementation on every run and compared exactly; "
              "source-level tie: the decisions of the model (ordered checks of add_individual_parameters with their exception classes, accepted "
              "scalar types and kind of type test, column-label and label-cut rules, what each conversion iterates, attributes filled by the "
              "readers) are regenerated from the python ast into coq/gen/GenC16.v, run by an interpreter over named steps and proved equal to "
              "the hand-written model; the C16 theorems are restated over the regenerated tables",
    level_text="Unbounded theorems on the model: additions with a non-string / duplicate ID, a non-dict, an unsupported scalar or "
               "first-element type, an empty list or a shape dict different from the first entry's are rejected and leave the container "
               "unchanged, well-formed additions are appended; json round trip exact for every shape; tensor round trip keeps IDs, order, "
               "names, sizes, values through the rounding function, () -> (1,); table and csv round trips for names without '_' and vector "
               "shapes. The full statement is refuted in the faithful model (scalar parameter -> IndexError, '_' in a name -> merged "
               "parameters, list tail unchecked, numpy scalar -> json TypeError, NA-like ID through csv, empty container) and each witness "
               "is replayed on the code as a known finding.",
    level_note="Trusted: Coq kernel; the hand-written model (tied by exact vm_compute comparison on generated inputs; its decisions are also "
               "regenerated from the source and proved to be the model's (T1), the loop bodies inside the translator's templates and the python "
               "meaning of one step - bool derives from int, x in list, d[k] = v - are written by hand); the harness encoders (python object -> Coq literal, float -> exact rational); pandas/json/torch as libraries "
               "(csv quoting, dtype unification, float text round trip are observed, not modelled; values are dyadic so float32 and the csv "
               "text are exact); rounding to float32 is an abstract function in the theorems and the identity on the tested values.",
    design_ref="DESIGN.md section 4 C16",
)

OBLIGATIONS = [
    "C16_add_rejects_partial", "C16_add_accepts", "C16_add_tail_refuted", "C16_wf_reachable",
    "C16_json_roundtrip", "C16_json_numpy_refuted",
    "C16_torch_roundtrip", "C16_names_kept",
    "C16_table_roundtrip_partial", "C16_scalar_refuted", "C16_underscore_refuted",
    "C16_csv_roundtrip_partial", "C16_csv_na_id_refuted",
    "C16_empty_refuted", "C16_save_load_extension",
    # source level (T1): the same statements over the tables regenerated from individual_parameters.py (coq/gen/GenC16.v)
    "C16_src_add_is_model", "C16_src_add_all_is_model", "C16_src_add_rejects_partial", "C16_src_bool_rejected", "C16_src_add_accepts",
    "C16_src_conversions_are_model", "C16_src_torch_roundtrip", "C16_src_table_roundtrip_partial", "C16_src_csv_roundtrip_partial",
    "C16_src_scalar_refuted", "C16_src_underscore_refuted", "C16_src_json_roundtrip", "C16_src_load_fills",
]


def translate(run: Run) -> bool:
    """T1: regenerate coq/gen/GenC16.v (order of the checks of add_individual_parameters, accepted types and kind of type test, label and
    cut rules, iteration sources, attributes filled by the readers) from $VERIF_REPO; fail closed."""
    from harness.translate import c16_container
    try:
        ok = c16_container.translate(run)
    except Exception as e:  # noqa - an AST shape the translator has never met must not stop the search
        import traceback
        run.broken("translate:GenC16", f"translator crashed: {type(e).__name__}: {e}\n{traceback.format_exc()[-800:]}", kind="broken-translation")
        ok = False
    if not ok:
        # never leave the tables of an earlier run behind: the proofs must not be checked against a stale translation
        run.gen("GenC16", "(* the translation of this run FAILED (harness/translate/c16_container.py): no table *)\n")
    return ok


HDR = ("From Coq Require Import List String Ascii Bool Arith QArith.\n"
       "From Leaspy Require Import Io.IndivParams Io.IndivParamsTie.\n"
       "Open Scope string_scope.\nOpen Scope Q_scope.\n")

NA_TOKENS = ["", "#N/A", "#N/A N/A", "#NA", "-1.#IND", "-1.#QNAN", "-NaN", "-nan", "1.#IND", "1.#QNAN",
             "<NA>", "N/A", "NA", "NULL", "NaN", "None", "n/a", "nan", "null"]

ID_POOL = ["007", "1e3", "1", "0", "-1", "1.0", "0x1F", "1_000", "+1", "True", "inf", "id-1", "sub 01", " x", "x ", "a,b", 'q"t',
           "a_b", "ID", "'", ";", "#", "S:1/2", "{}", "[1]", "%s", "\\n", "a\tb", "Nan", "none", "NAN", "-", ".", "007.0", "1E3",
           "GS-001", "GS-002", "GS-010", "patient_1", "patient_2"]
NAMES_PLAIN = ["xi", "tau", "sources", "source", "mysourcex", "w", "x.y", "x y", "X1", "1", "a", "b-2", "Sources", "beta", "sourc"]
NAMES_UNDERSCORE = ["random_intercept", "random_slope_age", "a_b", "a_", "_a", "sources_x", "tau_x", "x__y", "w_0_1"]


# ----------------------------------------------------------------------------- Coq literals


def cs(s: str) -> str:
    assert all(9 == ord(ch) or 32 <= ord(ch) < 127 for ch in s), s
    return '"' + s.replace('"', '""') + '"'


def cq(x) -> str:
    f = frac(x)
    return f"({f.numerator} # {f.denominator})"


def cl(items) -> str:
    return "[" + "; ".join(items) + "]"


def cnat(n) -> str:
    return f"{int(n)}%nat"


def kind_of(v):
    """Model tag of the python type carrying a number (None when it is not a number type of the model)."""
    import numpy as np
    t = type(v)
    return {int: "KInt", float: "KFloat", np.int32: "KNpInt32", np.int64: "KNpInt64", np.float32: "KNpFloat32",
            np.float64: "KNpFloat64", np.float16: "KNpOther", np.int8: "KNpOther", np.int16: "KNpOther", np.uint8: "KNpOther"}.get(t)


def atom_lit(v) -> str:
    k = kind_of(v)
    if k:
        return f"ANum {k} {cq(v)}"
    if isinstance(v, bool):
        return "ABool"
    if isinstance(v, str):
        return "AStr"
    if v is None:
        return "ANone"
    if isinstance(v, (list, tuple)):
        return "ANested"
    return "AOther"


def pyval_lit(v) -> str:
    import numpy as np
    if isinstance(v, np.ndarray):
        isint = "true" if np.issubdtype(v.dtype, np.integer) else "false"
        if v.ndim == 0:
            return f"VArr0 {isint} {cq(v.item())}"
        if v.ndim == 1:
            return f"VArr1 {isint} {cl([cq(x) for x in v.tolist()])}"
        return f"VArrNd {cnat(len(v))}"
    if isinstance(v, list):
        return f"VList {cl([atom_lit(x) for x in v])}"
    return f"VAtom ({atom_lit(v)})"


def pyid_lit(i) -> str:
    return f"IdStr {cs(i)}" if isinstance(i, str) else "IdNotStr"


def pyarg_lit(d) -> str:
    if not isinstance(d, dict):
        return "ArgNotDict"
    return "ArgDict " + cl([f"({cs(k)}, {pyval_lit(v)})" for k, v in d.items()])


class Unencodable(Exception):
    pass


def num_lit(v) -> str:
    k = kind_of(v)
    if k is None:
        raise Unencodable(f"{type(v).__name__}")
    return f"({k}, {cq(v)})"


def value_lit(v) -> str:
    if isinstance(v, list):
        return "Vec " + cl([num_lit(x) for x in v])
    return "Scalar " + num_lit(v)


def container_lit(ip) -> str:
    """The three private fields of an IndividualParameters object, as they are."""
    ids = ip._indices
    if not all(isinstance(i, str) for i in ids):
        raise Unencodable("non-string ID stored")
    params = cl([f"({cs(i)}, {cl([f'({cs(p)}, {value_lit(v)})' for p, v in e.items()])})" for i, e in ip._individual_parameters.items()])
    if ip._parameters_shape is None:
        sh = "None"
    else:
        sh = "(Some " + cl([f"({cs(p)}, {cl([cnat(n) for n in s])})" for p, s in ip._parameters_shape.items()]) + ")"
    return f"(mkC {cl([cs(i) for i in ids])} {params} {sh})"


def err_class(e: BaseException) -> str:
    from leaspy.exceptions import LeaspyIndividualParamsInputError
    return "InputError" if isinstance(e, LeaspyIndividualParamsInputError) else "Crash"


def res_lit(f, enc):
    """Run f() on the implementation; Coq literal of `Ok (enc result)` or `Err class`; also returns (value, exception)."""
    try:
        v = f()
    except Exception as e:  # noqa
        return f"(Err {err_class(e)})", None, e
    try:
        return f"(Ok {enc(v)})", v, None
    except Unencodable:
        raise
    except Exception as e:  # noqa  (a result of an unexpected python shape)
        raise Unencodable(f"{type(e).__name__}: {e}")


def table_lit(df) -> str:
    cols = [c for c in df.columns]
    if not all(isinstance(c, str) for c in cols):
        raise Unencodable("non-string column label")
    rows = []
    for idx, row in zip(df.index.tolist(), df.values.tolist()):
        rows.append(f"({pyid_lit(idx)}, {cl([cq(x) for x in row])})")
    return f"(mkT {cl([cs(c) for c in cols])} {cl(rows)})"


def torch_lit(res) -> str:
    ids, d = res
    return f"({cl([cs(i) for i in ids])}, {cl([f'({cs(k)}, {cl([cl([cq(x) for x in r]) for r in t.tolist()])})' for k, t in d.items()])})"


# ----------------------------------------------------------------------------- generators


def dyadic(rng):
    """A rational k/2^j exactly representable in float32 and with a short decimal expansion."""
    j = rng.choice([0, 0, 1, 2, 3, 4, 6, 8])
    k = rng.randrange(-(1 << 14), 1 << 14)
    if rng.random() < 0.1:
        k = rng.choice([0, 1, -1, 70, 128])
    return Fraction(k, 1 << j)


def py_number(rng, q: Fraction, allow_np=True):
    """A python object of a randomly chosen supported numeric type holding (exactly) q."""
    import numpy as np
    if q.denominator == 1:
        kinds = ["int", "float", "np.float64", "np.float32", "np.int64", "np.int32"] if allow_np else ["int", "float"]
        w = [3, 4, 1, 1, 1, 1] if allow_np else [1, 2]
    else:
        kinds = ["float", "np.float64", "np.float32"] if allow_np else ["float"]
        w = [6, 1, 1] if allow_np else [1]
    k = rng.choices(kinds, w)[0]
    if k == "np.float32" and len(str(abs(q.numerator * 10 ** 8 // q.denominator)).rstrip("0")) > 6:
        k = "float"        # a float32 column is written to csv with 7-8 significant digits: keep those values short
    v = {"int": lambda: int(q), "float": lambda: float(q), "np.float64": lambda: np.float64(float(q)),
         "np.float32": lambda: np.float32(float(q)), "np.int64": lambda: np.int64(int(q)), "np.int32": lambda: np.int32(int(q))}[k]()
    assert frac(v) == q
    return v, k


def gen_value(rng, shape, allow_np, numpy_rate, run=None):
    """A well-typed value of the given shape: () -> number or 0-d array; (n,) -> list or 1-d array."""
    import numpy as np
    if shape == ():
        q = dyadic(rng)
        if rng.random() < numpy_rate:
            return np.array(float(q)) if rng.random() < 0.7 or q.denominator != 1 else np.array(int(q)), "ndarray0"
        v, k = py_number(rng, q, allow_np)
        return v, "scalar:" + k
    n = shape[0]
    qs = [dyadic(rng) for _ in range(n)]
    if rng.random() < numpy_rate:
        if all(q.denominator == 1 for q in qs) and rng.random() < 0.5:
            return np.array([int(q) for q in qs]), "ndarray1:int"
        return np.array([float(q) for q in qs], dtype=np.float64), "ndarray1:float"
    one_kind = rng.random() < 0.6
    out, kinds = [], set()
    for q in qs:
        v, k = py_number(rng, q, allow_np and not one_kind)
        if one_kind:
            v = float(q)
            k = "float"
        out.append(v)
        kinds.add(k)
    return out, "list:" + ("mixed" if len(kinds) > 1 else kinds.pop())


MALFORMED = ["non-str-id", "dup-id", "not-dict", "bool", "str", "none", "tuple", "tensor", "empty-list", "empty-array", "nested-list",
             "array-2d", "np-float16", "head-junk", "tail-junk", "shape-longer", "shape-scalar-vs-vec", "missing-key", "extra-key",
             "renamed-key"]


SHAPE_DEPENDENT = ("shape-longer", "shape-scalar-vs-vec", "missing-key", "extra-key", "renamed-key")


def is_seq(v):
    import numpy as np
    return isinstance(v, list) or (isinstance(v, np.ndarray) and v.ndim >= 1)


def gen_malformed(rng, kind, ids_so_far, template, fresh_id):
    """(id, dict, should_reject) for a malformed addition derived from a valid `template` dict."""
    import numpy as np
    import torch
    d = dict(template)
    i = fresh_id
    keys = list(d)
    k = rng.choice(keys) if keys else "xi"
    if kind == "non-str-id":
        i = rng.choice([7, 1.5, None, ("a",), b"a"])
    elif kind == "dup-id":
        if not ids_so_far:
            return None
        i = rng.choice(ids_so_far)
    elif kind == "not-dict":
        d = rng.choice([[("xi", 1.0)], None, 3.0, "xi"])
    elif kind == "bool":
        d[k] = rng.choice([True, [True], [False, 1.0]])
    elif kind == "str":
        d[k] = rng.choice(["0.5", ["0.5"], ["a", 1.0]])
    elif kind == "none":
        d[k] = rng.choice([None, [None], [None, 1.0]])
    elif kind == "tuple":
        d[k] = rng.choice([(1.0,), (1.0, 2.0), [(1.0,)]])
    elif kind == "tensor":
        d[k] = rng.choice([torch.tensor(1.0), torch.tensor([1.0]), [torch.tensor(1.0)]])
    elif kind == "empty-list":
        d[k] = []
    elif kind == "empty-array":
        d[k] = rng.choice([np.array([]), np.zeros((0, 2)), np.zeros((2, 0))])
    elif kind == "nested-list":
        d[k] = rng.choice([[[1.0]], [[1.0, 2.0]], [[1.0], [2.0]]])
    elif kind == "array-2d":
        d[k] = rng.choice([np.array([[1.0]]), np.array([[1.0, 2.0]]), np.zeros((2, 2)), np.zeros((1, 1, 1))])
    elif kind == "np-float16":
        d[k] = rng.choice([np.float16(0.5), [np.float16(0.5)], np.int8(3), [np.uint8(3), 1.0], np.int16(2)])
    elif kind == "head-junk":
        d[k] = rng.choice([["x", 1.0], [None, 1.0], [[1.0], 2.0], [True, 2.0]])
    elif kind == "tail-junk":
        # same length as the template's value when that is a list of length >= 2 (else the shape check rejects it first)
        n = len(d[k]) if keys and is_seq(d[k]) and len(d[k]) >= 2 else 2
        d[k] = [0.5] * (n - 1) + [rng.choice(["x", None, [0.25], True, (1.0,)])]
    elif kind == "shape-longer":
        if not keys:
            return None
        v = d[k]
        d[k] = ([float(x) for x in v] + [1.0]) if is_seq(v) else [float(v), 1.0]
    elif kind == "shape-scalar-vs-vec":
        if not keys:
            return None
        v = d[k]
        d[k] = float(v[0]) if is_seq(v) else [float(v)]
    elif kind == "missing-key":
        if not keys:
            return None
        del d[k]
    elif kind == "extra-key":
        d["extra"] = 1.0
    elif kind == "renamed-key":
        if not keys:
            return None
        d = {(kk + "2" if kk == k else kk): v for kk, v in d.items()}
    return i, d


def gen_container_ops(run: Run, rng):
    """A list of additions (valid ones interleaved with malformed ones) and a description of the intent."""
    import numpy as np
    n_ids = rng.choice([1, 1, 2, 2, 3, 4, 6])
    mode = rng.choices(["vectors", "mixed-shapes", "all-scalars"], [62, 28, 10])[0]
    names_kind = rng.choices(["plain", "underscore"], [75, 25])[0]
    n_par = rng.choices([0, 1, 2, 3, 4], [3, 25, 32, 25, 15])[0]
    pool = list(NAMES_PLAIN)
    names = rng.sample(pool, n_par)
    if names_kind == "underscore" and n_par:
        for j in rng.sample(range(n_par), rng.choice([1, 1, min(2, n_par)])):
            cand = [u for u in NAMES_UNDERSCORE if u not in names]
            names[j] = rng.choice(cand)
    shapes = {}
    for p in names:
        if mode == "vectors":
            # lengths beyond 10 too: the component index in a column label then has two digits (`sources_10`, `sources_11`)
            shapes[p] = (rng.choice([1, 1, 1, 2, 3, 4, 4, 11, 13]),)
        elif mode == "all-scalars":
            shapes[p] = ()
        else:
            shapes[p] = rng.choice([(), (1,), (1,), (2,), (3,)])
    na_id = rng.random() < 0.04
    ids = rng.sample(ID_POOL, n_ids)
    if rng.random() < 0.25:
        ids = [f"{rng.randrange(10 ** rng.choice([1, 3, 6])):0{rng.choice([1, 3, 5])}d}" for _ in range(n_ids)]
        ids = list(dict.fromkeys(ids))
    if na_id:
        ids[rng.randrange(len(ids))] = rng.choice(NA_TOKENS)
    allow_np = rng.random() < 0.18
    numpy_rate = rng.choice([0.0, 0.0, 0.15, 0.5])
    ops, intents = [], []
    valid_ids = []
    template = None
    n_bad = rng.choices([0, 1, 2, 3], [45, 30, 15, 10])[0]
    bad_at = sorted(rng.randrange(0, len(ids) + 1) for _ in range(n_bad))
    tail_junk_last = False
    for pos in range(len(ids) + 1):
        for _ in range(bad_at.count(pos)):
            kind = rng.choice(MALFORMED)
            if kind == "tail-junk":
                tail_junk_last = True      # accepted by the code: must be the last operation of the case
                continue
            if template is None and kind in SHAPE_DEPENDENT:
                continue                   # before the first accepted entry any shape dict is acceptable
            tpl = template if template is not None else {p: gen_value(rng, s, False, 0.0)[0] for p, s in shapes.items()}
            m = gen_malformed(rng, kind, valid_ids, tpl, f"bad{pos}")
            if m is None:
                continue
            ops.append(m)
            intents.append("malformed:" + kind)
        if pos < len(ids):
            d = {}
            order = list(shapes)
            if template is not None and rng.random() < 0.15:
                rng.shuffle(order)          # same keys in another order: accepted (dict equality)
            vkinds = []
            for p in order:
                v, vk = gen_value(rng, shapes[p], allow_np, numpy_rate)
                d[p] = v
                vkinds.append(vk)
            ops.append((ids[pos], d))
            intents.append("valid")
            for vk in vkinds:
                run.count("value_form", vk)
            valid_ids.append(ids[pos])
            if template is None:
                template = d
    if tail_junk_last:
        tpl = template if template is not None else {"s": [0.5, 0.25]}
        m = gen_malformed(rng, "tail-junk", valid_ids, tpl, "junk")
        ops.append(m)
        intents.append("malformed:tail-junk")
    meta = dict(n_ids=len(ids), mode=mode, names=names_kind, n_params=n_par, na_id=na_id, numpy_scalars=allow_np)
    return ops, intents, shapes, meta


# ----------------------------------------------------------------------------- implementation side + oracles


def jsonable(x):
    """A JSON-able description of an arbitrary python input (for replays / evidence)."""
    import numpy as np
    try:
        import torch
        if isinstance(x, torch.Tensor):
            return {"torch.tensor": x.tolist(), "dtype": str(x.dtype)}
    except ImportError:
        pass
    if isinstance(x, np.ndarray):
        return {"np.array": x.tolist(), "dtype": str(x.dtype)}
    if isinstance(x, np.generic):
        return {"np." + type(x).__name__: x.item()}
    if isinstance(x, dict):
        return {"dict": [[jsonable(k), jsonable(v)] for k, v in x.items()]}
    if isinstance(x, tuple):
        return {"tuple": [jsonable(v) for v in x]}
    if isinstance(x, list):
        return [jsonable(v) for v in x]
    if isinstance(x, bytes):
        return {"bytes": x.decode("latin1")}
    return x


def unjsonable(x):
    import numpy as np
    if isinstance(x, list):
        return [unjsonable(v) for v in x]
    if isinstance(x, dict):
        (k, v), = [(k, v) for k, v in x.items() if k != "dtype"]
        if k == "dict":
            return {unjsonable(a): unjsonable(b) for a, b in v}
        if k == "tuple":
            return tuple(unjsonable(a) for a in v)
        if k == "bytes":
            return v.encode("latin1")
        if k == "np.array":
            return np.array(v, dtype=x["dtype"])
        if k == "torch.tensor":
            import torch
            return torch.tensor(v, dtype=getattr(torch, x["dtype"].split(".")[1]))
        if k.startswith("np."):
            return getattr(np, k[3:])(v)
    return x


def flat(v):
    return [frac(x) for x in v] if isinstance(v, list) else [frac(v)]


def expected_view(ip):
    """What the property says must survive every conversion: IDs (strings, in order), and per ID the map
    name -> exact values (a scalar and a length-1 vector have the same size: the code's tensor form is 'always 2D')."""
    return [(i, {p: flat(v) for p, v in ip._individual_parameters[i].items()}) for i in ip._indices]


def compare_views(want, got_ip, tol32=False):
    """None when equal, else a short description of the first difference."""
    ids = list(got_ip._indices)
    if [i for i, _ in want] != ids:
        return f"identifiers {ids!r} instead of {[i for i, _ in want]!r}"
    if not all(isinstance(i, str) for i in ids):
        return "non-string identifier"
    for i, e in want:
        g = got_ip._individual_parameters.get(i)
        if g is None:
            return f"no entry for {i!r}"
        if sorted(g) != sorted(e):
            return f"parameter names {list(g)!r} instead of {list(e)!r}"
        for p, vals in e.items():
            try:
                gv = flat(g[p])
            except Exception:
                return f"{p}: value not numeric"
            if len(gv) != len(vals):
                return f"{p}: {len(gv)} values instead of {len(vals)}"
            if tol32:
                import numpy as np
                vals = [frac(float(np.float32(float(x)))) for x in vals]
            if gv != vals:
                return f"{p}: values differ"
    return None


def run_container_case(run: Run, ops, intents, shapes, meta, tmpdir, rng):
    """Drive the implementation; returns (coq literal | None, record for replays)."""
    from leaspy.io.outputs.individual_parameters import IndividualParameters as IP
    from leaspy.exceptions import LeaspyIndividualParamsInputError
    import numpy as np
    import torch
    ip = IP()
    obs, done_ops = [], []
    rec = dict(ops=[[jsonable(i), jsonable(d)] for i, d in ops], intents=intents)
    outside = False
    for (i, d), intent in zip(ops, intents):
        before = (list(ip._indices), json.dumps(jsonable(ip._individual_parameters), sort_keys=True), repr(ip._parameters_shape))
        d_arg = dict(d) if isinstance(d, dict) else d
        try:
            ip.add_individual_parameters(i, d_arg)
            accepted, cls = True, None
        except Exception as e:  # noqa
            accepted, cls = False, err_class(e)
            if cls != "InputError":
                run.fail(f"add:raises-{type(e).__name__}", f"add_individual_parameters raised {type(e).__name__} instead of rejecting with "
                         "LeaspyIndividualParamsInputError", dict(ops=rec["ops"][:len(done_ops) + 1]), observed=str(e))
        done_ops.append((i, d))
        run.count("add_intent", intent)
        run.count("add_outcome", "accepted" if accepted else "rejected:" + cls)
        obs.append("ObsAdded" if accepted else f"ObsRejected {cls}")
        after = (list(ip._indices), json.dumps(jsonable(ip._individual_parameters), sort_keys=True), repr(ip._parameters_shape))
        # property oracle: malformed additions are rejected and leave the container unchanged
        if intent.startswith("malformed"):
            if accepted:
                sig = "add:list-tail-type-unchecked" if intent == "malformed:tail-junk" else f"add:accepts-{intent.split(':')[1]}"
                run.fail(sig, "a malformed addition is accepted (only the first element of a list has its type checked)"
                         if intent == "malformed:tail-junk" else f"a malformed addition ({intent}) is accepted",
                         dict(ops=rec["ops"][:len(done_ops)]), expected="LeaspyIndividualParamsInputError", observed="accepted")
            elif before != after:
                run.fail("add:rejected-but-modified", "a rejected addition modified the container", dict(ops=rec["ops"][:len(done_ops)]))
        elif not accepted:
            run.fail("add:rejects-valid", f"a well-formed addition is rejected ({cls})", dict(ops=rec["ops"][:len(done_ops)]))
        if accepted and intent == "malformed:tail-junk":
            outside = True
            break
    ops_l = cl([f"({pyid_lit(i)}, {pyarg_lit(d)})" for i, d in done_ops])
    obs_l = cl(obs)
    dummy = "(Err Unmodelled)"
    if outside:
        lit = f"(mkA {ops_l} {obs_l} empty {dummy} {dummy} {dummy} {dummy} {dummy} {dummy} [] {dummy})"
        return lit, rec, dict(meta, outside=True)
    try:
        final_l = container_lit(ip)
    except Unencodable as e:
        run.fail("state:unencodable", f"the container holds something outside the model's value domain ({e})", dict(ops=rec["ops"]))
        return None, rec, meta
    want = expected_view(ip)
    nonempty = len(ip._indices) > 0
    has_scalar = any(s == () for s in (ip._parameters_shape or {}).values())
    has_us = any("_" in p for p in (ip._parameters_shape or {}))
    has_np = any(kind_of(x) not in ("KInt", "KFloat", "KNpFloat64") for e in ip._individual_parameters.values() for v in e.values()
                 for x in (v if isinstance(v, list) else [v]))
    has_na = any(i in NA_TOKENS for i in ip._indices)
    inp = dict(ops=rec["ops"])

    def classify(stage, exc, diff):
        """Signature of a round-trip failure: narrow for the listed findings, generic otherwise."""
        if not nonempty:
            return "empty-container:convert-raises" if exc is not None and isinstance(exc, AttributeError) else f"{stage}:empty-container"
        if stage in ("table", "csv") and has_scalar and isinstance(exc, IndexError):
            return "to_dataframe:scalar-parameter"
        if stage == "csv" and has_na and isinstance(exc, LeaspyIndividualParamsInputError) and "<class 'float'>" in str(exc):
            return "csv-load:id-na-token"
        if stage in ("table", "csv") and has_us and not has_scalar and (
                isinstance(exc, AttributeError) or (diff and ("parameter names" in diff))):
            return "from_dataframe:underscore-in-name"
        if stage == "json" and has_np and isinstance(exc, TypeError) and "JSON serializable" in str(exc):
            return "json-save:numpy-scalar"
        return f"{stage}-roundtrip:" + (type(exc).__name__ if exc is not None else "differs")

    def oracle(stage, value, exc, what):
        if exc is not None:
            run.fail(classify(stage, exc, None), f"{what} raises {type(exc).__name__}: {str(exc)[:120]}", inp,
                     expected="same identifiers, names, sizes and values", observed=f"{type(exc).__name__}")
        else:
            diff = compare_views(want, value)
            if diff:
                run.fail(classify(stage, None, diff), f"{what}: {diff}", inp, expected="same identifiers, names, sizes and values", observed=diff)

    # to_dataframe / from_dataframe
    df_l, df, e1 = res_lit(ip.to_dataframe, table_lit)
    if df is not None:
        back_l, back, e2 = res_lit(lambda: IP.from_dataframe(df), container_lit)
        oracle("table", back, e2, "from_dataframe(to_dataframe())")
        if list(df.index) != list(ip._indices):
            run.fail("to_dataframe:index", "the table index is not the identifiers in order", inp)
    else:
        back_l = f"(Err {err_class(e1)})"
        oracle("table", None, e1, "to_dataframe()")
    # to_pytorch / from_pytorch
    try:
        t_l, t, e1 = res_lit(ip.to_pytorch, torch_lit)
    except Unencodable:
        for k, ten in ip.to_pytorch()[1].items():
            if ten.dtype != torch.float32 or ten.ndim != 2 or ten.shape[0] != len(ip._indices):
                run.fail("to_pytorch:not-2d-float32", f"tensor of {k} has dtype {ten.dtype}, shape {tuple(ten.shape)}", inp)
        raise
    if t is not None:
        for k, ten in t[1].items():
            if ten.dtype != torch.float32 or ten.ndim != 2 or ten.shape[0] != len(ip._indices):
                run.fail("to_pytorch:not-2d-float32", f"tensor of {k} has dtype {ten.dtype}, shape {tuple(ten.shape)}", inp)
        tb_l, tb, e2 = res_lit(lambda: IP.from_pytorch(*t), container_lit)
        oracle("torch", tb, e2, "from_pytorch(*to_pytorch())")
    else:
        tb_l = f"(Err {err_class(e1)})"
        oracle("torch", None, e1, "to_pytorch()")
    # json
    pj = os.path.join(tmpdir, "c.json")

    def via(path):
        if os.path.exists(path):
            os.remove(path)
        ip.save(path)
        return IP.load(path)
    j_l, jb, e1 = res_lit(lambda: via(pj), container_lit)
    oracle("json", jb, e1, "save/load json")
    if jb is not None and nonempty:
        if jb._parameters_shape != ip._parameters_shape or list(jb._parameters_shape) != list(ip._parameters_shape):
            run.fail("json-roundtrip:shapes", "shapes differ after json", inp)
        for i in ip._indices:
            for p, v in ip._individual_parameters[i].items():
                w = jb._individual_parameters[i][p]
                if isinstance(v, list) != isinstance(w, list):
                    run.fail("json-roundtrip:shapes", f"{p}: scalar/list form changed by json", inp)
    # json written with other json.dump options (save forwards its keyword arguments): the file lists the individuals in another order
    # than `indices`; identifiers and values must still go together in every form read back
    if jb is not None and nonempty:
        try:
            base_ids, base_t = ip.to_pytorch()
        except Exception:
            base_ids = None
        if base_ids is not None:
            pj2 = os.path.join(tmpdir, "c_sorted.json")
            try:
                if os.path.exists(pj2):
                    os.remove(pj2)
                ip.save(pj2, sort_keys=True, indent=None)
                jb2 = IP.load(pj2)
                ids2, t2 = jb2.to_pytorch()
                run.count("json_sorted_keys", "compared" if list(base_ids) != sorted(base_ids) else "compared (ids already sorted)")
                if list(ids2) != list(base_ids) or set(t2) != set(base_t) or any(not torch.equal(t2[k], base_t[k]) for k in base_t):
                    run.fail("json-sorted-keys:identifiers-and-values-misaligned",
                             "after save(json, sort_keys=True) / load, to_pytorch() does not give the identifiers with their own values", inp,
                             expected=dict(ids=list(base_ids), first={k: v[0].tolist() for k, v in base_t.items()}),
                             observed=dict(ids=list(ids2), first={k: v[0].tolist() for k, v in t2.items()}))
                try:
                    d0 = ip.to_dataframe()
                except Exception:
                    d0 = None          # the table form of this container is itself refused (listed findings): nothing to compare
                if d0 is not None:
                    d2 = jb2.to_dataframe()
                    cols = sorted(d0.columns)      # sort_keys also re-orders the parameter names in the file: column order is not compared
                    if list(d0.index) != list(d2.index) or sorted(d2.columns) != cols or not d0[cols].equals(d2[cols]):
                        run.fail("json-sorted-keys:table-differs", "after save(json, sort_keys=True) / load, to_dataframe() differs", inp)
            except Exception as ex:  # noqa
                run.fail(f"json-sorted-keys:raises:{type(ex).__name__}", f"save(json, sort_keys=True) / load / convert raised {type(ex).__name__}: {ex}", inp)
    # a container read back from a file is a container like any other: adding an identifier it already holds must be refused
    def dup_after(label, obj):
        if obj is None or not nonempty or not getattr(obj, "_indices", None):
            return
        i0 = obj._indices[0]
        try:
            obj.add_individual_parameters(i0, copy.deepcopy(obj._individual_parameters[i0]))
        except LeaspyIndividualParamsInputError:
            run.count("duplicate_after_load", f"{label}: refused")
            return
        except Exception as ex:  # noqa
            run.fail(f"add:duplicate-after-{label}:raises:{type(ex).__name__}", f"adding an identifier already present after {label} raises "
                     f"{type(ex).__name__}: {ex}", inp)
            return
        run.fail(f"add:duplicate-accepted-after-{label}", f"after {label}, adding an identifier the container already holds is accepted "
                 f"(indices now {list(obj._indices)[:6]})", inp, expected="LeaspyIndividualParamsInputError", observed="accepted")
    dup_after("json-load", jb)
    # csv
    pc = os.path.join(tmpdir, "c.csv")
    c_l, cb, e1 = res_lit(lambda: via(pc), container_lit)
    dup_after("csv-load", cb if not isinstance(cb, Exception) else None)
    if not nonempty and isinstance(e1, LeaspyIndividualParamsInputError):
        pass        # documented: save refuses the empty container
    else:
        oracle("csv", cb, e1, "save/load csv")
    # subset
    pool = list(ip._indices)
    r = rng.random()
    if pool and r < 0.7:
        sub = rng.sample(pool, rng.randrange(0, len(pool) + 1))
        kind = "known"
    elif pool and r < 0.8:
        sub = [rng.choice(pool)] * 2
        kind = "duplicate"
    elif r < 0.9:
        sub = pool[:1] + ["zz-unknown"]
        kind = "unknown"
    else:
        sub = pool[:1] + [3]
        kind = "non-string"
    run.count("subset", kind)
    s_l, sb, e1 = res_lit(lambda: ip.subset(list(sub)), container_lit)
    if kind == "known":
        if sb is None:
            run.fail("subset:raises", f"subset of known identifiers raises {type(e1).__name__}", dict(inp, subset=sub))
        else:
            d = compare_views([(i, dict(want)[i]) for i in sub], sb)
            if d:
                run.fail("subset:differs", f"subset: {d}", dict(inp, subset=sub))
    elif sb is not None or err_class(e1) != "InputError":
        run.fail("subset:accepts-bad-ids", f"subset({kind} identifiers) does not raise LeaspyIndividualParamsInputError", dict(inp, subset=jsonable(sub)))
    rec["subset"] = jsonable(sub)
    lit = f"(mkA {ops_l} {obs_l} {final_l} {df_l} {back_l} {t_l} {tb_l} {j_l} {c_l} {cl([pyid_lit(i) for i in sub])} {s_l})"
    return lit, rec, dict(meta, outside=False, nonempty=nonempty, has_scalar=has_scalar, has_underscore=has_us, has_np=has_np, has_na=has_na)


def stream_A(run: Run, n, tmpdir):
    cases, recs = [], []
    for k in range(n):
        rng = run.rng("A", k)
        ops, intents, shapes, meta = gen_container_ops(run, rng)
        try:
            lit, rec, info = run_container_case(run, ops, intents, shapes, meta, tmpdir, rng)
        except Unencodable as ex:
            run.fail("result-outside-model", f"a conversion returned something the model has no form for ({ex}); e.g. a tensor that is not "
                     "2-D, a non-string label", dict(ops=[[jsonable(i), jsonable(d)] for i, d in ops]), kind="broken-correspondence")
            continue
        if lit is None:
            continue
        nontrivial = info.get("outside") or (info.get("nonempty") and (len(ops) > 1 or info["n_params"] > 0))
        run.case(("A", lit), nontrivial=bool(nontrivial))
        for key in ("mode", "names", "n_ids", "n_params"):
            run.count(key, info[key])
        run.count("container_flags", "+".join(f for f in ("outside", "has_scalar", "has_underscore", "has_np", "has_na") if info.get(f)) or "plain-vectors")
        cases.append(lit)
        recs.append(rec)
        if k in (3, 11):
            run.sample(dict(stream="A", **rec))
    bad = run.vm_bad_indices("A", HDR, "caseA", cases, "checkA", shard=150)
    if bad:
        stage_names = {1: "add", 2: "state", 3: "to_dataframe", 4: "from_dataframe", 5: "to_pytorch", 6: "from_pytorch", 7: "json", 8: "csv", 9: "subset"}
        sub = [cases[i] for i in bad[:450]]
        stage_of = {}
        for code in stage_names:
            hit = run.vm_bad_indices(f"Astage{code}", HDR, "caseA", sub, f"(fun k => negb (Nat.eqb (checkA_code k) {code}))", shard=150)
            for j in hit or []:
                stage_of[bad[j]] = stage_names[code]
        for i in bad:
            st = stage_of.get(i, "unclassified")
            run.fail(f"model-mismatch:{st}", f"the implementation's result of stage `{st}` differs from the model's (the theorems are about the model)",
                     dict(ops=recs[i]["ops"], subset=recs[i].get("subset")), kind="broken-correspondence")
    return len(cases)


def stream_B(run: Run, n):
    """from_dataframe on arbitrary tables (not produced by to_dataframe)."""
    import pandas as pd
    from leaspy.io.outputs.individual_parameters import IndividualParameters as IP
    labels = ["xi", "tau", "s_0", "s_1", "s_2", "sources_0", "sources_1", "a_b", "a", "w_x_1", "_z", "q_", "b", "tau_0", "x y", "Z"]
    cases, recs = [], []
    for k in range(n):
        rng = run.rng("B", k)
        cols = rng.sample(labels, rng.randrange(0, 6))
        n_rows = rng.choice([0, 1, 2, 3])
        r = rng.random()
        ids = rng.sample(ID_POOL, n_rows)
        kind = "str"
        if r < 0.1 and n_rows:
            ids[rng.randrange(n_rows)] = rng.choice([5, 2.5])
            kind = "non-string"
        elif r < 0.2 and n_rows >= 2:
            ids[1] = ids[0]
            kind = "duplicate"
        data = [[float(dyadic(rng)) for _ in cols] for _ in range(n_rows)]
        df = pd.DataFrame(data, index=pd.Index(ids, dtype=object), columns=cols)
        run.count("B_index", kind)
        run.count("B_cols", len(cols))
        t_l = f"(mkT {cl([cs(c) for c in cols])} {cl([f'({pyid_lit(i)}, {cl([cq(x) for x in row])})' for i, row in zip(ids, data)])})"
        try:
            r_l, v, e = res_lit(lambda: IP.from_dataframe(df), container_lit)
        except Unencodable as ex:
            run.fail("from_dataframe:unencodable", str(ex), dict(cols=cols, ids=jsonable(ids), data=data))
            continue
        if kind != "str" and v is not None:
            run.fail("from_dataframe:accepts-bad-index", f"a table with a {kind} index label is accepted",
                     dict(cols=cols, ids=jsonable(ids), data=data))
        run.case(("B", t_l), nontrivial=n_rows > 0 and len(cols) > 0)
        cases.append(f"({t_l}, {r_l})")
        recs.append(dict(cols=cols, ids=jsonable(ids), data=data))
    run.sample(dict(stream="B", **recs[1]))
    bad = run.vm_bad_indices("B", HDR, "table * res container", cases, "checkB", shard=300)
    for i in bad or []:
        run.fail("model-mismatch:from_dataframe-raw", "from_dataframe on a hand-made table differs from the model", recs[i], kind="broken-correspondence")
    return len(cases)


def stream_C(run: Run, n):
    """from_pytorch on arbitrary (indices, dict of tensors)."""
    import torch
    from leaspy.io.outputs.individual_parameters import IndividualParameters as IP
    cases, recs = [], []
    for k in range(n):
        rng = run.rng("C", k)
        n_ids = rng.choice([0, 1, 2, 3])
        ids = rng.sample(ID_POOL, n_ids)
        r = rng.random()
        kind = "str"
        if r < 0.1 and n_ids:
            ids[rng.randrange(n_ids)] = 4
            kind = "non-string"
        elif r < 0.2 and n_ids >= 2:
            ids[-1] = ids[0]
            kind = "duplicate"
        names = rng.sample(NAMES_PLAIN + NAMES_UNDERSCORE, rng.randrange(0, 4))
        d, lits, desc = {}, [], {}
        wrong_len = False
        for p in names:
            m = n_ids
            if rng.random() < 0.08:
                m = n_ids + rng.choice([1, -1]) if n_ids else 1
                wrong_len = True
            m = max(m, 0)
            if rng.random() < 0.25:
                rows = [float(dyadic(rng)) for _ in range(m)]
                d[p] = torch.tensor(rows, dtype=torch.float32)
                lits.append(f"({cs(p)}, T1 {cl([cq(x) for x in rows])})")
            else:
                w = rng.choice([0, 1, 1, 2, 3])
                rows = [[float(dyadic(rng)) for _ in range(w)] for _ in range(m)]
                d[p] = torch.tensor(rows, dtype=torch.float32).reshape(m, w)
                lits.append(f"({cs(p)}, T2 {cl([cl([cq(x) for x in r_]) for r_ in rows])})")
            desc[p] = jsonable(d[p])
        run.count("C_kind", kind + ("+wrong-length" if wrong_len else ""))
        try:
            r_l, v, e = res_lit(lambda: IP.from_pytorch(list(ids), d), container_lit)
        except Unencodable as ex:
            run.fail("result-outside-model", f"from_pytorch returned something the model has no form for ({ex})", dict(ids=jsonable(ids), tensors=desc),
                     kind="broken-correspondence")
            continue
        if (kind != "str" or wrong_len) and (v is not None or err_class(e) != "InputError"):
            run.fail("from_pytorch:accepts-bad-input", f"from_pytorch with {kind} identifiers / wrong_length={wrong_len} is not rejected with "
                     "LeaspyIndividualParamsInputError", dict(ids=jsonable(ids), tensors=desc))
        run.case(("C", tuple(map(repr, ids)), tuple(lits)), nontrivial=n_ids > 0 and len(names) > 0)
        cases.append(f"({cl([pyid_lit(i) for i in ids])}, {cl(lits)}, {r_l})")
        recs.append(dict(ids=jsonable(ids), tensors=desc))
    run.sample(dict(stream="C", **recs[2]))
    bad = run.vm_bad_indices("C", HDR, "list pyid * list (string * tensor) * res container", cases, "checkC", shard=300)
    for i in bad or []:
        run.fail("model-mismatch:from_pytorch-raw", "from_pytorch on hand-made tensors differs from the model", recs[i], kind="broken-correspondence")
    return len(cases)


PATHS = ["foo", "foo.", "foo.txt", "foo.CSV", "foo.json", "foo.csv", ".csv", "sub.d/foo", "foo.tar.csv", "foo.csv.bak", "..hid.json",
         "a.b.c/x.y.json", "x.jsonl", "sub.d/.json", "x.Json", "data.csv.json", "v1.2", "sub.d/v.csv"]


def stream_D(run: Run, n, tmpdir):
    """save(path) then load(path'): extension handling, default extension, unsupported extensions."""
    from leaspy.io.outputs.individual_parameters import IndividualParameters as IP
    cases, recs = [], []
    for k in range(n):
        rng = run.rng("D", k)
        d = os.path.join(tmpdir, f"d{k}")
        for sub in ("", "sub.d", "a.b.c"):
            os.makedirs(os.path.join(d, sub), exist_ok=True)
        ip = IP()
        ops = []
        for i in rng.sample(["007", "1e3", "p-1", "x y"], rng.choice([0, 1, 2, 2])):
            e = {"xi": [float(dyadic(rng))], "sources": [float(dyadic(rng)), float(dyadic(rng))]}
            ip.add_individual_parameters(i, dict(e))
            ops.append((i, e))
        path = rng.choice(PATHS)
        r = rng.random()
        path2 = path if r < 0.6 else (path + ".csv" if r < 0.85 else rng.choice(PATHS))
        ext = IP._check_and_get_extension(os.path.join(d, path))
        ext2 = IP._check_and_get_extension(os.path.join(d, path2))
        ext_l = lambda e: "None" if e is None else f"(Some {cs(e)})"  # noqa
        try:
            import warnings
            with warnings.catch_warnings():
                warnings.simplefilter("ignore")
                ip.save(os.path.join(d, path))
            files = [os.path.relpath(os.path.join(r_, f), d) for r_, _, fs in os.walk(d) for f in fs]
            if len(files) != 1:
                run.fail("save:files", f"save wrote {files!r}", dict(path=path))
                continue
            try:
                json.load(open(os.path.join(d, files[0])))
                fmt = "Json"
            except ValueError:
                fmt = "Csv"
            w_l = f"(Ok ({cs(files[0])}, {fmt}))"
            saved = True
        except Exception as e:  # noqa
            w_l = f"(Err {err_class(e)})"
            saved = False
        try:
            b_l, v, e = res_lit(lambda: IP.load(os.path.join(d, path2)), container_lit)
        except Unencodable as ex:
            run.fail("result-outside-model", f"load returned something the model has no form for ({ex})", dict(path=path, load_path=path2),
                     kind="broken-correspondence")
            continue
        if not saved:
            # the model's save_load reports the save error first
            b_l = w_l
        run.count("D_ext", f"{ext!r}->{ext2!r}")
        # property oracle: a supported extension used for both save and load gives the container back
        if ops and ext in ("csv", "json") and path2 == path:
            if v is None:
                run.fail(f"save-load:{ext}-raises", f"save/load with extension {ext} raises {type(e).__name__}", dict(path=path))
            else:
                dd = compare_views(expected_view(ip), v)
                if dd:
                    run.fail(f"save-load:{ext}-differs", dd, dict(path=path))
        if ext not in ("csv", "json") and path2 == path and (v is not None or err_class(e) != "InputError"):
            run.fail("load:unsupported-extension-accepted", f"load({path!r}) does not raise LeaspyIndividualParamsInputError", dict(path=path))
        run.case(("D", path, path2, len(ops)), nontrivial=True)
        ops_l = cl([f"({pyid_lit(i)}, {pyarg_lit(e_)})" for i, e_ in ops])
        cases.append(f"(mkD {ops_l} {cs(path)} {cs(path2)} {ext_l(ext)} {ext_l(ext2)} {w_l} {b_l})")
        recs.append(dict(path=path, load_path=path2, n_ids=len(ops)))
        shutil.rmtree(d, ignore_errors=True)
    run.sample(dict(stream="D", **recs[0]))
    bad = run.vm_bad_indices("D", HDR, "caseD", cases, "checkD", shard=300)
    for i in bad or []:
        run.fail("model-mismatch:save-load-path", "extension handling of save/load differs from the model", recs[i], kind="broken-correspondence")
    return len(cases)


def directed(run: Run, tmpdir):
    """The witnesses of the refuted theorems, replayed on the implementation (each is a listed finding while it reproduces),
    and the csv last-digit oracle on non-dyadic values."""
    from leaspy.io.outputs.individual_parameters import IndividualParameters as IP
    import numpy as np
    # F7a: the class's own docstring example
    ip = IP()
    ip.add_individual_parameters("index-1", {"xi": 0.1, "tau": 70, "sources": [0.1, -0.3]})
    try:
        back = IP.from_dataframe(ip.to_dataframe())
        d = compare_views(expected_view(ip), back)
        if d:
            run.fail("table-roundtrip:docstring-example", d, "docstring example of add_individual_parameters")
    except IndexError as e:
        run.fail("to_dataframe:scalar-parameter", f"to_dataframe() raises IndexError: {e}", dict(ops=[["index-1", {"dict": [["xi", 0.1], ["tau", 70], ["sources", [0.1, -0.3]]]}]]))
    # F7b: the LME model's parameter names
    ip = IP()
    ip.add_individual_parameters("a", {"random_intercept": [0.5], "random_slope_age": [0.25]})
    try:
        back = IP.from_dataframe(ip.to_dataframe())
        d = compare_views(expected_view(ip), back)
        if d:
            run.fail("from_dataframe:underscore-in-name", f"from_dataframe(to_dataframe()): {d}",
                     dict(ops=[["a", {"dict": [["random_intercept", [0.5]], ["random_slope_age", [0.25]]]}]]))
    except Exception as e:  # noqa
        run.fail("from_dataframe:underscore-in-name", f"raises {type(e).__name__}", "LME names")
    # empty container
    for name in ("to_dataframe", "to_pytorch"):
        try:
            getattr(IP(), name)()
        except AttributeError as e:
            run.fail("empty-container:convert-raises", f"IndividualParameters().{name}() raises AttributeError: {e}", dict(ops=[]))
        except Exception as e:  # noqa
            run.fail(f"empty-container:{type(e).__name__}", f"IndividualParameters().{name}() raises {type(e).__name__}", dict(ops=[]))
    # csv text round trip of arbitrary doubles: pandas' default float parser is not the round-trip one
    rng = run.rng("ulp")
    ip = IP()
    vals = [rng.uniform(-100, 100) * 10 ** rng.randrange(-6, 3) for _ in range(400 if run.tier == "quick" else 4000)]
    for i, v in enumerate(vals):
        ip.add_individual_parameters(f"s{i}", {"xi": [v], "tau": [70.0 + i / 7]})
    p = os.path.join(tmpdir, "ulp.csv")
    ip.save(p)
    back = IP.load(p)
    changed, worst = 0, 0.0
    first = None
    for i, v in enumerate(vals):
        w = back[f"s{i}"]["xi"][0]
        if w != v:
            changed += 1
            first = first if first is not None else v
            rel = abs(w - v) / abs(v)
            worst = max(worst, rel)
            if rel > 1e-10:
                run.fail("csv-load:float-changed-beyond-1e-10", f"{v!r} read back as {w!r}", dict(value=v))
    run.extra["csv_text_roundtrip_general_doubles"] = dict(values=len(vals), changed=changed, worst_relative_change=worst)
    if changed:
        run.fail("csv-load:float-last-digits", f"{changed} of {len(vals)} float64 values come back from save/load csv changed in their last digits "
                 f"(relative change up to {worst:.1e}; pandas.read_csv default float_precision is not the round-trip parser)", dict(value=first))
    for i, v in enumerate(vals):
        run.case(("ulp", v), nontrivial=True)
    # json keeps general doubles exactly
    p = os.path.join(tmpdir, "ulp.json")
    ip.save(p)
    back = IP.load(p)
    if any(back[f"s{i}"]["xi"][0] != v for i, v in enumerate(vals)):
        run.fail("json-roundtrip:float-differs", "a float64 value is changed by save/load json", dict())
    # to_pytorch rounds general doubles to the nearest float32 (numpy's rounding as reference)
    _, d = ip.to_pytorch()
    got = d["xi"].reshape(-1).tolist()
    ref = [float(np.float32(v)) for v in vals]
    if got != ref:
        run.fail("to_pytorch:not-nearest-float32", "to_pytorch values are not the float32 nearest to the stored doubles", dict())


def check(run: Run):
    from harness.common import use_impl
    use_impl()
    thorough = run.tier == "thorough"
    run.rule = ("stream A: random containers built by add_individual_parameters (1-6 IDs from a pool with numeric-looking / padded / "
                "punctuated / NA-like strings, 0-4 parameters named with/without '_' and 'source', shapes scalar / (1,) / (n,), values dyadic "
                "rationals carried by int/float/numpy scalars/lists/ndarrays, 0-3 malformed additions of 20 kinds interleaved), then every "
                "conversion pair, json/csv save-load and subset; stream B: from_dataframe on hand-made tables; stream C: from_pytorch on "
                "hand-made tensors; stream D: save(path)/load(path') over 18 path shapes; plus directed witnesses. Non-trivial = container "
                "with >= 1 accepted ID and (>= 1 parameter or >= 2 additions), or a rejected/outside-model addition; distinct by literal.")
    tmpdir = tempfile.mkdtemp(prefix="c16-")
    try:
        nA = 30000 if thorough else 1200
        nB = 5000 if thorough else 300
        nC = 4000 if thorough else 250
        nD = 1500 if thorough else 150
        a = stream_A(run, nA, tmpdir)
        b = stream_B(run, nB)
        c = stream_C(run, nC)
        d = stream_D(run, nD, tmpdir)
        directed(run, tmpdir)
        run.extra["cases_per_stream"] = dict(A_containers=a, B_tables=b, C_tensors=c, D_paths=d)
    finally:
        shutil.rmtree(tmpdir, ignore_errors=True)


def main(run: Run):
    translate(run)
    run.prove("C16", OBLIGATIONS)
    from harness.common import make
    ok, out = make(["theories/Io/IndivParamsTie.vo"])      # the comparison functions run by the generated case files
    if not ok:
        run.broken("build:IndivParamsTie", out[-1500:])
    run.assumptions += [
        "values of the exact comparison are dyadic rationals k/2^j (|k| < 2^14, j <= 8): float32 rounding and the csv text are exact on them; "
        "general doubles are covered by separate oracles (csv within one ulp, json exact, to_pytorch = nearest float32)",
        "identifiers and names are printable ASCII (plus TAB); the python type of a number is compared after json only (pandas and torch unify types)",
        "parameter names 'ID' and '' and colliding column labels (x of length >= 2 next to x_0) are outside the model (Unmodelled) and not generated",
    ]
    run.trusted += ["hand-written model coq/theories/Io/IndivParams.v (tied by exact vm_compute comparison on every run; its decisions - order of the "
                    "checks, accepted types, exception classes, naming / cut rules, iteration sources, attributes filled by readers - are regenerated "
                    "from the source into coq/gen/GenC16.v and proved to be the model's)",
                    "harness encoders python object -> Coq literal (harness/props/c16.py), float -> exact rational (float.as_integer_ratio)",
                    "pandas (DataFrame construction, iterrows, to_csv/read_csv quoting and NA handling), json, torch.tensor/tolist, os.path.splitext"]
    run.explanation = ("Theorems (Coq, for every container / name / shape / value) on an executable model written line by line from "
                       "individual_parameters.py; the implementation is run on generated containers, tables, tensors and paths and every observed "
                       "result (accept/reject, stored fields, table, tensors, json/csv reload, subset, error class) is compared with the model's "
                       "inside Coq; property oracles on the implementation classify every round-trip failure by a narrow signature.")
    try:
        check(run)
    except Exception as e:  # noqa
        import traceback
        traceback.print_exc()
        run.broken("check-crashed", f"{type(e).__name__}: {e}")
    return run.finish()


def replay(run: Run, path: str):
    """Re-run one recorded input on the current tree: rebuild the container from the recorded additions, run every
    conversion, print what happens."""
    from harness.common import use_impl
    use_impl()
    from leaspy.io.outputs.individual_parameters import IndividualParameters as IP
    d = json.load(open(path))
    inp = d.get("input")
    if not isinstance(inp, dict) or "ops" not in inp:
        print("replay: this file does not record a container; re-running the check:", d.get("signature") or [b["name"] for b in d.get("broken", [])])
        return main(run)
    ip = IP()
    bad = 0
    for i, a in inp["ops"]:
        i, a = unjsonable(i), unjsonable(a)
        try:
            ip.add_individual_parameters(i, a)
            print(f"add({i!r}, {a!r}) -> accepted")
        except Exception as e:  # noqa
            print(f"add({i!r}, {a!r}) -> {type(e).__name__}: {e}")
    print("container:", ip._indices, ip._individual_parameters, ip._parameters_shape)
    want = expected_view(ip) if all(kind_of(x) for e in ip._individual_parameters.values() for v in e.values()
                                    for x in (v if isinstance(v, list) else [v])) else None
    if want is None:
        print("the container holds non-numeric elements: a malformed addition was accepted")
        bad += 1
    tmp = tempfile.mkdtemp(prefix="c16r-")
    steps = [("from_dataframe(to_dataframe())", lambda: IP.from_dataframe(ip.to_dataframe())),
             ("from_pytorch(*to_pytorch())", lambda: IP.from_pytorch(*ip.to_pytorch())),
             ("save/load json", lambda: (ip.save(tmp + "/r.json"), IP.load(tmp + "/r.json"))[1]),
             ("save/load csv", lambda: (ip.save(tmp + "/r.csv"), IP.load(tmp + "/r.csv"))[1])]
    for name, f in steps:
        try:
            v = f()
            diff = compare_views(want, v, tol32=name.startswith("from_pytorch")) if want is not None else "n/a"
            print(f"{name}: {'same identifiers, names, sizes, values' if diff is None else diff}")
            bad += diff is not None
        except Exception as e:  # noqa
            print(f"{name}: raises {type(e).__name__}: {e}")
            bad += 1
    shutil.rmtree(tmp, ignore_errors=True)
    print("REPLAY", "FAILS" if bad else "passes")
    return 1 if bad else 0
