"""C06 — metamorphic oracles on the real pipeline (reusable helpers: C04 may import them).

* `missing_df`          cohort with missing entries, whole features / whole visits missing for some individuals
* `DatasetTamper`       context manager wrapping `Dataset.__init__` (this process only): garbage under the mask /
                        in padded slots, extra padded visits
* `fit_record`          short real fit recording, per iteration, nll_attach_ind and every sufficient statistic
* `state_quantities`    nll_attach_ind, statistics and one M-step on a clone of a fitted state loaded with a dataset
* `noise_from_scratch`  the documented noise estimator recomputed from y / model of a state
"""
from __future__ import annotations

import contextlib
import io
import math
import warnings

FILLS = [0.0, 7.5, 1e30, float("nan"), float("inf")]
CONFIGS = [  # kind, noise, source_dimension, n_feat
    ("logistic", "gaussian-scalar", None, 3),
    ("logistic", "gaussian-diagonal", 1, 3),
    ("linear", "gaussian-diagonal", 1, 3),
    ("linear", "gaussian-scalar", None, 2),
    ("shared_speed_logistic", "gaussian-scalar", None, 3),
    ("joint", None, None, 1),
    ("mixture_logistic", "gaussian-diagonal", 2, 3),
]


def missing_df(kind, seed, n_ind=8, n_feat=3, partial=True):
    """Synthetic cohort; `partial=False` removes only whole visits (no visit with some but not all features)."""
    import random
    from harness import synth
    df = synth.make_df(n_ind=n_ind, n_feat=n_feat, seed=seed, missing=0.0, joint=(kind == "joint"), kind=kind, visits=(3, 6))
    rng = random.Random(seed * 31 + 7)
    cols = [c for c in df.columns if c.startswith("Y")]
    ids = list(dict.fromkeys(df["ID"]))
    nan = float("nan")
    for k, i in enumerate(ids):
        rows = list(df.index[df["ID"] == i])
        if partial and n_feat > 1:
            for r in rows:
                for c in cols:
                    if rng.random() < 0.15:
                        df.loc[r, c] = nan
            if k == 1:  # a whole feature missing for this individual
                df.loc[rows, cols[-1]] = nan
        if k in (2, 3) and len(rows) >= 4:  # a whole visit missing
            df.loc[rows[1], cols] = nan
        # keep at least two visits with an observation
        obs = [r for r in rows if df.loc[r, cols].notna().any()]
        for r in rows[:2]:
            if len(obs) < 2 and r not in obs:
                df.loc[r, cols[0]] = 0.5
                obs.append(r)
    return df


def tamper_dataset(ds, fill=None, extra_pad=0):
    """Overwrite what sits under the mask / in padded slots of a built Dataset, and/or append padded visits."""
    import torch
    if ds.values is None:
        return ds
    if extra_pad:
        n, v, f = ds.values.shape
        ds.values = torch.cat([ds.values, torch.zeros(n, extra_pad, f, dtype=ds.values.dtype)], dim=1)
        ds.mask = torch.cat([ds.mask, torch.zeros(n, extra_pad, f, dtype=ds.mask.dtype)], dim=1)
        ds.timepoints = torch.cat([ds.timepoints, torch.zeros(n, extra_pad, dtype=ds.timepoints.dtype)], dim=1)
        ds.n_visits_max = ds.n_visits_max + extra_pad
    if fill is not None:
        ds.values = ds.values.clone()
        ds.values[ds.mask == 0] = fill
        tp = ds.timepoints.clone()
        for i, nv in enumerate(ds.n_visits_per_individual):
            tp[i, nv:] = fill
        ds.timepoints = tp
    return ds


class DatasetTamper:
    def __init__(self, fill=None, extra_pad=0):
        self.fill, self.extra_pad = fill, extra_pad
        self.count = 0

    def __enter__(self):
        from leaspy.io.data.dataset import Dataset
        self.cls = Dataset
        self.orig = Dataset.__init__
        me = self

        def init(ds, *a, **k):
            me.orig(ds, *a, **k)
            if me.fill is not None or me.extra_pad:
                tamper_dataset(ds, me.fill, me.extra_pad)
                me.count += 1
        Dataset.__init__ = init
        return self

    def __exit__(self, *exc):
        self.cls.__init__ = self.orig
        return False


def _plain(v):
    """(tensor to compare, weight or None): raw values of a WeightedTensor are compared where weight != 0 only"""
    import torch
    w = getattr(v, "weight", None)
    x = getattr(v, "value", v)
    if not isinstance(x, torch.Tensor):
        x = torch.as_tensor(x)
    x = x.detach().clone()
    if w is not None:
        x = x.masked_fill(w == 0, 0)
    return x


def fit_record(kind, noise, src, n_feat, df, seed, n_iter=3, tamper=None, personalize=True):
    """Real short fit under `tamper`; returns dict name -> tensor (per-iteration records, final parameters, personalisation)."""
    import torch
    from harness import synth
    rec = {}
    model = synth.make_model(kind, n_feat, src, noise)
    real = model.compute_sufficient_statistics
    it = [0]

    def css(state):
        r = real(state)
        it[0] += 1
        for k in state.dag:
            if k.startswith("nll_attach") and k.endswith("_ind"):
                rec[f"it{it[0]}:{k}"] = _plain(state[k])
        for k, v in r.items():
            rec[f"it{it[0]}:suffstat:{k}"] = _plain(v)
        return r
    model.compute_sufficient_statistics = css
    try:
        with (tamper or contextlib.nullcontext()):
            synth.fit(kind, n_iter=n_iter, seed=seed, df=df, model=model)
            for k, v in model.parameters.items():
                rec[f"param:{k}"] = _plain(v)
            if personalize:
                with warnings.catch_warnings():
                    warnings.simplefilter("ignore")
                    with contextlib.redirect_stdout(io.StringIO()):
                        ips = model.personalize(synth.make_data(df, kind), "scipy_minimize", seed=seed, progress_bar=False,
                                                use_jacobian=False)
                d = ips.to_dataframe().sort_index()
                rec["personalize:scipy_minimize"] = torch.tensor(d.to_numpy(dtype=float))
    finally:
        del model.compute_sufficient_statistics
    return rec, model


def same_bits(a, b):
    import torch
    if a.shape != b.shape:
        return False
    if a.dtype != b.dtype:
        b = b.to(a.dtype)
    if torch.equal(a, b):
        return True
    if a.is_floating_point():
        return bool((a.isnan() == b.isnan()).all()) and torch.equal(a.nan_to_num(0.0, 0.0, 0.0), b.nan_to_num(0.0, 0.0, 0.0)) \
            and bool(((a == math.inf) == (b == math.inf)).all()) and bool(((a == -math.inf) == (b == -math.inf)).all())
    return False


def close(a, b, rel):
    import torch
    if a.shape != b.shape:
        return False
    a, b = a.double(), b.double()
    if not bool((a.isfinite() == b.isfinite()).all()):
        return False
    m = a.isfinite()
    return bool(((a[m] - b[m]).abs() <= rel * (1 + b[m].abs())).all())


def state_quantities(model, dataset, rows=None):
    """Load `dataset` into a clone of the fitted state (individual latent values kept, restricted to `rows`) and read
    nll_attach_ind, the model tensor, the statistics, and the parameters after one M-step (burn_in=False)."""
    st = model.state.clone(disable_auto_fork=True)
    model.put_data_variables(st, dataset)
    if rows is not None:
        for ip in st.dag.individual_variable_names:
            st[ip] = model.state[ip][rows]
    out = {}
    for k in st.dag:
        if k.startswith("nll_attach") and k.endswith("_ind"):
            out[k] = _plain(st[k])
    out["model"] = _plain(st["model"])
    for k in ("n_obs", "n_obs_per_ft", "y_L2", "y_L2_per_ft"):
        if k in st.dag:
            out[k] = _plain(st[k])
    if rows is None:
        suff = model.compute_sufficient_statistics(st)
        for k, v in suff.items():
            out[f"suffstat:{k}"] = _plain(v)
        model.update_parameters(st, suff, burn_in=False)
        from leaspy.variables.specs import ModelParameter
        for k in st.dag.sorted_variables_by_type[ModelParameter]:
            out[f"param:{k}"] = _plain(st[k])
    return out, st


def noise_from_scratch(st):
    """(implementation update, RMS over observed, RMS + model^2 over unobserved entries of real visits) or None"""
    import torch
    if "y" not in st.dag or "noise_std" not in st.dag or "y_x_model" not in st.dag:
        return None
    from leaspy.models.obs_models import FullGaussianObservationModel as G
    y, model = st["y"], st["model"]
    w = y.weight.bool()
    scalar = "n_obs" in st.dag
    rule = G.scalar_noise_std_update if scalar else G.diagonal_noise_std_update
    impl = rule(state=st, y_x_model=st["y_x_model"], model_x_model=st["model_x_model"]).double()
    r2 = ((y.value.double() - model.double()) ** 2).masked_fill(~w, 0.0)
    real_visit = w.any(dim=-1, keepdim=True)
    extra = (model.double() ** 2).masked_fill(w | ~real_visit, 0.0)
    if scalar:
        n = w.sum()
        return dict(scalar=True, impl=impl.reshape(-1), want=(r2.sum() / n).sqrt().reshape(-1),
                    known_cause=((r2.sum() + extra.sum()) / n).sqrt().reshape(-1),
                    partial_visits=int((real_visit & ~w).sum()))
    n = w.sum(dim=(0, 1))
    return dict(scalar=False, impl=impl.reshape(-1), want=(r2.sum(dim=(0, 1)) / n).sqrt(),
                known_cause=((r2.sum(dim=(0, 1)) + extra.sum(dim=(0, 1))) / n).sqrt(),
                partial_visits=int((real_visit & ~w).sum()))


def qclass(k):
    """quantity class used in signatures (site, not the individual statistic)"""
    for p in ("suffstat", "param", "personalize", "nll_attach"):
        if k.startswith(p):
            return p
    return k


def run_config(run, cfg, seed, fills, pads, personalize, n_ind=8):
    import torch
    from harness import synth
    from leaspy.io.data.dataset import Dataset
    kind, noise, src, n_feat = cfg
    base = dict(kind=kind, noise=noise, source_dimension=src, n_feat=n_feat, seed=seed, n_ind=n_ind)
    df = missing_df(kind, seed, n_ind=n_ind, n_feat=n_feat)
    try:
        ref, model = fit_record(kind, noise, src, n_feat, df, seed, personalize=personalize)
    except Exception as e:  # the untampered run itself fails: not this property
        run.count("skipped", f"{kind}/{noise}: {type(e).__name__}")
        run.log(f"reference run failed for {kind}/{noise}: {type(e).__name__}: {e}")
        return
    run.count("kind", kind)
    # (a) garbage under the mask: bit-identical
    for fill in fills:
        inp = dict(base, scenario="garbage", fill=repr(fill))
        try:
            got, _ = fit_record(kind, noise, src, n_feat, df, seed, tamper=DatasetTamper(fill=fill), personalize=personalize)
        except Exception as e:
            run.case(("garbage", kind, noise, src, seed, repr(fill), "raises"))
            run.fail(f"garbage-under-mask:raises:{type(e).__name__}", f"{kind}: fit/personalize raised {type(e).__name__}: {e} with fill {fill!r} under the mask",
                     inp)
            continue
        run.count("fill", repr(fill))
        for k, v in ref.items():
            q = qclass(k.split(":", 1)[1] if k.startswith("it") else k)
            run.case(("garbage", kind, noise, src, seed, repr(fill), k))
            run.count("oracle", "garbage-under-mask")
            if k not in got or not same_bits(v, got[k]):
                d = None if k not in got or got[k].shape != v.shape else float((got[k].double() - v.double()).abs().nan_to_num(math.inf).max())
                run.fail(f"garbage-under-mask:{q}", f"{kind}/{noise}: {k} changes when masked entries / padded slots hold {fill!r} (max abs diff {d})",
                         dict(inp, quantity=k), expected="bit-identical to the zero-filled run", observed=f"max abs diff {d}")
    # fixed-state comparisons on the fitted state
    data = synth.make_data(df, kind)
    ds0 = Dataset(data)
    try:
        q0, st0 = state_quantities(model, ds0)
    except Exception as e:
        run.count("skipped", f"state:{kind}/{noise}: {type(e).__name__}")
        run.log(f"state evaluation failed for {kind}/{noise}: {type(e).__name__}: {e}")
        return
    nv = ds0.n_visits_per_individual
    real = torch.zeros_like(ds0.mask, dtype=torch.bool)
    for i, k in enumerate(nv):
        real[i, :k] = True
    if bool((q0["model"][~real] != 0).any()):
        run.fail("model:nonzero-at-padding", f"{kind}: model tensor is not 0 at padded visits", dict(base, scenario="model-zero"))
    run.case(("model-zero", kind, noise, src, seed))
    # (b) amount of padding (+ NaN garbage in the new slots): 1e-6 relative, counts exact
    for pad, fill in pads:
        inp = dict(base, scenario="padding", extra_pad=pad, fill=repr(fill))
        ds = tamper_dataset(Dataset(data), fill=fill, extra_pad=pad)
        try:
            q, _ = state_quantities(model, ds)
        except Exception as e:
            run.fail(f"padding-amount:raises:{type(e).__name__}", f"{kind}: {type(e).__name__}: {e} with {pad} extra padded visits", inp)
            continue
        for k, v in q0.items():
            run.case(("padding", kind, noise, src, seed, pad, repr(fill), k))
            run.count("oracle", "padding-amount")
            g = q[k]
            if k == "model":
                ok = close(v, g[:, :v.shape[1]], 1e-6) and bool((g[:, v.shape[1]:] == 0).all())
            elif k.startswith("suffstat:") and g.shape != v.shape and g.ndim == 3:
                ok = close(v, g[:, :v.shape[1]], 1e-6)
            elif k.startswith("n_obs"):
                ok = same_bits(v, g)
            else:
                ok = close(v, g, 1e-6)
            if not ok:
                run.fail(f"padding-amount:{qclass(k)}", f"{kind}/{noise}: {k} changes with {pad} extra padded visits (fill {fill!r})", dict(inp, quantity=k))
    # (e) hiding one feature of a fully observed visit must not change the model at the other entries of that visit
    if n_feat > 1:
        ds = Dataset(data)
        hidden = 0
        for i in range(ds.n_individuals):
            for j in range(nv[i]):
                if bool((ds.mask[i, j] == 1).all()):
                    ds.mask[i, j, 0] = 0
                    hidden += 1
                    break
        if hidden:
            inp = dict(base, scenario="hide-one-feature")
            try:
                q, _ = state_quantities(model, ds)
                keep = ds.mask.bool()
                run.case(("hide-one-feature", kind, noise, src, seed))
                run.count("oracle", "hide-one-feature")
                if not torch.equal(q["model"][keep], q0["model"][keep]):
                    d = float((q["model"][keep] - q0["model"][keep]).abs().max())
                    run.fail("model-at-observed:depends-on-other-missing-entries", f"{kind}/{noise}: the model at observed entries changes (max {d}) when "
                             "another feature of the same visit becomes missing", inp)
            except Exception as e:
                run.fail(f"hide-one-feature:raises:{type(e).__name__}", f"{kind}: {type(e).__name__}: {e}", inp)
    # (c) one individual alone against its row in the batch
    for i in [j for j in (1, 2, 3) if j < ds0.n_individuals]:
        inp = dict(base, scenario="alone", individual=i)
        ds1 = Dataset(data[[ds0.indices[i]]])
        try:
            q1, _ = state_quantities(model, ds1, rows=slice(i, i + 1))
        except Exception as e:
            run.count("skipped", f"alone:{kind}: {type(e).__name__}")
            continue
        for k, v in q1.items():
            if k.startswith("n_obs") or k.startswith("y_L2"):
                continue
            run.case(("alone", kind, noise, src, seed, i, k))
            run.count("oracle", "batch-vs-alone")
            b = q0[k][i:i + 1]
            if k == "model":
                b = b[:, :v.shape[1]]
            if not close(v, b, 1e-5):
                run.fail(f"batch-vs-alone:{qclass(k)}", f"{kind}/{noise}: {k} of individual {i} alone differs from its row in the batch", dict(inp, quantity=k))
    # (d) noise estimate from scratch, counts
    for partial in (True, False):
        inp = dict(base, scenario="noise", partial_visits=partial)
        if partial:
            st, ds = st0, ds0
        else:
            dfw = missing_df(kind, seed, n_ind=n_ind, n_feat=n_feat, partial=False)
            ds = Dataset(synth.make_data(dfw, kind))
            if ds.n_individuals != ds0.n_individuals:
                continue
            try:
                _, st = state_quantities(model, ds)
            except Exception as e:
                run.count("skipped", f"noise-whole-visits:{kind}: {type(e).__name__}")
                continue
        for k, want in (("n_obs", ds.mask.sum()), ("n_obs_per_ft", ds.mask.sum(dim=(0, 1)))):
            if k in st.dag:
                run.case(("counts", kind, noise, seed, partial, k))
                run.count("oracle", "counts")
                if not torch.equal(st[k].double().reshape(-1), want.double().reshape(-1)):
                    run.fail(f"counts:{k}", f"{kind}: {k} = {st[k].tolist()} is not the number of observed entries {want.tolist()}", dict(inp, quantity=k))
        r = noise_from_scratch(st)
        if r is None:
            continue
        run.case(("noise", kind, noise, src, seed, partial))
        run.count("oracle", "noise-from-scratch")
        rel = lambda a, b: float(((a - b).abs() / (1e-12 + b.abs())).max())  # noqa: E731
        if rel(r["impl"], r["want"]) > 1e-4:
            shape = "scalar" if r["scalar"] else "diagonal"
            known = r["scalar"] and r["partial_visits"] > 0 and rel(r["impl"], r["known_cause"]) <= 1e-4
            sig = "scalar-noise:model-sq-over-unobserved" if known else f"noise-update:not-observed-rms:{shape}"
            run.fail(sig, f"{kind}: {shape} noise update {r['impl'].tolist()} is not the RMS residual over observed entries {r['want'].tolist()}"
                          f" ({r['partial_visits']} unobserved entries in real visits)", inp,
                     expected=r["want"].tolist(), observed=r["impl"].tolist())
    return True


def run_oracle(run, thorough=False):
    fills = FILLS
    pads = [(1, None), (5, float("nan"))] if not thorough else [(1, None), (3, 7.5), (5, float("nan")), (2, float("inf"))]
    seeds = [run.seed % 997] if not thorough else [run.seed % 997, run.seed % 997 + 1, run.seed % 997 + 2]
    for ci, cfg in enumerate(CONFIGS):
        for seed in seeds:
            f = fills if (thorough or ci < 3) else [float("nan"), 1e30]
            run_config(run, cfg, seed, f, pads, personalize=(thorough or ci in (0, 2)), n_ind=8 if not thorough else 12)
    run.sample(dict(kind="pipeline-oracle", configs=[list(c) for c in CONFIGS], fills=[repr(f) for f in fills], pads=[list(map(repr, p)) for p in pads]))


def put_data_tie(run, n):
    """T2 for put_data_variables: weights of `t` and `y` produced by the real method on random masks, compared inside Coq
    with Masked/Pipeline.v put_t / put_y."""
    import types
    import torch
    from harness import synth
    model = synth.make_model("logistic", 3, None, "gaussian-scalar")
    cases, meta = [], []
    for c in range(n):
        r = run.rng("put-data", c)
        ni, nvis, nf = r.randint(1, 3), r.randint(1, 4), r.randint(1, 3)
        p = r.choice([0.2, 0.5, 0.8])
        mask = torch.tensor([[[0.0 if r.random() < p else 1.0 for _ in range(nf)] for _ in range(nvis)] for _ in range(ni)])
        ds = types.SimpleNamespace(values=torch.zeros(ni, nvis, nf), mask=mask, timepoints=torch.zeros(ni, nvis))
        st = {}
        type(model).put_data_variables(model, st, ds)
        tw, yw = st["t"].weight, st["y"].weight
        run.case(("put-data", ni, nvis, nf, tuple(mask.reshape(-1).tolist())), nontrivial=bool((mask == 0).any()))
        run.count("oracle", "put-data-tie")
        lst = lambda xs: "[" + "; ".join(f"{int(x)}%N" for x in xs) + "]"  # noqa: E731
        cases.append(f"([{nf}; {nvis}; {ni}], {lst(mask.reshape(-1).tolist())}, {lst(tw.reshape(-1).tolist())}, {lst(yw.reshape(-1).tolist())}, "
                     f"[{'; '.join(str(int(x)) for x in reversed(tw.shape))}])")
        meta.append(dict(scenario="put-data", mask=mask.tolist(), t_weight=tw.tolist()))
    hdr = ("From Coq Require Import List NArith ZArith Bool.\nFrom Leaspy Require Import Base.Atoms Masked.Weighted Masked.Pipeline.\n"
           "Import ListNotations.\n")
    chk = ("(fun c => match c with (rs, m, tw, yw, ts) => let mk := of_flat 0%N rs m in "
           "list_eqb N.eqb (to_flat (mask_any_ft mk)) tw && shape_eqb (shape (mask_any_ft mk)) ts && "
           "list_eqb N.eqb (to_flat (tmap to_bool_weight mk)) yw end)")
    bad = run.vm_bad_indices("putdata", hdr, "list nat * list N * list N * list N * list nat", cases, chk)
    for b in bad or []:
        run.fail("put-data-variables:weights-differ-from-model", "weights given to t / y by put_data_variables differ from t <- mask.any(feature), y <- mask",
                 meta[b])
