"""C06 — metamorphic oracles on the real pipeline (reusable helpers: C04 may import them).

* `missing_df`          cohort with missing entries, whole features / whole visits missing for some individuals
* `DatasetTamper`       context manager wrapping `Dataset.__init__` (this process only): garbage under the mask /
                        in padded slots, extra padded visits
* `fit_record`          short real fit recording, per iteration, nll_attach_ind and every sufficient statistic
* `state_quantities`    nll_attach_ind, statistics and one M-step on a clone of a fitted state loaded with a dataset
* `noise_from_scratch`  the documented noise estimator recomputed from y / model of a state
* `noise_on_code` / `noise_tie`  T2 for the two noise update rules: the real statistics + update rule on small exact inputs,
                        the variance handed to compute_std_from_variance compared inside Coq with Masked/Pipeline.v
"""
from __future__ import annotations

import contextlib
import io
import math
import warnings

FILLS = [0.0, 7.5, 1e30, float("nan"), float("inf")]
CONFIGS = [  # kind, noise, source_dimension, n_feat
    ("logistic", "gaussian-scalar", None, 3),
    ("logistic", "gaussian-diagonal", 1, 3),
    ("linear", "gaussian-diagonal", 1, 3),
    ("linear", "gaussian-scalar", None, 2),
    ("shared_speed_logistic", "gaussian-scalar", None, 3),
    ("joint", None, None, 1),
    ("mixture_logistic", "gaussian-diagonal", 2, 3),
]


def missing_df(kind, seed, n_ind=8, n_feat=3, partial=True):
    """Synthetic cohort; `partial=False` removes only whole visits (no visit with some but not all features)."""
    import random
    from harness import synth
    df = synth.make_df(n_ind=n_ind, n_feat=n_feat, seed=seed, missing=0.0, joint=(kind == "joint"), kind=kind, visits=(3, 6))
    rng = random.Random(seed * 31 + 7)
    cols = [c for c in df.columns if c.startswith("Y")]
    ids = list(dict.fromkeys(df["ID"]))
    nan = float("nan")
    for k, i in enumerate(ids):
        rows = list(df.index[df["ID"] == i])
        if partial and n_feat > 1:
            for r in rows:
                for c in cols:
                    if rng.random() < 0.15:
                        df.loc[r, c] = nan
            if k == 1:  # a whole feature missing for this individual
                df.loc[rows, cols[-1]] = nan
        if k in (2, 3) and len(rows) >= 4:  # a whole visit missing
            df.loc[rows[1], cols] = nan
        # keep at least two visits with an observation
        obs = [r for r in rows if df.loc[r, cols].notna().any()]
        for r in rows[:2]:
            if len(obs) < 2 and r not in obs:
                df.loc[r, cols[0]] = 0.5
                obs.append(r)
    return df


def tamper_dataset(ds, fill=None, extra_pad=0):
    """Overwrite what sits under the mask / in padded slots of a built Dataset, and/or append padded visits."""
    import torch
    if ds.values is None:
        return ds
    if extra_pad:
        n, v, f = ds.values.shape
        ds.values = torch.cat([ds.values, torch.zeros(n, extra_pad, f, dtype=ds.values.dtype)], dim=1)
        ds.mask = torch.cat([ds.mask, torch.zeros(n, extra_pad, f, dtype=ds.mask.dtype)], dim=1)
        ds.timepoints = torch.cat([ds.timepoints, torch.zeros(n, extra_pad, dtype=ds.timepoints.dtype)], dim=1)
        ds.n_visits_max = ds.n_visits_max + extra_pad
    if fill is not None:
        ds.values = ds.values.clone()
        ds.values[ds.mask == 0] = fill
        tp = ds.timepoints.clone()
        for i, nv in enumerate(ds.n_visits_per_individual):
            tp[i, nv:] = fill
        ds.timepoints = tp
    return ds


class DatasetTamper:
    def __init__(self, fill=None, extra_pad=0):
        self.fill, self.extra_pad = fill, extra_pad
        self.count = 0

    def __enter__(self):
        from leaspy.io.data.dataset import Dataset
        self.cls = Dataset
        self.orig = Dataset.__init__
        me = self

        def init(ds, *a, **k):
            me.orig(ds, *a, **k)
            if me.fill is not None or me.extra_pad:
                tamper_dataset(ds, me.fill, me.extra_pad)
                me.count += 1
        Dataset.__init__ = init
        return self

    def __exit__(self, *exc):
        self.cls.__init__ = self.orig
        return False


def _plain(v):
    """(tensor to compare, weight or None): raw values of a WeightedTensor are compared where weight != 0 only"""
    import torch
    w = getattr(v, "weight", None)
    x = getattr(v, "value", v)
    if not isinstance(x, torch.Tensor):
        x = torch.as_tensor(x)
    x = x.detach().clone()
    if w is not None:
        x = x.masked_fill(w == 0, 0)
    return x


def fit_record(kind, noise, src, n_feat, df, seed, n_iter=3, tamper=None, personalize=True):
    """Real short fit under `tamper`; returns dict name -> tensor (per-iteration records, final parameters, personalisation)."""
    import torch
    from harness import synth
    rec = {}
    model = synth.make_model(kind, n_feat, src, noise)
    real = model.compute_sufficient_statistics
    it = [0]

    def css(state):
        r = real(state)
        it[0] += 1
        for k in state.dag:
            if k.startswith("nll_attach") and k.endswith("_ind"):
                rec[f"it{it[0]}:{k}"] = _plain(state[k])
        for k, v in r.items():
            rec[f"it{it[0]}:suffstat:{k}"] = _plain(v)
        return r
    model.compute_sufficient_statistics = css
    try:
        with (tamper or contextlib.nullcontext()):
            synth.fit(kind, n_iter=n_iter, seed=seed, df=df, model=model)
            for k, v in model.parameters.items():
                rec[f"param:{k}"] = _plain(v)
            if personalize:
                with warnings.catch_warnings():
                    warnings.simplefilter("ignore")
                    with contextlib.redirect_stdout(io.StringIO()):
                        ips = model.personalize(synth.make_data(df, kind), "scipy_minimize", seed=seed, progress_bar=False,
                                                use_jacobian=False)
                d = ips.to_dataframe().sort_index()
                rec["personalize:scipy_minimize"] = torch.tensor(d.to_numpy(dtype=float))
    finally:
        del model.compute_sufficient_statistics
    return rec, model


def same_bits(a, b):
    import torch
    if a.shape != b.shape:
        return False
    if a.dtype != b.dtype:
        b = b.to(a.dtype)
    if torch.equal(a, b):
        return True
    if a.is_floating_point():
        return bool((a.isnan() == b.isnan()).all()) and torch.equal(a.nan_to_num(0.0, 0.0, 0.0), b.nan_to_num(0.0, 0.0, 0.0)) \
            and bool(((a == math.inf) == (b == math.inf)).all()) and bool(((a == -math.inf) == (b == -math.inf)).all())
    return False


def close(a, b, rel):
    import torch
    if a.shape != b.shape:
        return False
    a, b = a.double(), b.double()
    if not bool((a.isfinite() == b.isfinite()).all()):
        return False
    m = a.isfinite()
    return bool(((a[m] - b[m]).abs() <= rel * (1 + b[m].abs())).all())


def state_quantities(model, dataset, rows=None):
    """Load `dataset` into a clone of the fitted state (individual latent values kept, restricted to `rows`) and read
    nll_attach_ind, the model tensor, the statistics, and the parameters after one M-step (burn_in=False)."""
    st = model.state.clone(disable_auto_fork=True)
    model.put_data_variables(st, dataset)
    if rows is not None:
        for ip in st.dag.individual_variable_names:
            st[ip] = model.state[ip][rows]
    out = {}
    for k in st.dag:
        if k.startswith("nll_attach") and k.endswith("_ind"):
            out[k] = _plain(st[k])
    out["model"] = _plain(st["model"])
    for k in ("n_obs", "n_obs_per_ft", "y_L2", "y_L2_per_ft"):
        if k in st.dag:
            out[k] = _plain(st[k])
    if rows is None:
        suff = model.compute_sufficient_statistics(st)
        for k, v in suff.items():
            out[f"suffstat:{k}"] = _plain(v)
        model.update_parameters(st, suff, burn_in=False)
        from leaspy.variables.specs import ModelParameter
        for k in st.dag.sorted_variables_by_type[ModelParameter]:
            out[f"param:{k}"] = _plain(st[k])
    return out, st


def noise_from_scratch(st):
    """(implementation update, RMS over observed, RMS + model^2 over unobserved entries of real visits) or None"""
    import torch
    if "y" not in st.dag or "noise_std" not in st.dag or "y_x_model" not in st.dag:
        return None
    from leaspy.models.obs_models import FullGaussianObservationModel as G
    y, model = st["y"], st["model"]
    w = y.weight.bool()
    scalar = "n_obs" in st.dag
    rule = G.scalar_noise_std_update if scalar else G.diagonal_noise_std_update
    impl = rule(state=st, y_x_model=st["y_x_model"], model_x_model=st["model_x_model"]).double()
    r2 = ((y.value.double() - model.double()) ** 2).masked_fill(~w, 0.0)
    real_visit = w.any(dim=-1, keepdim=True)
    extra = (model.double() ** 2).masked_fill(w | ~real_visit, 0.0)
    if scalar:
        n = w.sum()
        return dict(scalar=True, impl=impl.reshape(-1), want=(r2.sum() / n).sqrt().reshape(-1),
                    known_cause=((r2.sum() + extra.sum()) / n).sqrt().reshape(-1),
                    partial_visits=int((real_visit & ~w).sum()))
    n = w.sum(dim=(0, 1))
    return dict(scalar=False, impl=impl.reshape(-1), want=(r2.sum(dim=(0, 1)) / n).sqrt(),
                known_cause=((r2.sum(dim=(0, 1)) + extra.sum(dim=(0, 1))) / n).sqrt(),
                partial_visits=int((real_visit & ~w).sum()))


def qclass(k):
    """quantity class used in signatures (site, not the individual statistic)"""
    for p in ("suffstat", "param", "personalize", "nll_attach"):
        if k.startswith(p):
            return p
    return k


def run_config(run, cfg, seed, fills, pads, personalize, n_ind=8):
    import torch
    from harness import synth
    from leaspy.io.data.dataset import Dataset
    kind, noise, src, n_feat = cfg
    base = dict(kind=kind, noise=noise, source_dimension=src, n_feat=n_feat, seed=seed, n_ind=n_ind)
    df = missing_df(kind, seed, n_ind=n_ind, n_feat=n_feat)
    try:
        ref, model = fit_record(kind, noise, src, n_feat, df, seed, personalize=personalize)
    except Exception as e:  # the untampered run itself fails: not this property
        run.count("skipped", f"{kind}/{noise}: {type(e).__name__}")
        run.log(f"reference run failed for {kind}/{noise}: {type(e).__name__}: {e}")
        return
    run.count("kind", kind)
    # (a) garbage under the mask: bit-identical
    for fill in fills:
        inp = dict(base, scenario="garbage", fill=repr(fill))
        try:
            got, _ = fit_record(kind, noise, src, n_feat, df, seed, tamper=DatasetTamper(fill=fill), personalize=personalize)
        except Exception as e:
            run.case(("garbage", kind, noise, src, seed, repr(fill), "raises"))
            run.fail(f"garbage-under-mask:raises:{type(e).__name__}", f"{kind}: fit/personalize raised {type(e).__name__}: {e} with fill {fill!r} under the mask",
                     inp)
            continue
        run.count("fill", repr(fill))
        for k, v in ref.items():
            q = qclass(k.split(":", 1)[1] if k.startswith("it") else k)
            run.case(("garbage", kind, noise, src, seed, repr(fill), k))
            run.count("oracle", "garbage-under-mask")
            if k not in got or not same_bits(v, got[k]):
                d = None if k not in got or got[k].shape != v.shape else float((got[k].double() - v.double()).abs().nan_to_num(math.inf).max())
                run.fail(f"garbage-under-mask:{q}", f"{kind}/{noise}: {k} changes when masked entries / padded slots hold {fill!r} (max abs diff {d})",
                         dict(inp, quantity=k), expected="bit-identical to the zero-filled run", observed=f"max abs diff {d}")
    # fixed-state comparisons on the fitted state
    data = synth.make_data(df, kind)
    ds0 = Dataset(data)
    try:
        q0, st0 = state_quantities(model, ds0)
    except Exception as e:
        run.count("skipped", f"state:{kind}/{noise}: {type(e).__name__}")
        run.log(f"state evaluation failed for {kind}/{noise}: {type(e).__name__}: {e}")
        return
    nv = ds0.n_visits_per_individual
    real = torch.zeros_like(ds0.mask, dtype=torch.bool)
    for i, k in enumerate(nv):
        real[i, :k] = True
    if bool((q0["model"][~real] != 0).any()):
        run.fail("model:nonzero-at-padding", f"{kind}: model tensor is not 0 at padded visits", dict(base, scenario="model-zero"))
    run.case(("model-zero", kind, noise, src, seed))
    # (b) amount of padding (+ NaN garbage in the new slots): 1e-6 relative, counts exact
    for pad, fill in pads:
        inp = dict(base, scenario="padding", extra_pad=pad, fill=repr(fill))
        ds = tamper_dataset(Dataset(data), fill=fill, extra_pad=pad)
        try:
            q, _ = state_quantities(model, ds)
        except Exception as e:
            run.fail(f"padding-amount:raises:{type(e).__name__}", f"{kind}: {type(e).__name__}: {e} with {pad} extra padded visits", inp)
            continue
        for k, v in q0.items():
            run.case(("padding", kind, noise, src, seed, pad, repr(fill), k))
            run.count("oracle", "padding-amount")
            g = q[k]
            if k == "model":
                ok = close(v, g[:, :v.shape[1]], 1e-6) and bool((g[:, v.shape[1]:] == 0).all())
            elif k.startswith("suffstat:") and g.shape != v.shape and g.ndim == 3:
                ok = close(v, g[:, :v.shape[1]], 1e-6)
            elif k.startswith("n_obs"):
                ok = same_bits(v, g)
            else:
                ok = close(v, g, 1e-6)
            if not ok:
                run.fail(f"padding-amount:{qclass(k)}", f"{kind}/{noise}: {k} changes with {pad} extra padded visits (fill {fill!r})", dict(inp, quantity=k))
    # (e) hiding one feature of a fully observed visit must not change the model at the other entries of that visit
    if n_feat > 1:
        ds = Dataset(data)
        hidden = 0
        for i in range(ds.n_individuals):
            for j in range(nv[i]):
                if bool((ds.mask[i, j] == 1).all()):
                    ds.mask[i, j, 0] = 0
                    hidden += 1
                    break
        if hidden:
            inp = dict(base, scenario="hide-one-feature")
            try:
                q, _ = state_quantities(model, ds)
                keep = ds.mask.bool()
                run.case(("hide-one-feature", kind, noise, src, seed))
                run.count("oracle", "hide-one-feature")
                if not torch.equal(q["model"][keep], q0["model"][keep]):
                    d = float((q["model"][keep] - q0["model"][keep]).abs().max())
                    run.fail("model-at-observed:depends-on-other-missing-entries", f"{kind}/{noise}: the model at observed entries changes (max {d}) when "
                             "another feature of the same visit becomes missing", inp)
            except Exception as e:
                run.fail(f"hide-one-feature:raises:{type(e).__name__}", f"{kind}: {type(e).__name__}: {e}", inp)
    # (c) one individual alone against its row in the batch
    for i in [j for j in (1, 2, 3) if j < ds0.n_individuals]:
        inp = dict(base, scenario="alone", individual=i)
        ds1 = Dataset(data[[ds0.indices[i]]])
        try:
            q1, _ = state_quantities(model, ds1, rows=slice(i, i + 1))
        except Exception as e:
            run.count("skipped", f"alone:{kind}: {type(e).__name__}")
            continue
        for k, v in q1.items():
            if k.startswith("n_obs") or k.startswith("y_L2"):
                continue
            run.case(("alone", kind, noise, src, seed, i, k))
            run.count("oracle", "batch-vs-alone")
            b = q0[k][i:i + 1]
            if k == "model":
                b = b[:, :v.shape[1]]
            if not close(v, b, 1e-5):
                run.fail(f"batch-vs-alone:{qclass(k)}", f"{kind}/{noise}: {k} of individual {i} alone differs from its row in the batch", dict(inp, quantity=k))
    # (d) noise estimate from scratch, counts
    for partial in (True, False):
        inp = dict(base, scenario="noise", partial_visits=partial)
        if partial:
            st, ds = st0, ds0
        else:
            dfw = missing_df(kind, seed, n_ind=n_ind, n_feat=n_feat, partial=False)
            ds = Dataset(synth.make_data(dfw, kind))
            if ds.n_individuals != ds0.n_individuals:
                continue
            try:
                _, st = state_quantities(model, ds)
            except Exception as e:
                run.count("skipped", f"noise-whole-visits:{kind}: {type(e).__name__}")
                continue
        for k, want in (("n_obs", ds.mask.sum()), ("n_obs_per_ft", ds.mask.sum(dim=(0, 1)))):
            if k in st.dag:
                run.case(("counts", kind, noise, seed, partial, k))
                run.count("oracle", "counts")
                if not torch.equal(st[k].double().reshape(-1), want.double().reshape(-1)):
                    run.fail(f"counts:{k}", f"{kind}: {k} = {st[k].tolist()} is not the number of observed entries {want.tolist()}", dict(inp, quantity=k))
        r = noise_from_scratch(st)
        if r is None:
            continue
        run.case(("noise", kind, noise, src, seed, partial))
        run.count("oracle", "noise-from-scratch")
        rel = lambda a, b: float(((a - b).abs() / (1e-12 + b.abs())).max())  # noqa: E731
        if rel(r["impl"], r["want"]) > 1e-4:
            shape = "scalar" if r["scalar"] else "diagonal"
            known = r["scalar"] and r["partial_visits"] > 0 and rel(r["impl"], r["known_cause"]) <= 1e-4
            sig = "scalar-noise:model-sq-over-unobserved" if known else f"noise-update:not-observed-rms:{shape}"
            run.fail(sig, f"{kind}: {shape} noise update {r['impl'].tolist()} is not the RMS residual over observed entries {r['want'].tolist()}"
                          f" ({r['partial_visits']} unobserved entries in real visits)", inp,
                     expected=r["want"].tolist(), observed=r["impl"].tolist())
    return True


def run_oracle(run, thorough=False):
    fills = FILLS
    pads = [(1, None), (5, float("nan"))] if not thorough else [(1, None), (3, 7.5), (5, float("nan")), (2, float("inf"))]
    seeds = [run.seed % 997] if not thorough else [run.seed % 997, run.seed % 997 + 1, run.seed % 997 + 2]
    for ci, cfg in enumerate(CONFIGS):
        for seed in seeds:
            f = fills if (thorough or ci < 3) else [float("nan"), 1e30]
            run_config(run, cfg, seed, f, pads, personalize=(thorough or ci in (0, 2)), n_ind=8 if not thorough else 12)
    run.sample(dict(kind="pipeline-oracle", configs=[list(c) for c in CONFIGS], fills=[repr(f) for f in fills], pads=[list(map(repr, p)) for p in pads]))


def put_data_tie(run, n):
    """T2 for put_data_variables: weights of `t` and `y` produced by the real method on random masks, compared inside Coq
    with Masked/Pipeline.v put_t / put_y."""
    import types
    import torch
    from harness import synth
    model = synth.make_model("logistic", 3, None, "gaussian-scalar")
    cases, meta = [], []
    for c in range(n):
        r = run.rng("put-data", c)
        ni, nvis, nf = r.randint(1, 3), r.randint(1, 4), r.randint(1, 3)
        p = r.choice([0.2, 0.5, 0.8])
        # like a real Dataset: individual i has n_real[i] visits, the slots after them are padding (mask 0); a real visit may
        # have every feature missing (it is kept by the reader with drop_full_nan=False)
        n_real = [r.randint(1, nvis) for _ in range(ni)]
        n_real[r.randrange(ni)] = nvis
        mask = torch.tensor([[[0.0 if (v >= n_real[i] or r.random() < p) else 1.0 for _ in range(nf)] for v in range(nvis)] for i in range(ni)])
        ds = types.SimpleNamespace(values=torch.zeros(ni, nvis, nf), mask=mask, timepoints=torch.zeros(ni, nvis),
                                   n_visits_per_individual=list(n_real), n_visits_max=nvis, n_visits=sum(n_real), n_individuals=ni,
                                   dimension=nf, indices=[str(i) for i in range(ni)], headers=[f"Y{j}" for j in range(nf)],
                                   n_observations=int(mask.sum().item()), n_observations_per_ft=mask.sum(dim=(0, 1)).to(torch.int64),
                                   event_time=None, event_bool=None, covariates=None)
        st = {}
        type(model).put_data_variables(model, st, ds)
        tw, yw = st["t"].weight, st["y"].weight
        run.case(("put-data", ni, nvis, nf, tuple(mask.reshape(-1).tolist())), nontrivial=bool((mask == 0).any()))
        run.count("oracle", "put-data-tie")
        lst = lambda xs: "[" + "; ".join(f"{int(x)}%N" for x in xs) + "]"  # noqa: E731
        cases.append(f"([{nf}; {nvis}; {ni}], {lst(mask.reshape(-1).tolist())}, {lst(tw.reshape(-1).tolist())}, {lst(yw.reshape(-1).tolist())}, "
                     f"[{'; '.join(str(int(x)) for x in reversed(tw.shape))}])")
        meta.append(dict(scenario="put-data", mask=mask.tolist(), t_weight=tw.tolist()))
    hdr = ("From Coq Require Import List NArith ZArith Bool.\nFrom Leaspy Require Import Base.Atoms Masked.Weighted Masked.Pipeline.\n"
           "Import ListNotations.\n")
    chk = ("(fun c => match c with (rs, m, tw, yw, ts) => let mk := of_flat 0%N rs m in "
           "list_eqb N.eqb (to_flat (mask_any_ft mk)) tw && shape_eqb (shape (mask_any_ft mk)) ts && "
           "list_eqb N.eqb (to_flat (tmap to_bool_weight mk)) yw end)")
    bad = run.vm_bad_indices("putdata", hdr, "list nat * list N * list N * list N * list nat", cases, chk)
    for b in bad or []:
        run.fail("put-data-variables:weights-differ-from-model", "weights given to t / y by put_data_variables differ from t <- mask.any(feature), y <- mask",
                 meta[b])


# ----------------------------------------------------------------------------- T2 for the noise update rules

F3 = "scalar-noise:model-sq-over-unobserved"
# witness of the former scalar rule (known_findings.jsonl, F3): 2 individuals x 1 visit x 2 features, y[0,0,1] missing
WITNESS = dict(y=[[[1.0, None]], [[2.0, 3.0]]], model=[[[1.0, 5.0]], [[2.0, 3.0]]])
NOISE_HDR = ("From Coq Require Import List NArith ZArith QArith Bool.\nFrom Leaspy Require Import Base.Atoms Masked.Weighted Masked.Pipeline.\n"
             "Import ListNotations.\nLocal Close Scope Q_scope.\n")
NOISE_TYPE = "bool * list nat * list atom * list N * list atom * list nat * list atom"


def noise_on_code(values, mask, model, diagonal):
    """The REAL wiring of FullGaussianObservationModel.with_noise_std_as_model_parameter(dim): y = y_getter(dataset), the
    state statistics (y_L2, n_obs | y_L2_per_ft, n_obs_per_ft), the collected sufficient statistics (y_x_model, model_x_model)
    and the update rule.  `compute_std_from_variance` is wrapped (this process only) to record the variance it receives.
    Returns ("V", float64 tensor) or ("X", exception class name)."""
    import types
    import torch
    import leaspy.models.obs_models._gaussian as gm
    om = gm.FullGaussianObservationModel.with_noise_std_as_model_parameter(2 if diagonal else 1)
    ds = types.SimpleNamespace(values=values, mask=mask)
    seen = []
    orig = gm.compute_std_from_variance

    def recorder(variance, *a, **k):
        seen.append(variance.detach().clone())
        return orig(variance, *a, **k)
    gm.compute_std_from_variance = recorder
    try:
        st = {"y": om.getter(ds), "model": model}
        ns = om.extra_vars["noise_std"]
        for k, v in om.extra_vars.items():
            if k != "noise_std":
                st[k] = v.compute(st)
        for k, v in ns.suff_stats.dedicated_variables.items():
            st[k] = v.compute(st)
        try:
            ns.update_rule(state=st, **ns.suff_stats(st))
        except Exception as e:  # noqa: BLE001  (variance below tolerance -> LeaspyConvergenceError, after the variance was recorded)
            if not seen:
                return ("X", type(e).__name__)
    except Exception as e:  # noqa: BLE001
        return ("X", type(e).__name__)
    finally:
        gm.compute_std_from_variance = orig
    if len(seen) != 1:
        return ("X", f"compute_std_from_variance called {len(seen)} times")
    return ("V", seen[0].double())


def _former_scalar_rule(values, mask, model):
    """what the scalar rule computed before the repair: model^2 summed over EVERY entry (float64)"""
    w = mask.bool()
    y0 = values.masked_fill(~w, 0.0)
    return ((y0 ** 2).sum() - 2 * (y0 * model.masked_fill(~w, 0.0)).sum() + (model ** 2).sum()) / w.sum().double()


def noise_case_tensors(inp):
    """tensors of a recorded input: scenario "witness" (None = missing) or "noise-tie" (values / mask / model given)"""
    import torch
    from harness.props.c06_api import unjson
    if "mask" in inp:
        return (torch.tensor(unjson(inp["values"]), dtype=torch.float64), torch.tensor(inp["mask"], dtype=torch.float64),
                torch.tensor(unjson(inp["model"]), dtype=torch.float64))
    y = torch.tensor([[[float("nan") if x is None else float(x) for x in v] for v in i] for i in inp["y"]], dtype=torch.float64)
    return y, (~y.isnan()).double(), torch.tensor(inp["model"], dtype=torch.float64)


def noise_coq_case(values, mask, model, diagonal, var):
    from harness.props.c06_api import atom, lst, nats, ns, rshape
    return (f"({'true' if diagonal else 'false'}, {rshape(values.shape)}, {lst(atom(x) for x in values.reshape(-1).tolist())}, "
            f"{ns(mask.reshape(-1).tolist())}, {lst(atom(x) for x in model.reshape(-1).tolist())}, {rshape(var.shape)}, "
            f"{lst(atom(x) for x in var.reshape(-1).tolist())})")


def noise_tie(run, n, only=None):
    """T2 for scalar_noise_std_update / diagonal_noise_std_update: the variance computed by the real rule (float64 inputs on which every
    operation but the final division is exact) against Masked/Pipeline.v noise_var_scalar / noise_var_diagonal, inside Coq.
    `only` = list of recorded inputs to re-run instead of the generated cases (replay)."""
    import torch
    from harness.props.c06_api import jsonable
    obs_vals = [k / 2 for k in range(-6, 7)]
    garbage = [0.0, 7.5, -2.0, 1e30, float("nan"), float("inf"), float("-inf")]
    todo = []  # (input dict, values, mask, model, diagonal)
    if only is not None:
        for inp in only:
            v, m, mod = noise_case_tensors(inp)
            rules = [inp["rule"] == "diagonal"] if "rule" in inp else [False, True]
            todo += [(inp, v, m, mod, d) for d in rules]
    else:
        v, m, mod = noise_case_tensors(WITNESS)
        todo += [(dict(scenario="witness", **WITNESS), v, m, mod, False), (dict(scenario="witness", **WITNESS), v, m, mod, True)]
        for c in range(n):
            r = run.rng("noise-tie", c)
            ni, nvis, nf = r.randint(1, 3), r.randint(1, 3), r.randint(1, 3)
            p = r.choice([0.15, 0.4, 0.7])
            mask = torch.tensor([[[0.0 if r.random() < p else 1.0 for _ in range(nf)] for _ in range(nvis)] for _ in range(ni)], dtype=torch.float64)
            if not bool(mask.any()):  # a dataset has at least one observation (a feature may still be entirely missing: 0/0 per feature)
                mask[r.randrange(ni), r.randrange(nvis), r.randrange(nf)] = 1.0
            gy = r.random() < 0.6   # garbage (incl. NaN / inf) under the mask of y
            gm_ = r.random() < 0.5  # non-finite model values where y is missing
            values = torch.tensor([[[r.choice(obs_vals) if mask[i, j, k] else (r.choice(garbage) if gy else 0.0) for k in range(nf)]
                                    for j in range(nvis)] for i in range(ni)], dtype=torch.float64)
            model = torch.tensor([[[r.choice(obs_vals) if (mask[i, j, k] or not gm_) else r.choice(garbage) for k in range(nf)]
                                   for j in range(nvis)] for i in range(ni)], dtype=torch.float64)
            diagonal = r.random() < 0.5
            inp = dict(scenario="noise-tie", rule="diagonal" if diagonal else "scalar", values=jsonable(values.tolist()),
                       mask=[[[int(x) for x in v] for v in i] for i in mask.tolist()], model=jsonable(model.tolist()))
            todo.append((inp, values, mask, model, diagonal))
    cases, meta = [], []
    for inp, values, mask, model, diagonal in todo:
        rule = "diagonal" if diagonal else "scalar"
        w = mask.bool()
        partial = bool((~w & (model != 0)).any())  # the model is not 0 somewhere y is missing: what tells a masked sum from an unmasked one
        run.case(("noise-tie", rule, tuple(values.shape), repr(values.reshape(-1).tolist()), tuple(mask.reshape(-1).tolist()),
                  repr(model.reshape(-1).tolist())), nontrivial=partial)
        run.count("oracle", "noise-rule-tie")
        run.count("noise-tie-rule", rule)
        run.count("noise-tie-missing-entries", int((~w).sum()))
        res = noise_on_code(values, mask, model, diagonal)
        if res[0] == "X":
            run.count("noise-tie-outcome", res[1])
            run.fail(f"noise-rule:raises:{res[1]}", f"{rule} noise update raised {res[1]} before producing a variance", dict(inp, rule=rule))
            continue
        var = res[1]
        run.count("noise-tie-outcome", "nan" if bool(var.isnan().any()) else ("zero" if bool((var == 0).all()) else "finite"))
        cases.append(noise_coq_case(values, mask, model, diagonal, var))
        meta.append((inp, values, mask, model, diagonal, var))
    if only is None and meta:
        run.sample(dict(kind="noise-rule-tie", case=meta[0][0], rule="scalar", variance_on_code=jsonable(meta[0][5].reshape(-1).tolist())))
        run.sample(dict(kind="noise-rule-tie", case=meta[-1][0], variance_on_code=jsonable(meta[-1][5].reshape(-1).tolist())))
    bad = run.vm_bad_indices("noise", NOISE_HDR, NOISE_TYPE, cases, "check_noise_case")
    for b in bad or []:
        inp, values, mask, model, diagonal, var = meta[b]
        rule = "diagonal" if diagonal else "scalar"
        former = None if diagonal else _former_scalar_rule(values, mask, model)
        is_f3 = former is not None and bool(torch.isclose(var.reshape(()), former, rtol=1e-12, atol=0.0, equal_nan=True)) \
            and bool((~mask.bool() & (model != 0)).any())
        if is_f3:
            run.fail(F3, "scalar_noise_std_update sums model^2 over entries where y is missing (the variance is not the one of the masked rule "
                         "-2 * y_x_model + model_x_model summed with the weights of y; on the witness 25/3 instead of 0)",
                     dict(inp, rule=rule), expected="noise_var_scalar of Masked/Pipeline.v (residual mean square over observed entries)",
                     observed=jsonable(var.reshape(-1).tolist()))
        else:
            run.fail(f"noise-rule-differs-from-model:{rule}", f"the {rule} noise update of the code and the Coq model (Masked/Pipeline.v) give different "
                     "variances on this input (the theorem C06_noise_observed_only is about the model)", dict(inp, rule=rule),
                     expected=f"noise_var_{rule} of Masked/Pipeline.v", observed=jsonable(var.reshape(-1).tolist()))
    run.extra["noise_tie_cases"] = len(cases)
    return bad
