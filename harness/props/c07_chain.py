"""C07 (extension) — T2 of the chain-locality theorems (coq/theories/Compose/ChainLocality*.v).

The real `mean_posterior` / `mode_posterior` are run with position-indexed FORCED draws: inside every
`IndividualGibbsSampler.sample` call `torch.randn((n, *shape))` / `torch.rand((n,))` are wrapped so that row i of the result is
the draw of the individual whose identifier sits at position i (a function of identifier, variable, call number) — individual
i receives the same draws whatever the batch.  Runs: the batch, the batch with ANOTHER individual's observations changed (same
positions: bit for bit), with another individual removed, permuted, and the individual alone (positions move: bit for bit
unless a decision sits within 1e-4 of its threshold, counted and skipped).  Compared for the individual: every decision, the
kept history (values, attachment, regularity), the proposal scale at the end, the returned parameters.

Inside Coq (`run.vm_bad_indices`, checker `ChainLocalityExec.pair_ok`): on the recorded structured tapes of each pair of runs,
`flat_tape (concat T)` IS the flat list of normals / uniforms torch drew, `tape_fits` holds for the sweep orders recorded,
`own_draws j1 T1 = own_draws j2 T2` exactly, and the kept-history columns `own_col` agree."""
from __future__ import annotations

import contextlib
import io
import warnings
import zlib

from harness.common import Run, coq_Q, coq_list, coq_bool

HDR = ("From Coq Require Import ZArith QArith List Bool.\n"
       "From Leaspy Require Import Base.QAux Sampler.SamplerModel Compose.ChainLocality Compose.ChainLocalityExec.\n"
       "Import ListNotations.\n")
TARGETS = ["theories/Compose/ChainLocalityExec.vo"]
CASE_T = "pair_case"
HIST_LEN = 5      # std adaptation every 5 calls of a sampler: many adaptations within a short chain


class Forced:
    """Wraps (restored on exit) torch.randn / torch.rand inside IndividualGibbsSampler.sample, and records."""

    def __init__(self, salt):
        self.salt = salt
        self.calls = []        # dict(var, ids, Z (n x k floats), U (n floats), alpha, accepted, flat_n, flat_u)
        self.ids = None
        self.hist = None
        self.std_end = {}
        self._cur = None
        self._count = {}
        self.orders = []       # variable names in call order, per iteration
        self.stray = 0

    def _gen(self, pid, var, k, what):
        import numpy as np
        h = zlib.crc32(f"{self.salt}|{pid}|{var}|{k}|{what}".encode())
        return np.random.default_rng(h)

    def __enter__(self):
        import torch
        import numpy as np
        from leaspy.samplers.gibbs import IndividualGibbsSampler
        from leaspy.algo.personalize.mcmc import McmcPersonalizeAlgorithm
        rec = self
        self._torch = torch
        self._randn, self._rand = torch.randn, torch.rand
        self._saved = [(IndividualGibbsSampler, "sample", IndividualGibbsSampler.sample),
                       (IndividualGibbsSampler, "_group_metropolis_step", IndividualGibbsSampler._group_metropolis_step),
                       (McmcPersonalizeAlgorithm, "_get_individual_parameters", McmcPersonalizeAlgorithm._get_individual_parameters),
                       (McmcPersonalizeAlgorithm, "_compute_individual_parameters_from_samples_torch",
                        McmcPersonalizeAlgorithm.__dict__.get("_compute_individual_parameters_from_samples_torch"))]
        o_sample, o_gms, o_get = self._saved[0][2], self._saved[1][2], self._saved[2][2]

        def randn(*a, **k):
            r = rec._randn(*a, **k)
            cur = rec._cur
            if cur is None:
                rec.stray += 1
                return r
            n = len(rec.ids)
            if r.ndim < 1 or r.shape[0] != n:
                raise RuntimeError(f"normal draw of shape {tuple(r.shape)} for {n} individuals")
            rows = [torch.tensor(rec._gen(pid, cur["var"], cur["k"], "n").standard_normal(int(np.prod(r.shape[1:]))).astype("float32"))
                    .reshape(r.shape[1:]) for pid in rec.ids]
            out = torch.stack(rows).to(r.dtype)
            cur["Z"] = [[float(x) for x in row.reshape(-1)] for row in out]
            cur["flat_n"] = [float(x) for x in out.reshape(-1)]
            return out

        def rand(*a, **k):
            r = rec._rand(*a, **k)
            cur = rec._cur
            if cur is None:
                rec.stray += 1
                return r
            n = len(rec.ids)
            if tuple(r.shape) != (n,):
                raise RuntimeError(f"uniform draw of shape {tuple(r.shape)} for {n} individuals")
            out = torch.tensor([float(rec._gen(pid, cur["var"], cur["k"], "u").random(dtype=np.float32)) for pid in rec.ids], dtype=r.dtype)
            cur["U"] = [float(x) for x in out]
            return out

        def sample(self_, state, *, temperature_inv):
            k = rec._count.get(self_.name, 0)
            rec._count[self_.name] = k + 1
            rec._cur = dict(var=self_.name, k=k, tinv=float(temperature_inv))
            try:
                o_sample(self_, state, temperature_inv=temperature_inv)
            finally:
                cur, rec._cur = rec._cur, None
            cur["std"] = [float(x) for x in self_.std]
            rec.std_end[self_.name] = cur["std"]
            rec.calls.append(cur)

        def gms(self_, alpha):
            acc = o_gms(self_, alpha)
            if rec._cur is not None:
                rec._cur["alpha"] = [float(x) for x in alpha.reshape(-1)]
                rec._cur["acc"] = [bool(x) for x in acc.reshape(-1)]
            return acc

        def get(self_, model, dataset, **kw):
            rec.ids = [str(i) for i in dataset.indices]
            est = type(self_)._compute_individual_parameters_from_samples_torch

            def capture(values, attachments, regularities):
                rec.hist = dict(values={n: v.detach().clone() for n, v in values.items()},
                                att=attachments.detach().clone(), reg=regularities.detach().clone())
                return est(self_, values, attachments, regularities)
            self_._compute_individual_parameters_from_samples_torch = capture
            try:
                return o_get(self_, model, dataset, **kw)
            finally:
                del self_._compute_individual_parameters_from_samples_torch

        torch.randn, torch.rand = randn, rand
        IndividualGibbsSampler.sample = sample
        IndividualGibbsSampler._group_metropolis_step = gms
        McmcPersonalizeAlgorithm._get_individual_parameters = get
        return self

    def __exit__(self, *exc):
        torch = self._torch
        torch.randn, torch.rand = self._randn, self._rand
        for cls, name, f in self._saved[:3]:
            setattr(cls, name, f)
        return False


def forced_run(model, cfg, df, algo, n_iter, seed, salt):
    from harness import synth
    with warnings.catch_warnings():
        warnings.simplefilter("ignore")
        with contextlib.redirect_stdout(io.StringIO()), contextlib.redirect_stderr(io.StringIO()):
            data = synth.make_data(df, cfg[0])
            with Forced(salt) as rec:
                ip = model.personalize(data, algo, seed=seed, n_iter=n_iter, progress_bar=False,
                                       sampler_ind_params=dict(acceptation_history_length=HIST_LEN))
    out = ip.to_dataframe()
    rec.result = {str(i): [float(x) for x in out.loc[i].values] for i in out.index}
    return rec


def own_view(rec, pid):
    """Everything the run did for individual `pid`."""
    j = rec.ids.index(pid)
    calls = [dict(var=c["var"], k=c["k"], acc=c["acc"][j], alpha=c["alpha"][j], u=c["U"][j], z=c["Z"][j], std=c["std"][j]) for c in rec.calls]
    names = sorted(rec.hist["values"])
    hist = [([float(x) for n in names for x in rec.hist["values"][n][t, j].reshape(-1)], float(rec.hist["att"][t, j]), float(rec.hist["reg"][t, j]))
            for t in range(rec.hist["att"].shape[0])]
    return dict(j=j, calls=calls, hist=hist, result=rec.result[pid])


def compare(run: Run, info, what, a, b, exact):
    """a, b: own views of the same individual in two runs.  Returns 'same' | 'near-threshold' | 'differs'."""
    for ca, cb in zip(a["calls"], b["calls"]):
        if (ca["var"], ca["k"]) != (cb["var"], cb["k"]) or ca["u"] != cb["u"] or ca["z"] != cb["z"]:
            run.fail(f"chain-forced-draws-not-position-indexed:{what}", "the individual did not receive the same draws in the two runs (harness)", info,
                     [ca["var"], ca["k"], ca["u"]], [cb["var"], cb["k"], cb["u"]])
            return "differs"
        if ca["acc"] != cb["acc"] or (exact and (ca["alpha"] != cb["alpha"] or ca["std"] != cb["std"])):
            near = min(abs(ca["u"] - ca["alpha"]), abs(cb["u"] - cb["alpha"])) < 1e-4 * max(1.0, abs(ca["alpha"]))
            if near and not exact:
                return "near-threshold"
            sig = "chain-decision" if ca["acc"] != cb["acc"] else ("chain-proposal-scale" if ca["std"] != cb["std"] else "chain-threshold")
            run.fail(f"{sig}-depends-on-other-individuals:{what}",
                     f"sampler call {ca['k']} of {ca['var']}: individual's (u, alpha, accepted, std) differ although its data, initial values and draws are the same",
                     dict(info, call=[ca["var"], ca["k"]]), [ca["u"], ca["alpha"], ca["acc"], ca["std"]], [cb["u"], cb["alpha"], cb["acc"], cb["std"]])
            return "differs"
        if not exact and abs(ca["std"] - cb["std"]) > 1e-5 * abs(ca["std"]):
            run.fail(f"chain-proposal-scale-depends-on-other-individuals:{what}", f"std[j] after call {ca['k']} of {ca['var']}",
                     dict(info, call=[ca["var"], ca["k"]]), ca["std"], cb["std"])
            return "differs"
    if len(a["calls"]) != len(b["calls"]) or len(a["hist"]) != len(b["hist"]):
        run.fail(f"chain-length-depends-on-other-individuals:{what}", "number of sampler calls / kept draws", info,
                 [len(a["calls"]), len(a["hist"])], [len(b["calls"]), len(b["hist"])])
        return "differs"
    tol = 0.0 if exact else 1e-4

    def close(x, y):
        return x == y if exact else abs(x - y) <= tol * (1 + abs(y))
    for t, (ha, hb) in enumerate(zip(a["hist"], b["hist"])):
        if not (all(close(x, y) for x, y in zip(ha[0], hb[0])) and close(ha[1], hb[1]) and close(ha[2], hb[2])):
            run.fail(f"chain-history-depends-on-other-individuals:{what}", f"kept draw {t} of the individual", dict(info, kept_draw=t), list(ha), list(hb))
            return "differs"
    if not all(close(x, y) for x, y in zip(a["result"], b["result"])):
        run.fail(f"chain-estimate-depends-on-other-individuals:{what}", "returned individual parameters", info, a["result"], b["result"])
        return "differs"
    return "same"


def q_list(xs):
    return coq_list(coq_Q(x) for x in xs)


def structured(rec, names):
    """Per iteration, the calls in order: (variable index, Z, U)."""
    nvars = len(names)
    its = [rec.calls[i:i + nvars] for i in range(0, len(rec.calls), nvars)]
    return [[(names.index(c["var"]), c["Z"], c["U"]) for c in it] for it in its]


def coq_run(rec, names, sizes, j):
    T = structured(rec, names)
    t = coq_list(coq_list("(" + coq_list(q_list(z) for z in Z) + ", " + q_list(U) + ")" for (_v, Z, U) in it) for it in T)
    orders = coq_list(coq_list(f"{v}%nat" for (v, _Z, _U) in it) for it in T)
    flat_n = q_list([x for c in rec.calls for x in c["flat_n"]])
    flat_u = q_list([x for c in rec.calls for x in c["U"]])
    view = own_view(rec, rec.ids[j])
    col = coq_list("(" + q_list(h[0]) + ", " + coq_Q(h[1]) + ", " + coq_Q(h[2]) + ")" for h in view["hist"])
    return f"(mkRunRec {len(rec.ids)}%nat {j}%nat {orders} {t} {flat_n} {flat_u} {col})"


def oracle_chain(run: Run, thorough: bool):
    from harness import synth
    from harness.props.c07 import make_cohort, change_others, reorder, cfg_name
    plans = [(("logistic", 2, 1, None), 5, "mean_posterior", 30), (("logistic", 2, 1, None), 4, "mode_posterior", 28)]
    if thorough:
        # no mixture plan: mean_/mode_posterior on a mixture model always raise (RuntimeError in time_reparametrization) — the listed
        # finding `personalize:mixture_logistic-mcmc-crash` of C17, nothing this oracle could add to
        plans += [(("linear", 2, 1, None), 5, "mode_posterior", 60), (("logistic", 3, 2, None), 6, "mean_posterior", 80),
                  (("shared_speed_logistic", 3, 1, None), 5, "mean_posterior", 40)]
    cases, metas = [], []
    for cfg, n, algo, n_iter in plans:
        kind, nf, sd, noise = cfg
        rng = run.rng("chain-locality", cfg_name(cfg), algo)
        df = make_cohort(cfg, n, 31, visits=(2, 5))
        ids = [str(i) for i in df.ID.unique()]
        try:
            with warnings.catch_warnings():
                warnings.simplefilter("ignore")
                model, _ = synth.fit(kind, n_iter=40, seed=3, n_feat=nf, source_dimension=sd, noise=noise, df=df)
        except Exception as e:
            run.count("chain_skipped", f"{cfg_name(cfg)}: fit raised {type(e).__name__}")
            continue
        j = rng.randrange(n)
        pid = ids[j]
        other = ids[(j + 1 + rng.randrange(n - 1)) % n]
        perm = list(range(n))
        while perm == list(range(n)):
            rng.shuffle(perm)
        variants = {
            "others-changed": (change_others(cfg, df, df.ID.unique()[j], rng), True),
            "other-removed": (df[df.ID.astype(str) != other], False),
            "permuted": (reorder(df, [df.ID.unique()[q] for q in perm]), False),
            "alone": (df[df.ID.astype(str) == pid], False),
        }
        info = dict(config=list(cfg), n_individuals=n, algorithm=algo, n_iter=n_iter, individual=pid, cohort_seed=31, seed=run.seed)
        try:
            base = forced_run(model, cfg, df, algo, n_iter, 5, run.seed)
        except Exception as e:
            run.fail(f"chain-raises:{algo}", f"{type(e).__name__}: {e}", info, "a personalisation", "exception")
            continue
        if base.stray:
            run.count("chain_stray_draws", algo)
        names = sorted(base.hist["values"])
        sizes = [int(base.hist["values"][nm][0, 0].numel()) for nm in names]
        va = own_view(base, pid)
        n_acc = sum(c["acc"] for c in va["calls"])
        for what, (dfv, exact) in variants.items():
            vinfo = dict(info, variant=what, other=other if what == "other-removed" else None, permutation=perm if what == "permuted" else None)
            try:
                r2 = forced_run(model, cfg, dfv, algo, n_iter, 5, run.seed)
            except Exception as e:
                run.fail(f"chain-raises:{what}", f"{type(e).__name__}: {e}", vinfo, "a personalisation", "exception")
                continue
            vb = own_view(r2, pid)
            res = compare(run, vinfo, what, va, vb, exact)
            run.count("chain_locality_runs", f"{algo}/{what}: {res}")
            run.case(("chain", cfg_name(cfg), algo, what, pid, run.seed), nontrivial=(0 < n_acc < len(va["calls"])))
            if res in ("same", "differs"):
                cases.append(f"(mkPair {coq_list(f'{s}%nat' for s in sizes)} {coq_bool(exact)} {coq_run(base, names, sizes, va['j'])} {coq_run(r2, names, sizes, vb['j'])})")
                metas.append(dict(vinfo, positions=[va["j"], vb["j"]], calls=len(va["calls"]), accepted=n_acc, kept_draws=len(va["hist"])))
    if not cases:
        return
    from harness import common
    ok, out = common.make(TARGETS)
    if not ok:
        run.broken("build:ChainLocalityExec", out[-1500:], kind="broken-correspondence")
        return
    bad = run.vm_bad_indices("c07_chain_pairs", HDR, CASE_T, cases, "pair_ok", shard=2)
    if bad is None:
        run.broken("correspond:c07_chain_pairs", "Coq could not evaluate ChainLocalityExec.pair_ok on the recorded tapes")
    else:
        for i in bad:
            m = metas[i]
            run.fail(f"chain-own-draws-or-history-differ:{m['variant']}",
                     "inside Coq: flat_tape of the recorded structured draws is not the tape torch produced, or tape_fits fails, or own_draws / own_col "
                     "of the individual differ between the two runs", m, "pair_ok = true", "false")
    run.extra["chain_pairs_checked_in_coq"] = len(cases)
    if metas:
        run.sample(dict(kind="chain pair (checked in Coq)", **metas[0]))
