"""C06 — T2 for compute_std_from_variance (the guard and the square root), beside the source-level tie (T1) of
harness/translate/c06_weighted.py: the real function on directed variance tensors, the model `Source.std_from_variance`
inside Coq (vm_compute), outcomes compared exactly (refusal) / up to the rounding of the square root (exact rationals)."""
from __future__ import annotations

import json
import math

from harness.common import Run
from harness.props import c06_api as A

HDR = ("From Coq Require Import List NArith ZArith QArith Bool.\nFrom Leaspy Require Import Base.Atoms Masked.Weighted Masked.Source.\n"
       "Import ListNotations.\nLocal Close Scope Q_scope.\n")


def _np():
    import numpy as np
    return np


def gen_case(rng, i):
    """-> dict(dtype, tol (None = default), shape, vals)"""
    np = _np()
    dtype = "float32" if rng.random() < 0.6 else "float64"
    ft = np.float32 if dtype == "float32" else np.float64
    tol = rng.choice([None, None, None, 1e-5, 0.5, 0.0, 1e-8, -1.0, 2.0])
    teff = float(ft(1e-5 if tol is None else tol))
    around = [teff, float(np.nextafter(ft(teff), ft(np.inf))), float(np.nextafter(ft(teff), ft(-np.inf)))]
    pool_ok = [1.0, 4.0, 0.25, 2.0, 1e-3, 7.5, 1e30, float("inf"), around[0], around[1], 3.0, 1e-4]
    pool_bad = [0.0, -1.0, -1e-30, 1e-9, around[2], float("-inf"), -4.0, 1e-6]
    n = rng.choice([0, 1, 1, 2, 3, 5])
    shape = [] if n == 0 else [n]
    k = max(1, n)
    style = rng.random()
    vals = []
    for j in range(k):
        if style < 0.45:
            v = rng.choice(pool_ok)
        elif style < 0.8:
            v = rng.choice(pool_ok if rng.random() < 0.7 else pool_bad)
        else:
            v = rng.choice(pool_ok + pool_bad + [float("nan")])
        vals.append(float(ft(v)))
    if i % 7 == 0:
        vals[rng.randrange(k)] = rng.choice(around)          # exactly at / one ulp around the tolerance
    if i % 31 == 5:
        vals[rng.randrange(k)] = float("nan")
    return dict(dtype=dtype, tol=tol, shape=shape, vals=vals)


def run_impl(case, torch, fn, err):
    dt = torch.float32 if case["dtype"] == "float32" else torch.float64
    v = torch.tensor(case["vals"], dtype=dt).reshape(case["shape"])
    try:
        r = fn(v, "noise_std") if case["tol"] is None else fn(v, "noise_std", tol=case["tol"])
    except err:
        return ("R",)
    except Exception as e:  # noqa
        return ("X", f"{type(e).__name__}: {e}"[:200])
    if not isinstance(r, torch.Tensor) or list(r.shape) != list(v.shape):
        return ("X", f"result {type(r).__name__} of shape {getattr(r, 'shape', None)}")
    return ("S", [float(x) for x in r.double().reshape(-1).tolist()])


def coq_case(case, res) -> str:
    np = _np()
    ft = np.float32 if case["dtype"] == "float32" else np.float64
    teff = float(ft(1e-5 if case["tol"] is None else case["tol"]))    # a python scalar is compared in the dtype of the tensor
    k = 22 if case["dtype"] == "float32" else 51
    obs = "ObsRefused" if res[0] == "R" else f"(ObsSqrt {A.lst(A.atom(x) for x in res[1])})"
    return f"({A.atom(teff)}, ({A.rshape(case['shape'])}, {A.lst(A.atom(x) for x in case['vals'])}), {k}%positive, {obs})"


def expected_py(case):
    """independent float oracle: refusal iff some entry < tol (comparison in the dtype of the tensor)"""
    np = _np()
    ft = np.float32 if case["dtype"] == "float32" else np.float64
    teff = ft(1e-5 if case["tol"] is None else case["tol"])
    return any(ft(x) < teff for x in case["vals"])


def std_tie(run: Run, n: int, only=None):
    from harness.common import use_impl
    use_impl()
    import torch
    from leaspy.exceptions import LeaspyConvergenceError
    from leaspy.models.utilities import compute_std_from_variance
    cases, coq = [], []
    for i in range(n) if only is None else range(len(only)):
        c = gen_case(run.rng("std", i), i) if only is None else only[i]
        res = run_impl(c, torch, compute_std_from_variance, LeaspyConvergenceError)
        refuse = expected_py(c)
        boundary = any(x == x and abs(x) < 1e-3 or x < 0 for x in c["vals"])
        run.case(("std", json.dumps(c, sort_keys=True)), nontrivial=refuse or boundary)
        run.count("std-outcome", {"R": "refused", "S": "sqrt", "X": "other-exception"}[res[0]])
        run.count("std-dtype", c["dtype"])
        inp = dict(scenario="std", case=c)
        if res[0] == "X":
            run.fail("compute_std_from_variance:unexpected-exception", f"raised outside its contract: {res[1]}", inp)
            continue
        if refuse and res[0] != "R":
            run.fail("compute_std_from_variance:variance-below-tolerance-accepted",
                     "an entry of the variance is < tol (negative, zero or collapsed) and no LeaspyConvergenceError is raised: the square "
                     "root of a too small / negative variance (possibly NaN) becomes the noise estimate", inp,
                     expected="LeaspyConvergenceError", observed=res[1])
        elif not refuse and res[0] == "R":
            run.fail("compute_std_from_variance:variance-at-or-above-tolerance-refused",
                     "every entry of the variance is >= tol (or NaN) and LeaspyConvergenceError is raised", inp,
                     expected="sqrt(variance)", observed="LeaspyConvergenceError")
        cases.append(c)
        coq.append(coq_case(c, res))
        if only is None and i in (2, 14):
            run.sample(dict(kind="std-case", case=c, outcome=res[0]))
    bad = run.vm_bad_indices("std", HDR, "atom * (list nat * list atom) * positive * std_obs", coq, "check_std_case")
    for b in bad or []:
        c = cases[b]
        run.fail("compute_std_from_variance:differs-from-model",
                 "the real compute_std_from_variance and Masked.Source.std_from_variance disagree (refusal, or the value returned is not the "
                 "square root of the variance handed in)", dict(scenario="std", case=c), expected="model outcome",
                 observed=str(run_impl(c, torch, compute_std_from_variance, LeaspyConvergenceError))[:300])
    if bad is None:
        run.broken("std-tie", "coqc failed on the std cases", kind="broken-correspondence")
    run.extra["std_cases"] = len(coq)
    return bad


# ----------------------------------------------------------------------------- the update rules END in compute_std_from_variance

NOISE_STD_HDR = ("From Coq Require Import List NArith ZArith QArith Bool.\nFrom Leaspy Require Import Base.Atoms Masked.Weighted Masked.Source "
                 "Masked.NoiseStd.\nImport ListNotations.\nLocal Close Scope Q_scope.\n")


def noise_std_on_code(values, mask, model, diagonal):
    """The real wiring of with_noise_std_as_model_parameter(dim) as in c06_pipeline.noise_on_code, but what is observed is the OUTCOME
    of the update rule (the adopted noise_std or the refusal) and the (variance, tol) handed to compute_std_from_variance.
    -> ("S", std float64 list, tol) | ("R", tol) | ("X", text)"""
    import types
    import leaspy.models.obs_models._gaussian as gm
    from leaspy.exceptions import LeaspyConvergenceError
    om = gm.FullGaussianObservationModel.with_noise_std_as_model_parameter(2 if diagonal else 1)
    ds = types.SimpleNamespace(values=values, mask=mask)
    seen = []
    orig = gm.compute_std_from_variance

    def recorder(variance, *a, **k):
        seen.append((variance.detach().clone(), a, dict(k)))
        return orig(variance, *a, **k)
    gm.compute_std_from_variance = recorder
    try:
        st = {"y": om.getter(ds), "model": model}
        ns = om.extra_vars["noise_std"]
        for k, v in om.extra_vars.items():
            if k != "noise_std":
                st[k] = v.compute(st)
        for k, v in ns.suff_stats.dedicated_variables.items():
            st[k] = v.compute(st)
        try:
            out = ("S", ns.update_rule(state=st, **ns.suff_stats(st)))
        except LeaspyConvergenceError:
            out = ("R",)
    except Exception as e:  # noqa: BLE001
        return ("X", f"{type(e).__name__}: {e}"[:200])
    finally:
        gm.compute_std_from_variance = orig
    if len(seen) != 1:
        return ("X", f"compute_std_from_variance called {len(seen)} times")
    var, a, k = seen[0]
    tol = k.get("tol", a[1] if len(a) > 1 else 1e-5)
    if out[0] == "S":
        r = out[1]
        if list(r.shape) != list(var.shape):
            return ("X", f"the rule returns shape {list(r.shape)} for a variance of shape {list(var.shape)}")
        return ("S", [float(x) for x in r.double().reshape(-1).tolist()], float(tol))
    return ("R", float(tol))


def noise_std_tie(run: Run, n: int, only=None):
    """T2 for the composition rule = compute_std_from_variance(variance of the rule, tol=tol_noise_variance): the adopted noise_std /
    the refusal of the real rule against Masked/NoiseStd.v inside Coq.  Inputs as in the noise-rule tie (float64 half-integers, garbage
    incl. NaN / inf under the mask and in the model where y is missing), plus cohorts fitted exactly (variance 0 -> refusal)."""
    from harness.common import use_impl
    use_impl()
    import torch
    from harness.props.c06_api import atom, jsonable, lst, ns, rshape
    from harness.props import c06_pipeline as P
    obs_vals = [k / 2 for k in range(-6, 7)]
    garbage = [0.0, 7.5, -2.0, 1e30, float("nan"), float("inf"), float("-inf")]
    todo = []
    if only is not None:
        for inp in only:
            v, m, mod = P.noise_case_tensors(dict(inp, scenario="noise-tie"))
            todo.append((inp, v, m, mod, inp["rule"] == "diagonal"))
    else:
        for c in range(n):
            r = run.rng("noise-std-tie", c)
            ni, nvis, nf = r.randint(1, 3), r.randint(1, 3), r.randint(1, 3)
            p = r.choice([0.15, 0.4, 0.7])
            mask = torch.tensor([[[0.0 if r.random() < p else 1.0 for _ in range(nf)] for _ in range(nvis)] for _ in range(ni)], dtype=torch.float64)
            if not bool(mask.any()):
                mask[r.randrange(ni), r.randrange(nvis), r.randrange(nf)] = 1.0
            exact = r.random() < 0.25    # the model reproduces y on observed entries: variance 0, the rule must refuse
            values = torch.tensor([[[r.choice(obs_vals) if mask[i, j, k] else r.choice(garbage) for k in range(nf)]
                                    for j in range(nvis)] for i in range(ni)], dtype=torch.float64)
            model = torch.tensor([[[(values[i, j, k].item() if exact else r.choice(obs_vals)) if mask[i, j, k] else r.choice(garbage)
                                    for k in range(nf)] for j in range(nvis)] for i in range(ni)], dtype=torch.float64)
            diagonal = r.random() < 0.5
            inp = dict(scenario="noise-std-tie", rule="diagonal" if diagonal else "scalar", values=jsonable(values.tolist()),
                       mask=[[[int(x) for x in v] for v in i] for i in mask.tolist()], model=jsonable(model.tolist()))
            todo.append((inp, values, mask, model, diagonal))
    cases, meta = [], []
    for inp, values, mask, model, diagonal in todo:
        res = noise_std_on_code(values, mask, model, diagonal)
        w = mask.bool()
        run.case(("noise-std-tie", json.dumps(inp, sort_keys=True)), nontrivial=bool((~w).any()))
        run.count("noise-std-outcome", {"S": "adopted", "R": "refused", "X": "other-exception"}[res[0]])
        if res[0] == "X":
            run.fail("noise-rule:raises-before-or-after-the-guard", f"noise update rule: {res[1]}", inp)
            continue
        tol = res[-1]
        obs = "ObsRefused" if res[0] == "R" else f"(ObsSqrt {lst(atom(x) for x in res[1])})"
        cases.append(f"({'true' if diagonal else 'false'}, {rshape(values.shape)}, {lst(atom(x) for x in values.reshape(-1).tolist())}, "
                     f"{ns(mask.reshape(-1).tolist())}, {lst(atom(x) for x in model.reshape(-1).tolist())}, {atom(tol)}, {obs})")
        meta.append((inp, res))
    bad = run.vm_bad_indices("noisestd", NOISE_STD_HDR, "bool * list nat * list atom * list N * list atom * atom * std_obs", cases,
                             "check_noise_std_case")
    for b in bad or []:
        inp, res = meta[b]
        run.fail(f"noise-std-differs-from-model:{inp['rule']}",
                 "the outcome of the real noise update rule (adopted noise_std / LeaspyConvergenceError) is not compute_std_from_variance of the "
                 "variance over observed entries (Masked/NoiseStd.v; the theorem C06_noise_std_observed_only is about the model)", inp,
                 expected="noise_std_scalar / noise_std_diagonal of Masked/NoiseStd.v", observed=str(res)[:300])
    if bad is None:
        run.broken("noise-std-tie", "coqc failed on the noise-std cases", kind="broken-correspondence")
    run.extra["noise_std_cases"] = len(cases)
    return bad
