"""C06 — T2 for compute_std_from_variance (the guard and the square root), beside the source-level tie (T1) of
harness/translate/c06_weighted.py: the real function on directed variance tensors, the model `Source.std_from_variance`
inside Coq (vm_compute), outcomes compared exactly (refusal) / up to the rounding of the square root (exact rationals)."""
from __future__ import annotations

import json
import math

from harness.common import Run
from harness.props import c06_api as A

HDR = ("From Coq Require Import List NArith ZArith QArith Bool.\nFrom Leaspy Require Import Base.Atoms Masked.Weighted Masked.Source.\n"
       "Import ListNotations.\nLocal Close Scope Q_scope.\n")


def _np():
    import numpy as np
    return np


def gen_case(rng, i):
    """-> dict(dtype, tol (None = default), shape, vals)"""
    np = _np()
    dtype = "float32" if rng.random() < 0.6 else "float64"
    ft = np.float32 if dtype == "float32" else np.float64
    tol = rng.choice([None, None, None, 1e-5, 0.5, 0.0, 1e-8, -1.0, 2.0])
    teff = float(ft(1e-5 if tol is None else tol))
    around = [teff, float(np.nextafter(ft(teff), ft(np.inf))), float(np.nextafter(ft(teff), ft(-np.inf)))]
    pool_ok = [1.0, 4.0, 0.25, 2.0, 1e-3, 7.5, 1e30, float("inf"), around[0], around[1], 3.0, 1e-4]
    pool_bad = [0.0, -1.0, -1e-30, 1e-9, around[2], float("-inf"), -4.0, 1e-6]
    n = rng.choice([0, 1, 1, 2, 3, 5])
    shape = [] if n == 0 else [n]
    k = max(1, n)
    style = rng.random()
    vals = []
    for j in range(k):
        if style < 0.45:
            v = rng.choice(pool_ok)
        elif style < 0.8:
            v = rng.choice(pool_ok if rng.random() < 0.7 else pool_bad)
        else:
            v = rng.choice(pool_ok + pool_bad + [float("nan")])
        vals.append(float(ft(v)))
    if i % 7 == 0:
        vals[rng.randrange(k)] = rng.choice(around)          # exactly at / one ulp around the tolerance
    if i % 31 == 5:
        vals[rng.randrange(k)] = float("nan")
    return dict(dtype=dtype, tol=tol, shape=shape, vals=vals)


def run_impl(case, torch, fn, err):
    dt = torch.float32 if case["dtype"] == "float32" else torch.float64
    v = torch.tensor(case["vals"], dtype=dt).reshape(case["shape"])
    try:
        r = fn(v, "noise_std") if case["tol"] is None else fn(v, "noise_std", tol=case["tol"])
    except err:
        return ("R",)
    except Exception as e:  # noqa
        return ("X", f"{type(e).__name__}: {e}"[:200])
    if not isinstance(r, torch.Tensor) or list(r.shape) != list(v.shape):
        return ("X", f"result {type(r).__name__} of shape {getattr(r, 'shape', None)}")
    return ("S", [float(x) for x in r.double().reshape(-1).tolist()])


def coq_case(case, res) -> str:
    np = _np()
    ft = np.float32 if case["dtype"] == "float32" else np.float64
    teff = float(ft(1e-5 if case["tol"] is None else case["tol"]))    # a python scalar is compared in the dtype of the tensor
    k = 22 if case["dtype"] == "float32" else 51
    obs = "ObsRefused" if res[0] == "R" else f"(ObsSqrt {A.lst(A.atom(x) for x in res[1])})"
    return f"({A.atom(teff)}, ({A.rshape(case['shape'])}, {A.lst(A.atom(x) for x in case['vals'])}), {k}%positive, {obs})"


def expected_py(case):
    """independent float oracle: refusal iff some entry < tol (comparison in the dtype of the tensor)"""
    np = _np()
    ft = np.float32 if case["dtype"] == "float32" else np.float64
    teff = ft(1e-5 if case["tol"] is None else case["tol"])
    return any(ft(x) < teff for x in case["vals"])


def std_tie(run: Run, n: int, only=None):
    from harness.common import use_impl
    use_impl()
    import torch
    from leaspy.exceptions import LeaspyConvergenceError
    from leaspy.models.utilities import compute_std_from_variance
    cases, coq = [], []
    for i in range(n) if only is None else range(len(only)):
        c = gen_case(run.rng("std", i), i) if only is None else only[i]
        res = run_impl(c, torch, compute_std_from_variance, LeaspyConvergenceError)
        refuse = expected_py(c)
        boundary = any(x == x and abs(x) < 1e-3 or x < 0 for x in c["vals"])
        run.case(("std", json.dumps(c, sort_keys=True)), nontrivial=refuse or boundary)
        run.count("std-outcome", {"R": "refused", "S": "sqrt", "X": "other-exception"}[res[0]])
        run.count("std-dtype", c["dtype"])
        inp = dict(scenario="std", case=c)
        if res[0] == "X":
            run.fail("compute_std_from_variance:unexpected-exception", f"raised outside its contract: {res[1]}", inp)
            continue
        if refuse and res[0] != "R":
            run.fail("compute_std_from_variance:variance-below-tolerance-accepted",
                     "an entry of the variance is < tol (negative, zero or collapsed) and no LeaspyConvergenceError is raised: the square "
                     "root of a too small / negative variance (possibly NaN) becomes the noise estimate", inp,
                     expected="LeaspyConvergenceError", observed=res[1])
        elif not refuse and res[0] == "R":
            run.fail("compute_std_from_variance:variance-at-or-above-tolerance-refused",
                     "every entry of the variance is >= tol (or NaN) and LeaspyConvergenceError is raised", inp,
                     expected="sqrt(variance)", observed="LeaspyConvergenceError")
        cases.append(c)
        coq.append(coq_case(c, res))
        if only is None and i in (2, 14):
            run.sample(dict(kind="std-case", case=c, outcome=res[0]))
    bad = run.vm_bad_indices("std", HDR, "atom * (list nat * list atom) * positive * std_obs", coq, "check_std_case")
    for b in bad or []:
        c = cases[b]
        run.fail("compute_std_from_variance:differs-from-model",
                 "the real compute_std_from_variance and Masked.Source.std_from_variance disagree (refusal, or the value returned is not the "
                 "square root of the variance handed in)", dict(scenario="std", case=c), expected="model outcome",
                 observed=str(run_impl(c, torch, compute_std_from_variance, LeaspyConvergenceError))[:300])
    if bad is None:
        run.broken("std-tie", "coqc failed on the std cases", kind="broken-correspondence")
    run.extra["std_cases"] = len(coq)
    return bad
