"""C05 — sufficient statistics follow the stochastic-approximation schedule."""
from __future__ import annotations

import itertools
import math

from harness.common import Run, SRC, coq_Q, coq_Z, coq_bool, coq_list, frac
from harness.translate import pysym, c05_run, c11_run
from harness.translate.pysym import Emit, Spec, Untranslatable, definition

META = dict(
    technique="Coq theorems (induction over the iteration count, real analysis of the step) on a schedule model whose rules are "
              "regenerated from the Python AST; correspondence by vm_compute / interval lemmas against the running code",
    level_text="Unbounded theorems: memory-less identity, convex recurrence with e_k=(k-n_burn)^-p in (0,1), unrolled convex "
               "combination (weights >= 0, sum 1), burn_in flag, power guard <-> ]0.5,1], length = explicit count or floor(frac*n). "
               "The decision rules are regenerated from mcmc_saem.py / algo_with_samplers.py on every run and proved equal to the "
               "model; the real _maximization_step is driven over an exhaustive small grid and compared inside Coq. "
               "Run level (extension): on the control flow of a fit regenerated from the source (GenC11.v) the key events are, for counter "
               "1..n_iter in order, every sampler, one statistics event, one maximisation, the temperature update, and the k-th maximisation is "
               "handed S_k of the recurrence (C05_src_run_events, C05_src_run_schedule: every configuration, n_burn_in, power, statistic sequence); "
               "mean_posterior / mode_posterior resolve the memory-less length through the same constructor (class hierarchy read from the source).",
    level_note="Trusted: Coq kernel; stdlib real-number axioms (sig_not_dec, sig_forall_dec, functional_extensionality_dep, classic) as "
               "printed by Print Assumptions; python-ast translators (pysym, c05_run, C11's c11_run: named events matched on normalised text); Coq-Interval for the generated step-size lemmas only; "
               "float product fl(frac*n_iter) taken from the implementation (theorem is over exact rationals); torch element-wise arithmetic.",
    design_ref="DESIGN.md section 4 C05",
)

OBLIGATIONS = [
    "C05_memoryless", "C05_convex", "C05_first_memory_iteration", "C05_step_range", "C05_unrolled",
    "C05_unrolled_weights", "C05_burn_in_flag", "C05_power_guard", "C05_n_burn_explicit", "C05_n_burn_fraction",
    "C05_tie_is_burn_in", "C05_tie_memoryless", "C05_tie_burn_flag", "C05_tie_step", "C05_tie_convex",
    "C05_tie_convexQ", "C05_tie_power_guard", "C05_tie_n_burn",
    # where the explicit count / the fraction come from: the settings object (Api/Settings.v, tied by the C13 check)
    "C05_settings_explicit_count", "C05_settings_default_fraction",
    # the schedule ON THE RUN: control flow regenerated from the source (GenC11.v) composed with the regenerated rules (GenC05.v)
    "C05_src_shape", "C05_src_run_events", "C05_src_run_log", "C05_src_run_schedule", "C05_src_run_schedule_example",
    "C05_src_log_observed", "C05_src_run_unrolled",
    # whole-run consequences: the memory-less phase leaves no trace, no overshoot, constants reproduced (+ non-vacuity)
    "C05_burn_in_leaves_no_trace", "C05_stat_in_hull", "C05_stat_constant", "C05_burn_in_leaves_no_trace_example",
]

PERSO_ALGOS = ("mean_posterior", "mode_posterior")     # share AlgorithmWithSamplersMixin with the fit algorithm

HEADER = """(* REGENERATED on every run from $VERIF_REPO/src/leaspy by harness/props/c05.py — do not edit *)
From Coq Require Import ZArith Reals QArith Qreals Qround Bool.
From Leaspy Require Import Base.QAux.
"""


def find_subtrees(e, pred, acc):
    if isinstance(e, tuple):
        if pred(e):
            if e not in acc:
                acc.append(e)
            return
        for x in e[1:]:
            find_subtrees(x, pred, acc)


def replace(e, old, new):
    if e == old:
        return new
    if isinstance(e, tuple):
        return tuple(replace(x, old, new) if isinstance(x, tuple) else x for x in e)
    return e


def translate(run: Run) -> bool:
    """Regenerate coq/gen/GenC05.v (rules of the schedule, source-level facts of harness/translate/c05_run.py) and coq/gen/GenC11.v (the
    control flow of a fit, C11's translator) from the working tree.  False (and run.broken) when the source no longer has a shape the
    translators understand.  Both are always attempted, so that coq/gen never keeps a file of another tree."""
    ok5 = _translate_rules(run)
    # the control flow of a fit (coq/gen/GenC11.v): Props/C05.v states the schedule over it
    ok11 = c11_run.translate(run)
    return ok5 and ok11


def _translate_rules(run: Run) -> bool:
    try:
        samplers = pysym.load_methods(SRC / "algo" / "algo_with_samplers.py", "AlgorithmWithSamplersMixin")
        saem = pysym.load_methods(SRC / "algo" / "fit" / "mcmc_saem.py", "TensorMcmcSaemAlgorithm")
        out = [HEADER]
        zt = {"current_iteration": "Z", "n_burn_in_iter": "Z", "burn_in_step_power": "Q", "n_iter": "Z", "n_burn_in_iter_frac": "Q"}

        # _is_burn_in
        ex = pysym.Exec(Spec(types=zt, methods=samplers))
        t = ex.run(samplers["_is_burn_in"].body, {}, {})
        e_burn = pysym.returned(t)
        out.append(definition("gen_is_burn_in", [("current_iteration", "Z"), ("n_burn_in_iter", "Z")], "bool", Emit(zt, "Z").boolean(e_burn)))

        # _maximization_step
        spec = Spec(types=zt, methods={**samplers, **saem}, effect_calls=("model.update_parameters",),
                    opaque_calls=("model.compute_sufficient_statistics",))
        ex = pysym.Exec(spec)
        body = saem["_maximization_step"].body
        env = {"model": ("opaque", "model"), "state": ("opaque", "state")}
        t = ex.run(body, env, {})
        if not isinstance(t, pysym.Branch) or not isinstance(t.then, pysym.Leaf) or not isinstance(t.other, pysym.Leaf):
            raise Untranslatable("_maximization_step is no longer `if memoryless: ... else: ...`")
        s_then = t.then.state.get("sufficient_statistics")
        s_else = t.other.state.get("sufficient_statistics")
        if s_then != ("opaque", "model.compute_sufficient_statistics"):
            raise Untranslatable(f"memory-less branch stores {s_then!r}, not the current statistics")
        if not (isinstance(s_else, tuple) and s_else[0] == "pointwise"):
            raise Untranslatable(f"memory branch stores {s_else!r}, not a point-wise combination")
        out.append(definition("gen_memoryless", [("current_iteration", "Z"), ("n_burn_in_iter", "Z")], "bool", Emit(zt, "Z").boolean(t.cond)))
        flags = []
        for leaf in (t.then, t.other):
            eff = [(kw, src) for (n, kw, src) in leaf.effects if n == "model.update_parameters"]
            if len(eff) != 1 or "burn_in" not in eff[0][0]:
                raise Untranslatable("update_parameters(..., burn_in=...) not called exactly once on a path")
            flags.append(eff[0][0]["burn_in"])
            if eff[0][1] != ["state", "self.sufficient_statistics"]:
                raise Untranslatable("update_parameters is not given (state, self.sufficient_statistics)")
        if flags[0] != flags[1]:
            raise Untranslatable("burn_in flag differs between branches")
        out.append(definition("gen_burn_flag", [("current_iteration", "Z"), ("n_burn_in_iter", "Z")], "bool", Emit(zt, "Z").boolean(flags[0])))
        # the step: the unique power sub-expression of the combination
        pows = []
        find_subtrees(s_else, lambda e: e[0] == "bin" and e[1] == "**", pows)
        if len(pows) != 1:
            raise Untranslatable(f"{len(pows)} distinct power sub-expressions in the memory branch")
        out.append(definition("gen_step", [("current_iteration", "Z"), ("n_burn_in_iter", "Z"), ("burn_in_step_power", "Q")], "R",
                              Emit(zt, "R").num(pows[0])))
        comb = replace(s_else, pows[0], ("var", "e"))
        names = {"self.sufficient_statistics": "S_prev", "sufficient_statistics": "s_new"}
        for dom in ("R", "Q"):
            tt = dict(zt, e=dom)
            out.append(definition(f"gen_convex_{dom}", [("S_prev", dom), ("s_new", dom), ("e", dom)], dom, Emit(tt, dom, names).num(comb)))

        # constructor guard
        ex = pysym.Exec(Spec(types=zt, methods=saem, noop_calls=("warnings.warn", "super().__init__")))
        t = ex.run(saem["__init__"].body, {"settings": ("opaque", "settings")}, {})
        out.append(definition("gen_power_refused", [("burn_in_step_power", "Q")], "bool", Emit(zt, "Q").boolean(pysym.raises(t))))

        # memory-less phase length (mixin constructor), three configurations
        def ctor(fixed):
            ex = pysym.Exec(Spec(types=zt, methods=samplers, noop_calls=("warnings.warn", "super().__init__"),
                                 fixed=dict({"random_order_variables": True}, **fixed)))
            return ex.run(samplers["__init__"].body, {"settings": ("opaque", "settings")}, {})
        t = ctor({"n_burn_in_iter": None})
        if pysym.raises(t) != pysym.const(False):
            raise Untranslatable("constructor may raise with a fraction and no explicit count")
        out.append(definition("gen_n_burn_from_frac", [("n_burn_in_iter_frac", "Q"), ("n_iter", "Z")], "Z",
                              Emit(zt, "Z").num(pysym.final(t, "n_burn_in_iter", None))))
        for fx in ({}, {"n_burn_in_iter_frac": None}):
            t = ctor(fx)
            if pysym.raises(t) != pysym.const(False) or pysym.final(t, "n_burn_in_iter", ("var", "n_burn_in_iter")) != ("var", "n_burn_in_iter"):
                raise Untranslatable("an explicit n_burn_in_iter is not kept as given")
        out.append(definition("gen_n_burn_explicit", [("n_burn_in_iter", "Z")], "Z", "n_burn_in_iter"))
        t = ctor({"n_burn_in_iter": None, "n_burn_in_iter_frac": None})
        if pysym.raises(t) != pysym.const(True):
            raise Untranslatable("constructor does not refuse (None, None)")
        run.gen("GenC05", "\n".join(out))
        # what Compose/ScheduleOnRun.v assumes of the two scheduling events of the run program, and the constructor chain of
        # the three algorithms that share the mixin (class hierarchy read from the source)
        prov = c05_run.run_facts()
        for algo_name in ("mcmc_saem",) + PERSO_ALGOS:
            prov += c05_run.constructor_chain(algo_name)
        run.extra["c05_source_facts"] = prov
        run.trusted.append("harness/translate/c05_run.py (python ast: shape of _maximization_step around the two named events, writers of the "
                           "register / of n_burn_in_iter along the class bases, factory -> class -> C3 MRO -> constructor chain of mcmc_saem, "
                           "mean_posterior, mode_posterior)")
        run.trusted.append("translator harness/translate/pysym.py + harness/props/c05.py (python ast -> Gallina for _is_burn_in, _maximization_step, the two constructors)")
        return True
    except (Untranslatable, KeyError, OSError, SyntaxError, AttributeError, IndexError, StopIteration) as e:
        run.broken("translate:GenC05", f"{type(e).__name__}: {e}", kind="broken-translation")
        return False


# ----------------------------------------------------------------------------- implementation side


class StubModel:
    """Minimal model: statistics are distinct dyadic vectors, update_parameters records its arguments."""

    def __init__(self, torch, rng):
        self.torch = torch
        self.rng = rng
        self.calls = []
        self.produced = []

    def compute_sufficient_statistics(self, state):
        t = self.torch
        s = {"a": t.tensor([self.rng.randrange(-64, 64) / 8.0, self.rng.randrange(-64, 64) / 4.0], dtype=t.float64),
             "b": t.tensor(float(self.rng.randrange(1, 1000)) / 16.0, dtype=t.float64)}
        self.produced.append(s)
        return s

    def update_parameters(self, state, suff, *, burn_in):
        self.calls.append((suff, burn_in))


def make_algo(n_iter, n_burn=None, frac_=None, power=0.8, extra=None, name="mcmc_saem"):
    from leaspy.algo import AlgorithmSettings
    from leaspy.algo.fit.mcmc_saem import TensorMcmcSaemAlgorithm
    import warnings
    kw = dict(n_iter=n_iter, burn_in_step_power=power, progress_bar=False)
    if name != "mcmc_saem":
        # the personalisation algorithms that share the mixin: built the way the factory builds them
        from leaspy.algo.base import get_algorithm_class
        kw = dict(n_iter=n_iter, progress_bar=False, n_burn_in_iter=n_burn, n_burn_in_iter_frac=frac_)
        with warnings.catch_warnings():
            warnings.simplefilter("ignore")
            return get_algorithm_class(name)(AlgorithmSettings(name, **kw))
    kw["n_burn_in_iter"] = n_burn
    kw["n_burn_in_iter_frac"] = frac_
    if extra:
        kw.update(extra)
    with warnings.catch_warnings():
        warnings.simplefilter("ignore")
        settings = AlgorithmSettings("mcmc_saem", **kw)
        return TensorMcmcSaemAlgorithm(settings)


def drive(run: Run, n_iter, nb, power, key, late=False):
    """Run the real _maximization_step for k = 1..n_iter on a stub model; return per-iteration records.
    late=True: the algorithm object is built from the default fraction and the explicit count is then given to the BUILT object through
    its documented `load_parameters({...})` — every reader of the count (phase test, step size, flag) must see the same, current value."""
    import torch
    try:
        if late:
            algo = make_algo(n_iter, n_burn=None, frac_=0.9, power=power)
            algo.load_parameters({"n_burn_in_iter": nb})
        else:
            algo = make_algo(n_iter, n_burn=nb, frac_=None, power=power)
    except Exception as e:  # an explicit count with a legal power is an accepted configuration
        run.fail(f"constructor-raises:{type(e).__name__}", f"explicit n_burn_in_iter={nb} (fraction None) refused: {type(e).__name__}: {e}",
                 dict(n_iter=n_iter, n_burn_in_iter=nb, n_burn_in_iter_frac=None, burn_in_step_power=power))
        return []
    if algo.algo_parameters["n_burn_in_iter"] != nb:
        run.fail("n-burn-explicit", "explicit n_burn_in_iter not honoured",
                 dict(n_iter=n_iter, n_burn_in_iter=nb, frac=None, resolved=algo.algo_parameters["n_burn_in_iter"], given_after_construction=late))
    model = StubModel(torch, run.rng("stub", key))
    recs = []
    prev = None
    for k in range(1, n_iter + 1):
        algo.current_iteration = k
        try:
            algo._maximization_step(model, None)
        except Exception as e:
            run.fail(f"maximization-step-raises:{type(e).__name__}", f"_maximization_step raised {type(e).__name__}: {e}",
                     dict(n_iter=n_iter, n_burn_in_iter=nb, burn_in_step_power=power, k=k))
            return recs
        s_k = model.produced[-1]
        suff, flag = model.calls[-1]
        S_k = algo.sufficient_statistics
        recs.append(dict(k=k, memoryless=(S_k is s_k), flag=bool(flag), same_obj=(suff is S_k),
                         s={n: v.clone() for n, v in s_k.items()}, S={n: v.clone() for n, v in S_k.items()},
                         prev=prev))
        prev = {n: v.clone() for n, v in S_k.items()}
    return recs


def check(run: Run):
    from harness.common import use_impl
    use_impl()
    import torch
    from leaspy.exceptions import LeaspyAlgoInputError

    thorough = run.tier == "thorough"
    run.rule = ("exhaustive grid n_iter x n_burn_in_iter x power on the real TensorMcmcSaemAlgorithm._maximization_step with a "
                "stub model (branch, burn_in flag, one-step convex update, step size); guard values for burn_in_step_power; "
                "grid n_iter x fraction for the memory-less length; short real fits. Non-trivial = iteration with memory "
                "(k >= nb+2) or a boundary iteration (k in {nb, nb+1}) or a refused configuration; distinct by canonical tuple.")
    # ---- A. schedule on the stub model
    max_n = 18 if thorough else 11
    powers = [0.51, 0.8, 1.0] if not thorough else [0.5000001, 0.51, 0.6, 0.8, 0.95, 1.0]
    branch_cases, convex_cases, eps_lemmas, eps_meta, meta = [], [], [], [], []
    for n_iter in range(1, max_n + 1):
        for nb in range(0, n_iter + 1):
            for power in (powers if (n_iter + nb) % 3 == 0 or thorough else powers[1:2]):
                late = (n_iter * 7 + nb * 3) % 5 == 0        # a fifth of the grid: count given after construction
                recs = drive(run, n_iter, nb, power, (n_iter, nb, power), late=late)
                run.count("count_given", "to the built object (load_parameters)" if late else "in the settings")
                for r in recs:
                    k = r["k"]
                    nontriv = k >= nb
                    run.case(("sched", n_iter, nb, power, k), nontrivial=nontriv)
                    run.count("phase", "memoryless" if r["memoryless"] else "memory")
                    branch_cases.append(f"({coq_Z(k)}, {coq_Z(nb)}, {coq_bool(r['memoryless'])}, {coq_bool(r['flag'])})")
                    meta.append(dict(n_iter=n_iter, n_burn_in_iter=nb, power=power, k=k, memoryless=r["memoryless"], flag=r["flag"], count_given_after_construction=late))
                    if not r["same_obj"]:
                        run.fail("update-not-given-current-statistics", "update_parameters received an object other than algo.sufficient_statistics",
                                 meta[-1])
                    if r["memoryless"]:
                        # exact: S_k is s_k (same object), nothing more to compare
                        continue
                    # one-step check of the recurrence: recover the step the code used from component b
                    Sp, s, S = r["prev"], r["s"], r["S"]
                    if k - nb <= 0 or Sp is None:
                        continue  # already reported by the branch comparison below
                    e_impl = float(k - nb) ** (-power)
                    for name in ("a", "b"):
                        for sp_, s_, S_ in zip(Sp[name].reshape(-1).tolist(), s[name].reshape(-1).tolist(), S[name].reshape(-1).tolist()):
                            convex_cases.append(f"({coq_Q(sp_)}, {coq_Q(s_)}, {coq_Q(e_impl)}, {coq_Q(S_)})")
                    eps_lemmas.append(f"(Rabs (gen_step {coq_Z(k)} {coq_Z(nb)} {coq_Q(power)} - {frac(e_impl).numerator} / {frac(e_impl).denominator}) <= 1 / 10^12)%R")
                    eps_meta.append(meta[-1])
    run.sample(dict(kind="schedule", **meta[len(meta) // 2]))
    hdr = "From Coq Require Import ZArith QArith Qabs Bool Reals.\nFrom Leaspy Require Import Base.QAux Saem.Schedule.\nFrom LeaspyGen Require Import GenC05.\n"
    bad = run.vm_bad_indices("branch", hdr, "Z * Z * bool * bool", branch_cases,
                             "(fun c => match c with (k, nb, m, f) => Bool.eqb (memoryless k nb) m && Bool.eqb (burn_flag k nb) f "
                             "&& Bool.eqb (gen_memoryless k nb) m && Bool.eqb (gen_burn_flag k nb) f end)")
    for i in bad or []:
        m = meta[i]
        run.fail(f"schedule-branch:k-nb={m['k'] - m['n_burn_in_iter']}",
                 "memory-less test / burn_in flag of the implementation differs from the schedule of the property", m,
                 expected=dict(memoryless=m["k"] <= m["n_burn_in_iter"] + 1, flag=m["k"] <= m["n_burn_in_iter"]),
                 observed=dict(memoryless=m["memoryless"], flag=m["flag"]))
    bad = run.vm_bad_indices("convex", hdr, "Q * Q * Q * Q", convex_cases,
                             "(fun c => match c with (sp, s, e, Sk) => Qle_bool (Qabs (convexQ sp s e - Sk)) ((1 # 1000000000) * (1 + Qabs Sk)) "
                             "&& Qle_bool (Qabs (gen_convex_Q sp s e - Sk)) ((1 # 1000000000) * (1 + Qabs Sk)) end)")
    for i in bad or []:
        run.fail("convex-update", "S_k differs from (1-e_k) S_(k-1) + e_k s_k", convex_cases[i])
    # step size: kernel-checked enclosure of the generated real-valued definition
    if not thorough:
        sel = list(range(0, len(eps_lemmas), max(1, len(eps_lemmas) // 150)))
    else:
        sel = list(range(len(eps_lemmas)))
    hdr_i = "From Coq Require Import Reals ZArith QArith Qreals.\nFrom Interval Require Import Tactic.\nFrom LeaspyGen Require Import GenC05.\nOpen Scope R_scope.\n"
    badl = run.interval_lemmas("eps", hdr_i, [eps_lemmas[i] for i in sel],
                               "unfold gen_step, Q2R; simpl; interval with (i_prec 80).")
    for j in badl or []:
        m = eps_meta[sel[j]]
        run.fail("step-size", "step used by the implementation is not (k - n_burn_in)^(-power)", m)
    run.extra["step_size_lemmas"] = len(sel)

    # ---- B. constructor guard
    guard_vals = [0.5, math.nextafter(0.5, 1), 0.51, 0.75, 1.0, math.nextafter(1.0, 2), 0.0, -1.0, 2.0, 0.25, 0.9999999, 1.5, 1e-9]
    if thorough:
        g = run.rng("guard")
        guard_vals += [g.uniform(-0.5, 1.6) for _ in range(300)]
    gcases, gmeta = [], []
    for p in guard_vals:
        try:
            make_algo(10, n_burn=3, power=p)
            refused = False
        except LeaspyAlgoInputError:
            refused = True
        except Exception as e:
            run.fail(f"guard-raises:{type(e).__name__}", f"burn_in_step_power={p}: {type(e).__name__}: {e}", dict(burn_in_step_power=p))
            continue
        run.case(("guard", p), nontrivial=True)
        run.count("guard", "refused" if refused else "accepted")
        gcases.append(f"({coq_Q(p)}, {coq_bool(refused)})")
        gmeta.append(dict(burn_in_step_power=p, refused=refused))
    # NaN is refused too (comparisons with NaN are false); not expressible in Q, checked directly
    try:
        make_algo(10, n_burn=3, power=float("nan"))
        run.fail("guard-nan", "burn_in_step_power = NaN accepted", dict(burn_in_step_power="nan"))
    except LeaspyAlgoInputError:
        pass
    bad = run.vm_bad_indices("guard", hdr, "Q * bool", gcases,
                             "(fun c => match c with (p, r) => Bool.eqb (negb (power_ok p)) r && Bool.eqb (gen_power_refused p) r end)")
    for i in bad or []:
        run.fail("power-guard", "burn_in_step_power guard differs from `refused iff not in ]0.5, 1]`", gmeta[i])
    run.sample(dict(kind="guard", **gmeta[1]))

    # ---- C. memory-less length
    ncases, nmeta = [], []
    fr_grid = [j / 100 for j in range(0, 101, 5 if not thorough else 1)]
    fr_grid += [0.125, 0.625, 0.875, 1 / 3, 0.999, 0.0625, 0.3125, 2 / 3, 0.9995]      # fractions that are not whole percents
    n_grid = list(range(1, 60 if not thorough else 400, 1 if not thorough else 3))
    off_by_rounding = 0
    # the fit algorithm and the two personalisation algorithms that resolve the count through the SAME mixin constructor
    # (c05_run.constructor_chain): explicit count kept as given, fraction -> int(frac * n_iter)
    for algo_name in ("mcmc_saem",) + PERSO_ALGOS:
        tag = "" if algo_name == "mcmc_saem" else ":" + algo_name
        for n_iter in (n_grid if (algo_name == "mcmc_saem" or not thorough) else n_grid[::3]):
            for fr in fr_grid:
                try:
                    algo = make_algo(n_iter, n_burn=None, frac_=fr, name=algo_name)
                except Exception as e:
                    run.fail(f"constructor-raises:{type(e).__name__}{tag}", f"{algo_name}: n_burn_in_iter_frac={fr} refused: {type(e).__name__}: {e}",
                             dict(algorithm=algo_name, n_iter=n_iter, n_burn_in_iter=None, n_burn_in_iter_frac=fr))
                    continue
                nb = algo.algo_parameters["n_burn_in_iter"]
                run.case(("nburn", n_iter, fr) if not tag else ("nburn", algo_name, n_iter, fr), nontrivial=0 < fr < 1)
                run.count("memoryless_length_algorithm", algo_name)
                # exact-rational model applied to the float product the code computes (fl(frac*n) is itself a double)
                prod = fr * n_iter
                ncases.append(f"({coq_Q(prod)}, {coq_Z(nb) if isinstance(nb, int) and not isinstance(nb, bool) else coq_Z(-1)})")
                nmeta.append(dict(algorithm=algo_name, n_iter=n_iter, n_burn_in_iter_frac=fr, n_burn_in_iter=nb))
                if not isinstance(nb, int) or isinstance(nb, bool):
                    run.fail("n-burn-fraction" + tag, f"{algo_name}: memory-less length is not an integer count", nmeta[-1])
                    continue
                if algo_name == "mcmc_saem" and nb != math.floor(frac(fr) * n_iter):
                    off_by_rounding += 1
                if not (frac(fr) * n_iter - 1 - frac(2) ** -40 * n_iter < nb <= frac(fr) * n_iter * (1 + frac(2) ** -52)):
                    run.fail("n-burn-fraction" + tag, f"{algo_name}: memory-less length is not the configured fraction of the iterations (beyond float rounding)", nmeta[-1])
                elif nb != int(prod):
                    run.fail("n-burn-fraction" + tag, f"{algo_name}: memory-less length is not int(frac * n_iter)", nmeta[-1],
                             expected=int(prod), observed=nb)
    # explicit counts on longer runs too: a count is an integer and must be kept as given, whatever n_iter (a count that goes
    # through a float — count / n_iter * n_iter — loses one for e.g. 29 of 100, 57 of 200, the odd counts above 1000 of 2000)
    explicit = [(10, 3, 0.9), (10, 0, 0.9), (7, 7, None), (5, 9, None), (10, 0, None), (10, 1, 0.0), (12, 0, 0.5)]
    explicit += [(n, c, None) for n in (50, 100, 200) for c in range(0, n + 1, 1 if (thorough or n == 100) else 3)]
    explicit += [(100, c, fr) for c in (29, 57, 58) for fr in (0.9, 0.5)]
    explicit += [(2000, c, None) for c in range(997, 1027, 1 if thorough else 2)]
    rng_x = run.rng("explicit-counts")
    explicit += [(10000, rng_x.randrange(0, 10001), None) for _ in range(300 if thorough else 60)]
    explicit += [(n, rng_x.randrange(0, n + 1), None) for n in (37, 64, 123, 365, 999, 1000, 4096) for _ in range(8)]
    for algo_name in ("mcmc_saem",) + PERSO_ALGOS:
        tag = "" if algo_name == "mcmc_saem" else ":" + algo_name
        for n_iter, nbx, fr in explicit:
            run.case(("nburn-explicit", n_iter, nbx, fr) if not tag else ("nburn-explicit", algo_name, n_iter, nbx, fr))
            try:
                algo = make_algo(n_iter, n_burn=nbx, frac_=fr, name=algo_name)
            except Exception as e:
                run.fail(f"constructor-raises:{type(e).__name__}{tag}", f"{algo_name}: explicit n_burn_in_iter={nbx} refused: {type(e).__name__}: {e}",
                         dict(algorithm=algo_name, n_iter=n_iter, n_burn_in_iter=nbx, n_burn_in_iter_frac=fr))
                continue
            if algo.algo_parameters["n_burn_in_iter"] != nbx or isinstance(algo.algo_parameters["n_burn_in_iter"], bool) \
                    or not isinstance(algo.algo_parameters["n_burn_in_iter"], int):
                run.fail("n-burn-explicit" + tag, f"{algo_name}: explicit n_burn_in_iter not honoured",
                         dict(algorithm=algo_name, n_iter=n_iter, n_burn_in_iter=nbx, frac=fr, resolved=algo.algo_parameters["n_burn_in_iter"]))
        try:
            make_algo(10, n_burn=None, frac_=None, name=algo_name)
            run.fail("n-burn-none" + tag, f"{algo_name}: (None, None) accepted", dict(algorithm=algo_name))
        except LeaspyAlgoInputError:
            pass
        except Exception as e:
            run.fail(f"constructor-raises:{type(e).__name__}{tag}", f"{algo_name}: (None, None): {type(e).__name__}: {e}", dict(algorithm=algo_name))
    # the phase test the personalisation algorithms evaluate is the mixin's: `_is_burn_in()` of the BUILT object over k = 1..n_iter
    pcases, pmeta = [], []
    for algo_name in PERSO_ALGOS:
        for n_iter in range(1, 12):
            for nbx in range(0, n_iter + 1):
                try:
                    algo = make_algo(n_iter, n_burn=nbx, frac_=None, name=algo_name)
                    for k in range(1, n_iter + 1):
                        algo.current_iteration = k
                        f = bool(algo._is_burn_in())
                        run.case(("perso-phase", algo_name, n_iter, nbx, k), nontrivial=k >= nbx)
                        pcases.append(f"({coq_Z(k)}, {coq_Z(nbx)}, {coq_bool(f)})")
                        pmeta.append(dict(algorithm=algo_name, n_iter=n_iter, n_burn_in_iter=nbx, k=k, is_burn_in=f))
                        if f != (k <= nbx):
                            run.fail(f"phase-test:{algo_name}:k-nb={k - nbx}", f"{algo_name}: _is_burn_in() at iteration k is not (k <= n_burn_in_iter)",
                                     pmeta[-1], expected=k <= nbx, observed=f)
                except Exception as e:
                    run.fail(f"constructor-raises:{type(e).__name__}:{algo_name}", f"{algo_name}: {type(e).__name__}: {e}",
                             dict(algorithm=algo_name, n_iter=n_iter, n_burn_in_iter=nbx, n_burn_in_iter_frac=None))
    bad = run.vm_bad_indices("persophase", hdr, "Z * Z * bool", pcases,
                             "(fun c => match c with (k, nb, f) => Bool.eqb (is_burn_in k nb) f && Bool.eqb (gen_is_burn_in k nb) f end)")
    for i in bad or []:
        m = pmeta[i]
        run.fail(f"phase-test:{m['algorithm']}:k-nb={m['k'] - m['n_burn_in_iter']}", "personalisation: phase test differs from the model's / the regenerated `_is_burn_in`", m)
    bad = run.vm_bad_indices("nburn", hdr, "Q * Z", ncases,
                             "(fun c => match c with (x, nb) => Z.eqb (Qtrunc x) nb end)")
    for i in bad or []:
        run.fail("n-burn-fraction" + ("" if nmeta[i]["algorithm"] == "mcmc_saem" else ":" + nmeta[i]["algorithm"]),
                 "n_burn_in_iter is not int(frac * n_iter)", nmeta[i])
    run.extra["n_burn_cases_where_float_product_rounds_below_exact_floor"] = off_by_rounding
    run.sample(dict(kind="n_burn", **nmeta[len(nmeta) // 3]))

    # ---- D. settings reuse: the caller's settings object is not modified by the constructor
    from leaspy.algo import AlgorithmSettings
    from leaspy.algo.fit.mcmc_saem import TensorMcmcSaemAlgorithm
    st = AlgorithmSettings("mcmc_saem", n_iter=20, progress_bar=False)
    TensorMcmcSaemAlgorithm(st)
    if st.parameters["n_burn_in_iter"] is not None:
        run.fail("settings-mutated", "constructor wrote n_burn_in_iter into the caller's settings", {})

    # ---- E. real fits see the same schedule
    real_fit_schedule(run, thorough)


def _t(v):
    """plain tensor copy of a statistic (WeightedTensor -> its raw values)"""
    v = getattr(v, "value", v)
    return v.detach().clone()


def real_fit_schedule(run: Run, thorough: bool, only=None):
    """Wrap _maximization_step in short real fits: the branch taken and the flag must follow the model,
    and S_k must satisfy the recurrence (float32 tolerance)."""
    import torch
    from harness import synth
    from leaspy.algo.fit.mcmc_saem import TensorMcmcSaemAlgorithm
    from leaspy.algo.algo_with_samplers import AlgorithmWithSamplersMixin
    configs = [("logistic", 8, 3, 0.8, False), ("linear", 7, 0, 1.0, False), ("logistic", 7, 2, 0.7, True)]
    if thorough:
        configs += [("logistic", 12, 12, 0.6, False), ("shared_speed_logistic", 9, 4, 0.51, False), ("logistic", 10, 9, 0.8, False),
                    ("linear", 9, 0, 0.9, True)]
    if only is not None:
        configs = [only]
    orig = TensorMcmcSaemAlgorithm._maximization_step
    trace_cases, trace_meta, mstep_cases, mstep_meta = [], [], [], []
    for kind, n_iter, nb, power, reuse in configs:
        log = []
        ev = []          # (event code of Api/RunProg.v, self.current_iteration) of every sampler / statistics / maximisation / temperature call

        def init_samplers(self, state, dataset, _ev=ev):
            # wrap (never replace) the `sample` of THIS run's sampler objects and this object's `_update_temperature`
            r = AlgorithmWithSamplersMixin._c05_orig_init_samplers(self, state, dataset)
            for smp in self.samplers.values():
                def sample(*a, _real=smp.sample, _algo=self, **k):
                    _ev.append((11, _algo.current_iteration))
                    return _real(*a, **k)
                smp.sample = sample
            def temperature(_real=self._update_temperature, _algo=self):
                _ev.append((14, _algo.current_iteration))
                return _real()
            self._update_temperature = temperature
            return r

        def wrapped(self, model, state, _orig=orig, _log=log):
            prev = None if getattr(self, "sufficient_statistics", None) is None else {k: _t(v) for k, v in self.sufficient_statistics.items()}
            seen = {}
            real_css = model.compute_sufficient_statistics

            def css(st, _ev=ev, _algo=self):
                _ev.append((12, _algo.current_iteration))
                r = real_css(st)
                seen["s"] = r
                return r
            real_up = model.update_parameters
            def up(st, suff, *, burn_in, _ev=ev, _algo=self):
                _ev.append((13, _algo.current_iteration))
                seen["flag"] = burn_in
                return real_up(st, suff, burn_in=burn_in)
            model.compute_sufficient_statistics = css
            model.update_parameters = up
            try:
                _orig(self, model, state)
            finally:
                del model.compute_sufficient_statistics
                del model.update_parameters
            _log.append(dict(k=self.current_iteration, nb=self.algo_parameters["n_burn_in_iter"], prev=prev,
                             s={k: _t(v) for k, v in seen["s"].items()},
                             S={k: _t(v) for k, v in self.sufficient_statistics.items()}, flag=seen["flag"],
                             memoryless=self.sufficient_statistics is seen["s"]))
        TensorMcmcSaemAlgorithm._maximization_step = wrapped
        AlgorithmWithSamplersMixin._c05_orig_init_samplers = AlgorithmWithSamplersMixin._initialize_samplers
        TensorMcmcSaemAlgorithm._initialize_samplers = init_samplers
        try:
            if reuse:
                # ONE algorithm object, two runs (algorithm_factory(settings); algo.run(model, dataset) twice): the schedule of the second
                # run must restart from iteration 1 — nothing of the first run (step counter, statistics) may be left in the object
                from leaspy.algo import AlgorithmSettings, algorithm_factory
                from leaspy.io.data import Dataset
                import warnings as _w
                with _w.catch_warnings():
                    _w.simplefilter("ignore")
                    import io as _io, contextlib as _cl
                    with _cl.redirect_stdout(_io.StringIO()):
                        df = synth.make_df(n_ind=10, n_feat=2, seed=run.seed % 1000, kind=kind)
                        st = AlgorithmSettings("mcmc_saem", n_iter=n_iter, seed=run.seed % 1000, n_burn_in_iter=nb, n_burn_in_iter_frac=None,
                                               burn_in_step_power=power, progress_bar=False)
                        algo = algorithm_factory(st)
                        for rep in range(2):
                            model = synth.make_model(kind, 2)
                            ds = Dataset(synth.make_data(df, kind))
                            model.initialize(ds)
                            algo.run(model, ds)
                            if rep == 0:
                                del log[:]          # keep the records of the SECOND run only
                                del ev[:]
                            algo.__dict__.pop("_update_temperature", None)
            else:
                synth.fit(kind, n_iter=n_iter, seed=run.seed % 1000, n_burn_in_iter=nb, n_burn_in_iter_frac=None, burn_in_step_power=power)
        except Exception as e:
            run.fail(f"real-fit-raises:{type(e).__name__}", f"fit raised {type(e).__name__}: {e}",
                     dict(kind=kind, n_iter=n_iter, n_burn_in_iter=nb, burn_in_step_power=power, same_algorithm_object_run_twice=reuse))
            continue
        finally:
            TensorMcmcSaemAlgorithm._maximization_step = orig
            del TensorMcmcSaemAlgorithm._initialize_samplers
            del AlgorithmWithSamplersMixin._c05_orig_init_samplers
        # ---- the run is an execution of the program regenerated from the source (order of the events, counter seen by each)
        cfg = dict(kind=kind, n_iter=n_iter, n_burn_in_iter=nb, burn_in_step_power=power, same_algorithm_object_run_twice=reuse)
        run_order_oracle(run, ev, log, cfg)
        nvs = [sum(1 for c, i in ev if c == 11 and i == j) for j in range(1, n_iter + 1)]
        trace_cases.append(f"({n_iter}, {coq_list([str(v) for v in nvs])}, {coq_list([f'({c}, {i})' for c, i in ev])})")
        trace_meta.append(dict(cfg, events=len(ev)))
        mstep_cases.append(f"({n_iter}, {coq_Z(nb)}, " + coq_list([f"({int(r['k'])}, {coq_bool(r['memoryless'])}, {coq_bool(bool(r['flag']))})" for r in log]) + ")")
        mstep_meta.append(dict(cfg, maximisations=len(log)))
        if len(log) != n_iter:
            run.fail("real-fit-iterations", f"{len(log)} maximisation steps for n_iter={n_iter}", dict(kind=kind))
        for r in log:
            k = r["k"]
            run.case(("fit", kind, n_iter, nb, power, k), nontrivial=k >= nb)
            exp_m, exp_f = k <= nb + 1, k <= nb
            if r["memoryless"] != exp_m or bool(r["flag"]) != exp_f:
                run.fail(f"schedule-branch:k-nb={k - nb}", "real fit: memory-less test / burn_in flag differs from the schedule",
                         dict(kind=kind, n_iter=n_iter, n_burn_in_iter=nb, k=k, memoryless=r["memoryless"], flag=r["flag"]))
            if not exp_m and r["prev"] is not None:
                e = float(k - nb) ** (-power)
                for name, S in r["S"].items():
                    want = r["prev"][name].double() * (1 - e) + e * r["s"][name].double()
                    fin = torch.isfinite(want)
                    err = (S.double() - want)[fin].abs().max().item() if fin.any() else 0.0
                    scale = 1 + want[fin].abs().max().item() if fin.any() else 1.0
                    if err > 1e-4 * scale:
                        run.fail("convex-update" + (":second-run-of-one-algorithm-object" if reuse else ""),
                                 f"real fit: S_k[{name}] off the recurrence by {err:.3g}",
                                 dict(kind=kind, n_iter=n_iter, n_burn_in_iter=nb, k=k, stat=name, same_algorithm_object_run_twice=reuse))
        run.sample(dict(kind="real-fit", model=kind, n_iter=n_iter, n_burn_in_iter=nb, power=power,
                        branches=["M" if r["memoryless"] else "C" for r in log]))
    # T2, inside Coq: the recorded event sequence IS the key-event projection of the unfolded program regenerated from the source
    # (GenC11.v), and every recorded maximisation (counter seen, branch taken, flag passed) is what the program's AMStep event at
    # that position does with the regenerated rules (GenC05.v)
    hdr = ("From Coq Require Import ZArith List Bool.\nFrom Leaspy Require Import Api.RunProg Compose.ScheduleOnRun Compose.ScheduleOnRunTie.\n"
           "Local Open Scope nat_scope.\n")
    bad = run.vm_bad_indices("runtrace", hdr, "nat * list nat * list (nat * nat)", trace_cases, "check_trace")
    for i in bad or []:
        run.fail("run-program-trace", "the sampler / statistics / maximisation / temperature calls of a real fit are not the events of the "
                 "run program regenerated from the source, in its order, at its counter values", trace_meta[i])
    bad = run.vm_bad_indices("runmsteps", hdr, "nat * Z * list (nat * bool * bool)", mstep_cases, "check_msteps")
    for i in bad or []:
        run.fail("run-program-maximisations", "the maximisations of a real fit (counter seen, branch, burn_in flag) are not those of the AMStep "
                 "events of the run program with the regenerated rules", mstep_meta[i])
    run.extra["run_program_traces"] = dict(fits=len(trace_cases), events=sum(m["events"] for m in trace_meta))


def run_order_oracle(run: Run, ev, log, cfg):
    """Implementation-side oracle (no Coq): in iteration j = 1..n_iter every sampler call, then ONE compute_sufficient_statistics, ONE
    update_parameters, then the temperature update — each seeing self.current_iteration == j."""
    names = {11: "sample", 12: "statistics", 13: "maximisation", 14: "temperature"}
    n_iter = cfg["n_iter"]
    # the counter seen by the j-th maximisation
    for j, r in enumerate(log, 1):
        if r["k"] != j:
            run.fail(f"mstep-counter:seen-minus-ordinal={r['k'] - j}",
                     "the j-th maximisation of the run evaluates the phase test / the step / the burn_in flag at a counter value other than j",
                     dict(cfg, maximisation=j, current_iteration_seen=r["k"]), expected=j, observed=r["k"])
            break
    # split the events into iterations: an iteration ends with its maximisation.  Where the temperature update stands is NOT part
    # of the property (it touches the temperature registers only): it is left out here — only the Coq statement says where the source has it
    chunks, cur = [], []
    for c, i in ev:
        if c == 14:
            continue
        cur.append((c, i))
        if c == 13:
            chunks.append(cur)
            cur = []
    if cur:
        chunks.append(cur)
    for j, ch in enumerate(chunks, 1):
        codes = [c for c, _ in ch]
        ns = codes.count(11)
        if codes != [11] * ns + [12, 13] or ns == 0:
            shape = "-".join(names[c] for c, g in itertools.groupby(codes))
            run.fail(f"iteration-order:{shape}", "events of one iteration are not: every sampler, then the sufficient statistics, then the maximisation",
                     dict(cfg, iteration=j, events=[names[c] for c in codes]))
            return
        if any(i != j for _, i in ch):
            run.fail("iteration-counter", "a sampler / statistics / maximisation call of iteration j does not see self.current_iteration == j",
                     dict(cfg, iteration=j, counters=[i for _, i in ch]))
            return
    if len(chunks) != n_iter:
        run.fail("real-fit-iterations", f"{len(chunks)} iterations with a maximisation for n_iter={n_iter}", dict(cfg))


def main(run: Run):
    ok_t = translate(run)
    ok_p = run.prove("C05", OBLIGATIONS) if ok_t else False
    run.assumptions += [
        "float product fl(frac*n_iter) is taken from the implementation; the theorem about the fraction is over exact rationals",
        "statistics are compared point-wise; torch element-wise arithmetic is IEEE double/single",
    ]
    run.explanation = ("Theorems (Coq, unbounded in n_iter, n_burn_in, power, statistic sequence) on a model whose decision rules are "
                       "regenerated from the source by symbolic execution of the Python AST and proved equal to the hand-written model; "
                       "the implementation is run on the same configurations and compared inside Coq (vm_compute, exact rationals) and by "
                       "kernel-checked interval lemmas for the real-valued step.")
    if ok_t:
        check(run)
    else:
        # the tie is broken: still search the implementation for a failing input with the previous model
        try:
            check(run)
        except Exception as e:  # noqa
            run.broken("search", f"{type(e).__name__}: {e}")
    return run.finish()


def replay(run: Run, path: str):
    """Re-run one recorded configuration on the current tree and compare with the schedule of the property."""
    import json
    from harness.common import use_impl
    use_impl()
    d = json.load(open(path))
    inp = d.get("input") or {}
    if isinstance(inp, dict) and inp.get("algorithm") in ("mcmc_saem",) + PERSO_ALGOS and "n_iter" in inp:
        # a constructor case: the memory-less length resolved for (algorithm, n_iter, count, fraction)
        name, n_iter = inp["algorithm"], int(inp["n_iter"])
        fr = inp.get("n_burn_in_iter_frac", inp.get("frac"))
        given = inp.get("n_burn_in_iter") if ("resolved" in inp or fr is None) else None
        try:
            got = make_algo(n_iter, n_burn=given, frac_=fr, name=name).algo_parameters["n_burn_in_iter"]
        except Exception as e:
            print(f"{name}: constructor raised {type(e).__name__}: {e}")
            print("REPLAY FAILS")
            return 1
        if "is_burn_in" in inp:       # a phase-test case of a personalisation algorithm
            algo = make_algo(n_iter, n_burn=given, frac_=None, name=name)
            bad = 0
            for k in range(1, n_iter + 1):
                algo.current_iteration = k
                f = bool(algo._is_burn_in())
                bad += f != (k <= given)
                print(f"{name}: k={k} n_burn_in_iter={given} _is_burn_in()={f} expected={k <= given}")
            print("REPLAY", "FAILS" if bad else "passes")
            return 1 if bad else 0
        want = given if given is not None else int(fr * n_iter)
        print(f"{name}: n_iter={n_iter} count={given} fraction={fr}: n_burn_in_iter resolved to {got}, expected {want}")
        print("REPLAY", "FAILS" if got != want else "passes")
        return 1 if got != want else 0
    if isinstance(inp, dict) and "kind" in inp and "same_algorithm_object_run_twice" in inp:
        # a real-fit configuration: re-run it with the recording wrappers and the order / counter oracles
        real_fit_schedule(run, False, only=(inp["kind"], int(inp["n_iter"]), int(inp["n_burn_in_iter"]),
                                            float(inp.get("burn_in_step_power", 0.8)), bool(inp["same_algorithm_object_run_twice"])))
        for f in run._fails:
            print(f"{f['signature']}: {f['what']} -- {f['input']}")
        bad = bool(run._fails)
        print("REPLAY", "FAILS" if bad else "passes")
        return 1 if bad else 0
    if not isinstance(inp, dict) or "n_burn_in_iter" not in inp:
        print("replay: this file records a broken obligation, re-run the check itself:", [b["name"] for b in d.get("broken", [])])
        return main(run)
    n_iter = int(inp.get("n_iter", inp.get("k", 1)))
    nb, power = int(inp["n_burn_in_iter"]), float(inp.get("burn_in_step_power", inp.get("power", 0.8)))
    recs = drive(run, n_iter, nb, power, ("replay",))
    bad = 0
    for r in recs:
        k = r["k"]
        exp = (k <= nb + 1, k <= nb)
        ok = (r["memoryless"], r["flag"]) == exp
        bad += not ok
        print(f"k={k} memoryless={r['memoryless']} burn_in={r['flag']} expected={exp} {'ok' if ok else 'MISMATCH'}")
    if len(recs) < n_iter:
        bad += 1
        print("implementation raised before the run completed")
    print("REPLAY", "FAILS" if bad else "passes")
    return 1 if bad else 0
