"""C10 — re-centring is a pure gauge change; space shifts are orthogonal to progression."""
from __future__ import annotations

import ast
import inspect
import json
import math
import textwrap
from fractions import Fraction

from harness.common import Run, coq_R, frac

META = dict(
    technique="Coq theorems over R (vectors as list R, any dimension) about definitions regenerated from the code: trajectories / "
              "attachment / event terms by tracing the running node functions, compute_orthonormal_basis and the two "
              "_center_xi_realizations by a fail-closed python-ast translation, the DAG wiring by introspection; "
              "kernel-checked interval lemmas tie the generated definitions to real tensor outputs",
    level_text="Unbounded theorems: the gauge move (xi - m, log_v0 + m[, n_log_nu + m]) leaves the generated trajectory, attachment and "
               "Weibull event terms of logistic / linear / joint (with and without sources) unchanged for all reals; centred xi have "
               "mean 0; the Householder basis is invariant under d -> c d (c > 0) and, in any dimension, every kept column, every "
               "row of (B betas)^T and every row of sources (B betas)^T is orthogonal to G o d when (G o d)_0 <> 0 (always true "
               "for the directions the models pass); the translated re-centring scripts perform exactly the gauge move and touch "
               "nothing else.  The model is regenerated from the source on every run.",
    level_note="Trusted: Coq kernel; stdlib real-number axioms as printed; the tracer (harness/translate/formulas.py) and the two "
               "ast translators in harness/props/c10.py; Coq-Interval for the generated enclosure lemmas only; torch kernels "
               "(matmul, norm, sign, eye, cat, mean) modelled by hand in Formulas/Ortho.v / Gauge.v and compared entry-wise with "
               "real outputs; float rounding is outside the theorems (oracle tolerances stated).  Not covered: the 0-D / 2-D "
               "metric branches of compute_orthonormal_basis and strip_col <> 0 (unused by the models), the mixture model "
               "(not in the property's quantifier), freshness of reads after the puts (C01).",
    design_ref="DESIGN.md section 4 C10",
)

OBLIGATIONS = [
    "C10_gauge_traj", "C10_gauge_traj_sources", "C10_gauge_event", "C10_attach", "C10_zero_mean",
    "C10_basis_collinear", "C10_gauge_basis", "C10_orthogonal", "C10_orthogonal_first_zero_refuted",
    "C10_direction_positive", "C10_mixing_orthogonal", "C10_space_shift_orthogonal", "C10_metric_is_trajectory_metric",
    "C10_script", "C10_script_joint", "C10_tie_ortho_basis", "C10_tie_wiring",
]

KINDS_GAUGE = ["logistic", "linear", "joint"]          # model kinds with the re-centring step
KINDS_ORTHO = ["logistic", "linear", "joint", "shared_speed_logistic"]   # kinds with an orthonormal basis
SHORT = {"logistic": "logistic", "linear": "linear", "joint": "joint", "shared_speed_logistic": "shared"}

# canonical parameter order of the generated scalar definitions
ORDER = ["y", "noise_std", "event_time", "event_bool", "log_g", "g", "log_v0", "log_rho", "n_log_nu", "deltas_padded",
         "xi", "tau", "t", "space_shifts", "survival_shifts"]


class Untranslatable(Exception):
    pass


# ============================================================================== T1 (a): traced formulas


def _extend_tracer():
    """`torch.ones_like` / `zeros_like` of a symbolic scalar are the constants 1 / 0 (additive, local to this check)."""
    from harness.translate.formulas import Sym
    if getattr(Sym, "_c10_ext", False):
        return
    orig = Sym.__torch_function__.__func__

    def tf(cls, func, types, args=(), kwargs=None):
        name = getattr(func, "__name__", str(func))
        if name == "ones_like" and len(args) == 1:
            return Sym(("const", Fraction(1)))
        if name == "zeros_like" and len(args) == 1:
            return Sym(("const", Fraction(0)))
        return orig(cls, func, types, args, kwargs)

    Sym.__torch_function__ = classmethod(tf)
    Sym._c10_ext = True


def build_model(kind, n_feat, source_dimension, seed=0, n_ind=6):
    """A real, initialised model of `kind` (state holds parameters and population variables)."""
    from harness import synth
    from leaspy.io.data.dataset import Dataset
    m = synth.make_model(kind, n_feat, source_dimension)
    df = synth.make_df(n_ind=n_ind, n_feat=n_feat, seed=seed, joint=(kind == "joint"), kind=kind)
    m.initialize(Dataset(synth.make_data(df, kind)))
    return m


INJECTED = ["orthonormal_basis", "mixing_matrix", "space_shifts", "survival_shifts", "deltas_padded"]


def symbolic(m):
    """symbolic clone of the model's state; non-scalar derived nodes (basis, matmul results, padded deltas)
    are injected as symbols of their own — they are covered by the list-level model."""
    from harness.translate.formulas import S, symbolic_state
    from leaspy.utils.weighted_tensor import WeightedTensor
    st = symbolic_state(m.state)
    if "event" in st.dag:
        st._values["event"] = WeightedTensor(S("event_time"), S("event_bool"))
    for n in INJECTED:
        if n in st.dag:
            st._values[n] = S(n)
    return st


def params_of(e):
    from harness.translate.formulas import variables
    vs = variables(e)
    unknown = [v for v in vs if v not in ORDER]
    if unknown:
        raise Untranslatable(f"formula depends on unexpected variables {unknown}")
    return [v for v in ORDER if v in vs]


INFINITY_NAME = "INFINITY_c"


def defn(name, ps, e, named=None):
    """formulas.definition, also for constants (no binder)"""
    from harness.translate.formulas import definition
    return definition(name, ps, e, named).replace(f"Definition {name} ( : R) : R", f"Definition {name} : R")


def traced_definitions(out, sigs):
    """trajectories / attachment / event terms per kind, without and with sources"""
    from harness.translate.formulas import definition, expr_of, const_definition
    from leaspy import constants
    inf = Fraction(*float(constants.INFINITY).as_integer_ratio()) if hasattr(constants, "INFINITY") else None
    try:
        from leaspy.constants import constants as cst
        inf = Fraction(*float(cst.INFINITY).as_integer_ratio())
    except Exception:
        pass
    if inf is None:
        raise Untranslatable("leaspy constants.INFINITY not found")
    out.append(const_definition(INFINITY_NAME, inf))
    named = {inf: INFINITY_NAME}
    for kind in KINDS_GAUGE:
        for src in (False, True):
            m = build_model(kind, 3 if src else 1, 1 if src else None)
            st = symbolic(m)
            suffix = "_src" if src else ""
            nodes = [("traj", "model")]
            if kind == "joint":
                nodes += [("attach", "nll_attach_y_ind"), ("event", "nll_attach_event_ind")]
            else:
                nodes += [("attach", "nll_attach_ind")]
            for short, node in nodes:
                e = expr_of(st[node])
                ps = params_of(e)
                name = f"gen_{SHORT[kind]}_{short}{suffix}"
                out.append(defn(name, ps, e, named))
                sigs[name] = ps
            if kind == "joint":
                # the DAG must define the individual attachment as the sum of the two terms
                f = m.state.dag["nll_attach_ind"].f
                from leaspy.utils.functional import Sum
                ref = Sum("nll_attach_y_ind", "nll_attach_event_ind")
                if getattr(f, "f", None) is not ref.f or tuple(f.parameters) != tuple(ref.parameters):
                    raise Untranslatable("joint nll_attach_ind is no longer Sum(nll_attach_y_ind, nll_attach_event_ind)")


# ============================================================================== T1 (b): compute_orthonormal_basis by ast


class OrthoTranslator:
    """Straight-line translation of utils/linalg.py:compute_orthonormal_basis for a 1-D direction and a 1-D metric,
    strip_col at its default.  Types: S scalar, V vector, C vector viewed as a column, M matrix, N nat, SH shape."""

    def __init__(self, fn: ast.FunctionDef):
        self.fn = fn
        a = fn.args
        pos = [x.arg for x in a.args]
        if pos != ["dgamma_t0", "G_metric"] or [x.arg for x in a.kwonlyargs] != ["strip_col"]:
            raise Untranslatable(f"signature changed: {pos} / {[x.arg for x in a.kwonlyargs]}")
        d = a.kw_defaults[0]
        if not (isinstance(d, ast.Constant) and isinstance(d.value, int) and not isinstance(d.value, bool) and d.value >= 0):
            raise Untranslatable("strip_col default is not a non-negative int literal")
        self.strip = d.value
        self.env = {"dgamma_t0": "V", "G_metric": "V", "strip_col": "N"}
        self.shape_of = {}
        self.lets = []
        self.pre = []
        self.ret = None

    # -- expressions
    def nat(self, n):
        if isinstance(n, ast.Name) and n.id == "strip_col":
            return str(self.strip)
        if isinstance(n, ast.Name) and self.env.get(n.id) == "N":
            return n.id
        if isinstance(n, ast.Constant) and isinstance(n.value, int) and not isinstance(n.value, bool) and n.value >= 0:
            return str(n.value)
        if isinstance(n, ast.BinOp) and isinstance(n.op, ast.Add):
            return f"({self.nat(n.left)} + {self.nat(n.right)})"
        raise Untranslatable(f"index expression {ast.unparse(n)}")

    def expr(self, n):
        if isinstance(n, ast.Name):
            if n.id not in self.env:
                raise Untranslatable(f"unknown name {n.id}")
            t = self.env[n.id]
            if t == "N":
                raise Untranslatable(f"{n.id} used as a real")
            return n.id, t
        if isinstance(n, ast.Constant) and isinstance(n.value, (int, float)) and not isinstance(n.value, bool):
            f = Fraction(*float(n.value).as_integer_ratio())
            s = str(f.numerator) if f.denominator == 1 else f"({f.numerator} / {f.denominator})"
            return (s if f >= 0 else f"({s})"), "S"
        if isinstance(n, ast.UnaryOp) and isinstance(n.op, ast.USub):
            c, t = self.expr(n.operand)
            if t != "S":
                raise Untranslatable("unary minus on a non-scalar")
            return f"(- {c})", "S"
        if isinstance(n, ast.BinOp):
            (a, ta), (b, tb) = self.expr(n.left), self.expr(n.right)
            op = type(n.op).__name__
            table = {
                ("Mult", "S", "S"): (f"({a} * {b})", "S"), ("Sub", "S", "S"): (f"({a} - {b})", "S"),
                ("Add", "S", "S"): (f"({a} + {b})", "S"), ("Div", "S", "S"): (f"({a} / {b})", "S"),
                ("Mult", "S", "V"): (f"(vscale {a} {b})", "V"), ("Mult", "V", "S"): (f"(vscale {b} {a})", "V"),
                ("Mult", "S", "C"): (f"(vscale {a} {b})", "C"),
                ("Mult", "V", "V"): (f"(vmul {a} {b})", "V"), ("Sub", "V", "V"): (f"(vsub {a} {b})", "V"),
                ("Add", "V", "V"): (f"(vadd {a} {b})", "V"), ("Div", "V", "S"): (f"(vdivs {a} {b})", "V"),
                ("Mult", "C", "V"): (f"(outer {a} {b})", "M"), ("Sub", "M", "M"): (f"(msub {a} {b})", "M"),
            }
            if (op, ta, tb) not in table:
                raise Untranslatable(f"operator {op} on types {ta},{tb} in {ast.unparse(n)}")
            return table[(op, ta, tb)]
        if isinstance(n, ast.Call):
            fn = ast.unparse(n.func)
            if fn in ("torch.sign", "torch.norm", "torch.zeros_like", "torch.eye") and len(n.args) == 1 and not n.keywords:
                if fn == "torch.eye":
                    return f"(eye {self.nat(n.args[0])})", "M"
                c, t = self.expr(n.args[0])
                if fn == "torch.sign" and t == "S":
                    return f"(sign {c})", "S"
                if fn == "torch.norm" and t == "V":
                    return f"(vnorm {c})", "S"
                if fn == "torch.zeros_like" and t == "V":
                    return f"(vzeros_like {c})", "V"
                raise Untranslatable(f"{fn} on type {t}")
            if isinstance(n.func, ast.Attribute) and n.func.attr == "view" and not n.keywords:
                c, t = self.expr(n.func.value)
                if t == "V" and ast.unparse(ast.Tuple(n.args, ast.Load())) == "(-1, 1)":
                    return c, "C"
                raise Untranslatable(f"view {ast.unparse(n)}")
            if fn == "torch.cat" and len(n.args) == 1 and isinstance(n.args[0], ast.Tuple) and len(n.args[0].elts) == 2 \
                    and len(n.keywords) == 1 and n.keywords[0].arg == "dim" and ast.unparse(n.keywords[0].value) == "1":
                (a, ta), (b, tb) = self.expr(n.args[0].elts[0]), self.expr(n.args[0].elts[1])
                if ta == tb == "M":
                    return f"(mcat_cols {a} {b})", "M"
            raise Untranslatable(f"call {ast.unparse(n)}")
        if isinstance(n, ast.Subscript):
            c, t = self.expr(n.value)
            s = n.slice
            if t == "V" and not isinstance(s, (ast.Slice, ast.Tuple)):
                return f"(vget {c} {self.nat(s)})", "S"
            if t == "M" and isinstance(s, ast.Tuple) and len(s.elts) == 2 and isinstance(s.elts[0], ast.Slice) \
                    and s.elts[0].lower is None and s.elts[0].upper is None and s.elts[0].step is None \
                    and isinstance(s.elts[1], ast.Slice) and s.elts[1].step is None:
                lo, up = s.elts[1].lower, s.elts[1].upper
                if lo is None and up is not None:
                    return f"(cols_before {self.nat(up)} {c})", "M"
                if lo is not None and up is None:
                    return f"(cols_from {self.nat(lo)} {c})", "M"
            raise Untranslatable(f"subscript {ast.unparse(n)}")
        raise Untranslatable(f"expression {ast.unparse(n)}")

    # -- statements
    def let(self, name, code, typ):
        self.lets.append((name, code))
        self.env[name] = typ

    def guard(self, st: ast.If):
        """`if <bad>: raise ...` -> a precondition"""
        if not (len(st.body) == 1 and isinstance(st.body[0], ast.Raise) and not st.orelse):
            raise Untranslatable(f"unexpected conditional {ast.unparse(st.test)}")
        t = ast.unparse(st.test)
        if t == "not (G_metric > 0).all()" and self.env["G_metric"] == "V":
            self.pre.append("Forall (fun x => 0 < x) G_metric")
        elif t == "G_shape != (dimension,)" and self.shape_of.get("G_shape") == "G_metric" and self.env.get("dimension") == "N":
            self.pre.append("length G_metric = dimension")
        else:
            raise Untranslatable(f"unknown guard `{t}`")

    def stmt(self, st):
        if isinstance(st, ast.Expr) and isinstance(st.value, ast.Constant) and isinstance(st.value.value, str):
            return
        if isinstance(st, ast.Assert):
            t = ast.unparse(st.test)
            if t == "dgamma_t0.ndim == 1" and self.env["dgamma_t0"] == "V":
                return
            if t == "isinstance(strip_col, int) and 0 <= strip_col < dimension" and self.env.get("dimension") == "N":
                self.pre.append(f"({self.strip} < dimension)%nat")
                return
            raise Untranslatable(f"unknown assertion `{t}`")
        if isinstance(st, ast.Assign) and len(st.targets) == 1:
            tg, v = st.targets[0], st.value
            if isinstance(tg, ast.Tuple) and len(tg.elts) == 1 and isinstance(tg.elts[0], ast.Name) \
                    and ast.unparse(v) == "dgamma_t0.shape" and self.env["dgamma_t0"] == "V":
                self.let(tg.elts[0].id, "length dgamma_t0", "N")
                return
            if isinstance(tg, ast.Name) and isinstance(v, ast.Attribute) and v.attr == "shape" and isinstance(v.value, ast.Name):
                self.shape_of[tg.id] = v.value.id
                return
            if isinstance(tg, ast.Name):
                c, t = self.expr(v)
                self.let(tg.id, c, t)
                return
            if isinstance(tg, ast.Subscript) and isinstance(tg.value, ast.Name) and self.env.get(tg.value.id) == "V":
                c, t = self.expr(v)
                if t != "S":
                    raise Untranslatable("vector entry assigned a non-scalar")
                self.let(tg.value.id, f"vset {tg.value.id} {self.nat(tg.slice)} {c}", "V")
                return
            raise Untranslatable(f"assignment {ast.unparse(st)}")
        if isinstance(st, ast.If):
            # the chain on len(G_shape): take the branch of a 1-D metric
            t = ast.unparse(st.test)
            mm = None
            for k in (0, 1, 2):
                if t == f"len(G_shape) == {k}":
                    mm = k
            if mm is not None and self.shape_of.get("G_shape") == "G_metric":
                if mm == 1:
                    for s in st.body:
                        self.stmt(s)
                    return
                if len(st.orelse) == 1 and isinstance(st.orelse[0], ast.If):
                    return self.stmt(st.orelse[0])
                raise Untranslatable("no branch for a 1-D metric")
            return self.guard(st)
        if isinstance(st, ast.Return) and st.value is not None:
            c, t = self.expr(st.value)
            if t != "M":
                raise Untranslatable("does not return a matrix")
            self.ret = c
            return
        raise Untranslatable(f"statement {ast.unparse(st)[:80]}")

    def run(self):
        for i, st in enumerate(self.fn.body):
            if self.ret is not None:
                raise Untranslatable("statements after return")
            self.stmt(st)
        if self.ret is None:
            raise Untranslatable("no return")
        # preconditions mention `dimension`: bind it
        pre = " /\\ ".join(f"({p})" for p in self.pre) or "True"
        out = "Definition gen_ortho_pre (dgamma_t0 G_metric : list R) : Prop :=\n  let dimension := length dgamma_t0 in\n  " + pre + ".\n\n"
        out += "Definition gen_ortho_basis (dgamma_t0 G_metric : list R) : matrix :=\n"
        for n, c in self.lets:
            out += f"  let {n} := {c} in\n"
        out += f"  {self.ret}.\n"
        return out


def translate_linalg():
    from harness.common import SRC
    tree = ast.parse((SRC / "utils" / "linalg.py").read_text())
    fns = [n for n in tree.body if isinstance(n, ast.FunctionDef) and n.name == "compute_orthonormal_basis"]
    if len(fns) != 1:
        raise Untranslatable("compute_orthonormal_basis not found in utils/linalg.py")
    return OrthoTranslator(fns[0]).run()


# ============================================================================== T1 (c): the re-centring scripts by ast


def _fn_ast(fn):
    src = textwrap.dedent(inspect.getsource(fn))
    tree = ast.parse(src)
    f = tree.body[0]
    if not isinstance(f, ast.FunctionDef):
        raise Untranslatable("not a function")
    body = f.body
    if body and isinstance(body[0], ast.Expr) and isinstance(body[0].value, ast.Constant) and isinstance(body[0].value.value, str):
        body = body[1:]
    return f, body


def script_of(cls):
    """`cls._center_xi_realizations` as a list of ops (Gallina literal) + the python-side op list"""
    fn = cls._center_xi_realizations.__func__
    f, body = _fn_ast(fn)
    if [a.arg for a in f.args.args] != ["cls", "state"]:
        raise Untranslatable("_center_xi_realizations signature changed")
    locs = set()

    def ex(n):
        if isinstance(n, ast.Subscript) and isinstance(n.value, ast.Name) and n.value.id == "state" \
                and isinstance(n.slice, ast.Constant) and isinstance(n.slice.value, str):
            return f'SRead "{n.slice.value}"'
        if isinstance(n, ast.Name) and n.id in locs:
            return f'SLocal "{n.id}"'
        if isinstance(n, ast.Call) and ast.unparse(n.func) == "torch.mean" and len(n.args) == 1 and not n.keywords:
            return f"SMean ({ex(n.args[0])})"
        if isinstance(n, ast.BinOp) and isinstance(n.op, (ast.Add, ast.Sub)):
            return f"{'SAdd' if isinstance(n.op, ast.Add) else 'SSub'} ({ex(n.left)}) ({ex(n.right)})"
        raise Untranslatable(f"re-centring expression `{ast.unparse(n)}`")

    ops = []
    for st in body:
        if isinstance(st, ast.Expr) and isinstance(st.value, ast.Constant) and isinstance(st.value.value, str):
            continue
        if not (isinstance(st, ast.Assign) and len(st.targets) == 1):
            raise Untranslatable(f"re-centring statement `{ast.unparse(st)[:80]}`")
        tg = st.targets[0]
        if isinstance(tg, ast.Name):
            ops.append(f'OLet "{tg.id}" ({ex(st.value)})')
            locs.add(tg.id)
        elif isinstance(tg, ast.Subscript) and isinstance(tg.value, ast.Name) and tg.value.id == "state" \
                and isinstance(tg.slice, ast.Constant) and isinstance(tg.slice.value, str):
            ops.append(f'OPut "{tg.slice.value}" ({ex(st.value)})')
        else:
            raise Untranslatable(f"re-centring target `{ast.unparse(tg)}`")
    return ops


def check_css(cls):
    """compute_sufficient_statistics must be: centre first, then the parent's statistics (which only reads the state)"""
    fn = cls.compute_sufficient_statistics.__func__
    f, body = _fn_ast(fn)
    got = [ast.unparse(s) for s in body]
    want = ["cls._center_xi_realizations(state)", "return super().compute_sufficient_statistics(state)"]
    if got != want:
        raise Untranslatable(f"{cls.__name__}.compute_sufficient_statistics is {got}, expected {want}")
    # the parent implementation reached by super(): no assignment into the state
    owner = next(k for k in cls.__mro__ if "compute_sufficient_statistics" in k.__dict__)
    parent = next(k for k in cls.__mro__[cls.__mro__.index(owner) + 1:] if "compute_sufficient_statistics" in k.__dict__)
    pf, pbody = _fn_ast(parent.compute_sufficient_statistics.__func__)
    for n in ast.walk(pf):
        if isinstance(n, (ast.Assign, ast.AugAssign)):
            for tg in (n.targets if isinstance(n, ast.Assign) else [n.target]):
                if isinstance(tg, ast.Subscript) and isinstance(tg.value, ast.Name) and tg.value.id == "state":
                    raise Untranslatable(f"{parent.__name__}.compute_sufficient_statistics writes into the state")
        if isinstance(n, ast.Call) and isinstance(n.func, ast.Attribute) and isinstance(n.func.value, ast.Name) \
                and n.func.value.id == "state" and n.func.attr in ("put", "__setitem__", "revert", "put_individual_latent_variables"):
            raise Untranslatable(f"{parent.__name__}.compute_sufficient_statistics modifies the state")


# ============================================================================== T1 (d): DAG wiring by introspection


def wiring_definitions(out, sigs):
    import torch
    from harness.translate.formulas import definition, expr_of
    from leaspy.utils.functional import NamedInputFunction
    from leaspy.utils.linalg import compute_orthonormal_basis
    for kind in KINDS_ORTHO:
        m = build_model(kind, 3, 1)
        dag = m.state.dag
        k = SHORT[kind]
        ob = dag["orthonormal_basis"].f
        if not (isinstance(ob, NamedInputFunction) and ob.f is compute_orthonormal_basis and len(ob.parameters) == 2 and not ob.kws):
            raise Untranslatable(f"{kind}: orthonormal_basis is not OrthoBasis(<direction>, <metric>) with default strip_col")
        st = symbolic(m)
        dim = m.dimension
        lists, scalars, fdefs = [], [], []
        for role, pname in zip(("dir", "G"), ob.parameters):
            e = expr_of(st[pname])
            ps = params_of(e)
            name = f"gen_{k}_{role}"
            out.append(defn(name, ps, e))
            sigs[name] = ps
            per = [p for p in ps if m.state[p].numel() == dim]
            sh = [p for p in ps if m.state[p].numel() == 1]
            if len(per) + len(sh) != len(ps) or len(per) > 1:
                raise Untranslatable(f"{kind}: {pname} depends on {ps}: cannot split into one per-coordinate variable and shared scalars")
            for p in per:
                if p not in lists:
                    lists.append(p)
            for p in sh:
                if p not in scalars:
                    scalars.append(p)
            fdefs.append((per[0] if per else None, f"{name} {' '.join(ps)}".strip()))
        if not lists:
            raise Untranslatable(f"{kind}: neither argument of OrthoBasis depends on a per-coordinate variable")
        # an argument that is constant over the coordinates is broadcast along the other one (torch broadcasting of ones_like)
        fdefs = [f"(map (fun {v if v else '_'} => {c}) {(v if v else lists[0])}_l)" for v, c in fdefs]
        scalars = [p for p in ORDER if p in scalars]
        lists = [p for p in ORDER if p in lists]
        binders = "".join(f" ({p} : R)" for p in scalars) + "".join(f" ({p}_l : list R)" for p in lists)
        out.append(f"Definition gen_{k}_basis{binders} : matrix :=\n  gen_ortho_basis {fdefs[0]} {fdefs[1]}.\n")
        sigs[f"gen_{k}_basis"] = scalars + [p + "_l" for p in lists]
        # mixing matrix
        mm = dag["mixing_matrix"].f
        if not isinstance(mm, NamedInputFunction) or mm.kws or sorted(mm.parameters) != ["betas", "orthonormal_basis"]:
            raise Untranslatable(f"{kind}: mixing_matrix parameters {getattr(mm, 'parameters', None)}")
        a, b = mm.parameters
        if mm.f is torch.matmul:
            body = f"matmul {a} {b}"
        else:
            cl = dict(zip(mm.f.__code__.co_freevars, [c.cell_contents for c in (mm.f.__closure__ or ())]))
            inner = cl.get("self")
            if not (set(cl) == {"g", "g_kws", "self"} and cl["g"] is torch.t and cl["g_kws"] == {} and isinstance(inner, NamedInputFunction)
                    and inner.f is torch.matmul and tuple(inner.parameters) == tuple(mm.parameters) and not inner.kws):
                raise Untranslatable(f"{kind}: mixing_matrix is not MatMul(...).then(torch.t)")
            body = f"transpose (matmul {a} {b})"
        out.append(f"Definition gen_{k}_mixing (orthonormal_basis betas : matrix) : matrix :=\n  {body}.\n")
        ss = dag["space_shifts"].f
        if not (isinstance(ss, NamedInputFunction) and ss.f is torch.matmul and not ss.kws and sorted(ss.parameters) == ["mixing_matrix", "sources"]):
            raise Untranslatable(f"{kind}: space_shifts is not MatMul(sources, mixing_matrix)")
        a, b = ss.parameters
        out.append(f"Definition gen_{k}_space_shifts (sources mixing_matrix : matrix) : matrix :=\n  matmul {a} {b}.\n")
        # the coefficient of the space shift in the trajectory, for the statement "G o d is the trajectory's metric direction"
        e = expr_of(st["metric"])
        out.append(defn(f"gen_{k}_metric", params_of(e), e))
        sigs[f"gen_{k}_metric"] = params_of(e)
        if kind == "shared_speed_logistic":
            e = expr_of(st["model"])
            out.append(defn("gen_shared_traj_src", params_of(e), e))
            sigs["gen_shared_traj_src"] = params_of(e)


GEN_HEADER = """(* REGENERATED on every run from $VERIF_REPO/src/leaspy by harness/props/c10.py — do not edit.
   (a) scalar formulas: traced from the running node functions (harness/translate/formulas.py);
   (b) gen_ortho_basis / gen_ortho_pre: python-ast translation of utils/linalg.py:compute_orthonormal_basis;
   (c) gen_center_script_*: python-ast translation of the _center_xi_realizations each model class resolves to;
   (d) gen_*_basis / _mixing / _space_shifts: introspection of the DAG nodes orthonormal_basis, mixing_matrix, space_shifts. *)
From Coq Require Import String Reals List.
From Leaspy Require Import Base.RAux Formulas.Ortho Formulas.Gauge.
Import ListNotations.
Local Open Scope string_scope.
Local Open Scope R_scope.
"""


def translate(run: Run) -> bool:
    from harness.common import use_impl
    from harness.translate.formulas import Untraceable
    use_impl()
    _extend_tracer()
    try:
        out = [GEN_HEADER]
        sigs: dict = {}
        out.append("(* ---- (a) traced scalar formulas ---- *)\n")
        traced_definitions(out, sigs)
        out.append("(* ---- (b) compute_orthonormal_basis ---- *)\n")
        out.append(translate_linalg())
        out.append("(* ---- (c) re-centring scripts ---- *)\n")
        classes = {}
        for kind in KINDS_GAUGE:
            m = build_model(kind, 1, None)
            cls = type(m)
            check_css(cls)
            ops = script_of(cls)
            classes[kind] = cls.__name__
            out.append(f"Definition gen_center_script_{SHORT[kind]} : list sop :=\n  [ " + ";\n    ".join(ops) + " ].\n")
        out.append("(* ---- (d) DAG wiring ---- *)\n")
        wiring_definitions(out, sigs)
        run.gen("GenC10", "\n".join(out))
        run.extra["generated_signatures"] = sigs
        run.extra["recentring_classes"] = classes
        run.trusted.append("translators: harness/translate/formulas.py (trace of the running node functions) + harness/props/c10.py "
                           "(python ast -> Gallina for compute_orthonormal_basis and _center_xi_realizations; DAG introspection)")
        return True
    except (Untranslatable, Untraceable, KeyError, OSError, SyntaxError, AttributeError, TypeError, StopIteration) as e:
        run.broken("translate:GenC10", f"{type(e).__name__}: {e}", kind="broken-translation")
        return False
