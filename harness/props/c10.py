"""C10 — re-centring is a pure gauge change; space shifts are orthogonal to progression."""
from __future__ import annotations

import ast
import inspect
import json
import math
import textwrap
from fractions import Fraction

from harness.common import Run, coq_R, frac

META = dict(
    technique="Coq theorems over R (vectors as list R, any dimension) about definitions regenerated from the code: trajectories / "
              "attachment / event terms by tracing the running node functions, compute_orthonormal_basis (every branch) and every "
              "_center_xi_realizations of the source by a fail-closed python-ast translation, the DAG wiring by introspection; "
              "kernel-checked interval lemmas tie the generated definitions to real tensor outputs",
    level_text="Unbounded theorems: the gauge move (xi - m, log_v0 + m[, n_log_nu + m]) leaves the generated trajectory, attachment and "
               "Weibull event terms of logistic / linear / joint (with and without sources) unchanged for all reals; centred xi have "
               "mean 0; the Householder basis is invariant under d -> c d (c > 0) and, in any dimension, every kept column, every "
               "row of (B betas)^T and every row of sources (B betas)^T is orthogonal to G o d when (G o d)_0 <> 0 (always true "
               "for the directions the models pass); the translated re-centring scripts perform exactly the gauge move and touch "
               "nothing else.  Extension: every branch of compute_orthonormal_basis (scalar / diagonal / full metric, any strip_col, any "
               "dimension): kept columns orthonormal for the canonical inner product whenever d^T G d <> 0, orthogonal to d for x^T G y "
               "when (G d)_strip_col <> 0 (refuted without the proviso), scale invariance; every class defining "
               "_center_xi_realizations (ast scan of leaspy/models) performs exactly the gauge move, n_log_nu included iff the model has "
               "it; the mixture model's own copy leaves its trajectory / attachment unchanged, its sources centring is proved NOT to be "
               "a gauge change.  The model is regenerated from the source on every run.",
    level_note="Trusted: Coq kernel; stdlib real-number axioms as printed; the tracer (harness/translate/formulas.py) and the two "
               "ast translators in harness/props/c10.py; Coq-Interval for the generated enclosure lemmas only; torch kernels "
               "(matmul, norm, sign, eye, cat, mean) modelled by hand in Formulas/Ortho.v / Gauge.v and compared entry-wise with "
               "real outputs; float rounding is outside the theorems (oracle tolerances stated).  Not covered: positive "
               "definiteness of a 2-D metric (not checked by the code: (G d)_j <> 0 / d^T G d <> 0 stay hypotheses), the mixture model "
               "inside real fits (not in the property's quantifier; its compute_sufficient_statistics also centres the sources), "
               "freshness of reads after the puts (C01).",
    design_ref="DESIGN.md section 4 C10",
)

OBLIGATIONS = [
    "C10_gauge_traj", "C10_gauge_traj_sources", "C10_gauge_event", "C10_attach", "C10_zero_mean",
    "C10_basis_collinear", "C10_gauge_basis", "C10_orthogonal", "C10_orthogonal_first_zero_refuted",
    "C10_direction_positive", "C10_mixing_orthogonal", "C10_space_shift_orthogonal", "C10_metric_is_trajectory_metric",
    "C10_script", "C10_script_joint", "C10_tie_ortho_basis", "C10_tie_wiring",
    # extension: every branch of compute_orthonormal_basis, orthonormality
    "C10_tie_ortho_branches", "C10_ortho_branches", "C10_ortho_branches_zero_pivot_refuted", "C10_orthonormal_branches",
    "C10_orthonormal", "C10_orthonormal_metric_refuted", "C10_basis_collinear_branches", "C10_mixing_orthogonal_branches",
    "C10_orthonormal_nonzero_direction",
    # extension: every copy of _center_xi_realizations, the mixture model
    "C10_script_all_classes", "C10_step_is_pure_gauge_all_classes", "C10_gauge_mixture", "C10_mixture_orthogonal", "C10_mixture_sources_centring_refuted",
]

KINDS_GAUGE = ["logistic", "linear", "joint"]          # model kinds with the re-centring step
KINDS_ORTHO = ["logistic", "linear", "joint", "shared_speed_logistic"]   # kinds with an orthonormal basis
SHORT = {"logistic": "logistic", "linear": "linear", "joint": "joint", "shared_speed_logistic": "shared", "mixture_logistic": "mixture"}
# extension: every shipped kind is built and asked whether its class resolves a `_center_xi_realizations` (KINDS_GAUGE + the mixture
# model today); KINDS_STEP = the kinds on which the step alone is exercised (oracle + interval lemmas)
KINDS_ALL = ["logistic", "linear", "shared_speed_logistic", "joint", "mixture_logistic"]
KINDS_MIXTURE = ["mixture_logistic"]                      # outside the property's quantifier: has its own copy of the step
KINDS_STEP = KINDS_GAUGE + KINDS_MIXTURE
KINDS_WIRING = KINDS_ORTHO + KINDS_MIXTURE

# canonical parameter order of the generated scalar definitions
ORDER = ["y", "noise_std", "event_time", "event_bool", "log_g", "g", "log_v0", "log_rho", "n_log_nu", "deltas_padded",
         "xi", "tau", "t", "space_shifts", "survival_shifts"]


class Untranslatable(Exception):
    pass


# ============================================================================== T1 (a): traced formulas


def _extend_tracer():
    """`torch.ones_like` / `zeros_like` of a symbolic scalar are the constants 1 / 0 (additive, local to this check)."""
    from harness.translate.formulas import Sym
    if getattr(Sym, "_c10_ext", False):
        return
    orig = Sym.__torch_function__.__func__

    def tf(cls, func, types, args=(), kwargs=None):
        name = getattr(func, "__name__", str(func))
        if name == "ones_like" and len(args) == 1:
            return Sym(("const", Fraction(1)))
        if name == "zeros_like" and len(args) == 1:
            return Sym(("const", Fraction(0)))
        return orig(cls, func, types, args, kwargs)

    Sym.__torch_function__ = classmethod(tf)
    Sym._c10_ext = True


def build_model(kind, n_feat, source_dimension, seed=0, n_ind=6):
    """A real, initialised model of `kind` (state holds parameters and population variables)."""
    from harness import synth
    from leaspy.io.data.dataset import Dataset
    m = synth.make_model(kind, n_feat, source_dimension)
    df = synth.make_df(n_ind=n_ind, n_feat=n_feat, seed=seed, joint=(kind == "joint"), kind=kind)
    m.initialize(Dataset(synth.make_data(df, kind)))
    return m


INJECTED = ["orthonormal_basis", "mixing_matrix", "space_shifts", "survival_shifts", "deltas_padded"]


def symbolic(m):
    """symbolic clone of the model's state; non-scalar derived nodes (basis, matmul results, padded deltas)
    are injected as symbols of their own — they are covered by the list-level model."""
    from harness.translate.formulas import S, symbolic_state
    from leaspy.utils.weighted_tensor import WeightedTensor
    st = symbolic_state(m.state)
    if "event" in st.dag:
        st._values["event"] = WeightedTensor(S("event_time"), S("event_bool"))
    for n in INJECTED:
        if n in st.dag:
            st._values[n] = S(n)
    return st


def params_of(e):
    from harness.translate.formulas import variables
    vs = variables(e)
    unknown = [v for v in vs if v not in ORDER]
    if unknown:
        raise Untranslatable(f"formula depends on unexpected variables {unknown}")
    return [v for v in ORDER if v in vs]


INFINITY_NAME = "INFINITY_c"


def defn(name, ps, e, named=None):
    """formulas.definition, also for constants (no binder)"""
    from harness.translate.formulas import definition
    return definition(name, ps, e, named).replace(f"Definition {name} ( : R) : R", f"Definition {name} : R")


def traced_definitions(out, sigs):
    """trajectories / attachment / event terms per kind, without and with sources"""
    from harness.translate.formulas import definition, expr_of, const_definition
    from leaspy import constants
    inf = Fraction(*float(constants.INFINITY).as_integer_ratio()) if hasattr(constants, "INFINITY") else None
    try:
        from leaspy.constants import constants as cst
        inf = Fraction(*float(cst.INFINITY).as_integer_ratio())
    except Exception:
        pass
    if inf is None:
        raise Untranslatable("leaspy constants.INFINITY not found")
    out.append(const_definition(INFINITY_NAME, inf))
    named = {inf: INFINITY_NAME}
    for kind in KINDS_GAUGE:
        for src in (False, True):
            m = build_model(kind, 3 if src else 1, 1 if src else None)
            st = symbolic(m)
            suffix = "_src" if src else ""
            nodes = [("traj", "model")]
            if kind == "joint":
                nodes += [("attach", "nll_attach_y_ind"), ("event", "nll_attach_event_ind")]
            else:
                nodes += [("attach", "nll_attach_ind")]
            for short, node in nodes:
                e = expr_of(st[node])
                ps = params_of(e)
                name = f"gen_{SHORT[kind]}_{short}{suffix}"
                out.append(defn(name, ps, e, named))
                sigs[name] = ps
            if kind == "joint":
                # the DAG must define the individual attachment as the sum of the two terms
                f = m.state.dag["nll_attach_ind"].f
                from leaspy.utils.functional import Sum
                ref = Sum("nll_attach_y_ind", "nll_attach_event_ind")
                if getattr(f, "f", None) is not ref.f or tuple(f.parameters) != tuple(ref.parameters):
                    raise Untranslatable("joint nll_attach_ind is no longer Sum(nll_attach_y_ind, nll_attach_event_ind)")


def traced_definitions_mixture(out, sigs):
    """the mixture model (sources are mandatory): trajectory and attachment term, the DAG cut at `space_shifts`"""
    from harness.translate.formulas import expr_of
    from leaspy.constants import constants as cst
    named = {Fraction(*float(cst.INFINITY).as_integer_ratio()): INFINITY_NAME}
    for kind in KINDS_MIXTURE:
        m = build_model(kind, 3, 1)
        st = symbolic(m)
        for short, node in (("traj", "model"), ("attach", "nll_attach_ind")):
            e = expr_of(st[node])
            ps = params_of(e)
            name = f"gen_{SHORT[kind]}_{short}_src"
            out.append(defn(name, ps, e, named))
            sigs[name] = ps


# ============================================================================== T1 (b): compute_orthonormal_basis by ast


class OrthoTranslator:
    """Straight-line translation of utils/linalg.py:compute_orthonormal_basis for a 1-D direction and a 1-D metric,
    strip_col at its default.  Types: S scalar, V vector, C vector viewed as a column, M matrix, N nat, SH shape."""

    def __init__(self, fn: ast.FunctionDef, branch: int = 1, strip_param: bool = False):
        """branch = number of dimensions of G_metric (0, 1, 2); strip_param: strip_col stays a parameter (any value) instead of
        being replaced by its literal default"""
        self.fn = fn
        self.branch = branch
        self.strip_param = strip_param
        a = fn.args
        pos = [x.arg for x in a.args]
        if pos != ["dgamma_t0", "G_metric"] or [x.arg for x in a.kwonlyargs] != ["strip_col"]:
            raise Untranslatable(f"signature changed: {pos} / {[x.arg for x in a.kwonlyargs]}")
        d = a.kw_defaults[0]
        if not (isinstance(d, ast.Constant) and isinstance(d.value, int) and not isinstance(d.value, bool) and d.value >= 0):
            raise Untranslatable("strip_col default is not a non-negative int literal")
        self.strip = d.value
        self.env = {"dgamma_t0": "V", "G_metric": {0: "S", 1: "V", 2: "M"}[branch], "strip_col": "N"}
        self.shape_of = {}
        self.lets = []
        self.pre = []
        self.ret = None

    # -- expressions
    def nat(self, n):
        if isinstance(n, ast.Name) and n.id == "strip_col":
            return "strip_col" if self.strip_param else str(self.strip)
        if isinstance(n, ast.Name) and self.env.get(n.id) == "N":
            return n.id
        if isinstance(n, ast.Constant) and isinstance(n.value, int) and not isinstance(n.value, bool) and n.value >= 0:
            return str(n.value)
        if isinstance(n, ast.BinOp) and isinstance(n.op, ast.Add):
            return f"({self.nat(n.left)} + {self.nat(n.right)})"
        raise Untranslatable(f"index expression {ast.unparse(n)}")

    def expr(self, n):
        if isinstance(n, ast.Name):
            if n.id not in self.env:
                raise Untranslatable(f"unknown name {n.id}")
            t = self.env[n.id]
            if t == "N":
                raise Untranslatable(f"{n.id} used as a real")
            return n.id, t
        if isinstance(n, ast.Constant) and isinstance(n.value, (int, float)) and not isinstance(n.value, bool):
            f = Fraction(*float(n.value).as_integer_ratio())
            s = str(f.numerator) if f.denominator == 1 else f"({f.numerator} / {f.denominator})"
            return (s if f >= 0 else f"({s})"), "S"
        if isinstance(n, ast.UnaryOp) and isinstance(n.op, ast.USub):
            c, t = self.expr(n.operand)
            if t != "S":
                raise Untranslatable("unary minus on a non-scalar")
            return f"(- {c})", "S"
        if isinstance(n, ast.BinOp):
            (a, ta), (b, tb) = self.expr(n.left), self.expr(n.right)
            op = type(n.op).__name__
            table = {
                ("Mult", "S", "S"): (f"({a} * {b})", "S"), ("Sub", "S", "S"): (f"({a} - {b})", "S"),
                ("Add", "S", "S"): (f"({a} + {b})", "S"), ("Div", "S", "S"): (f"({a} / {b})", "S"),
                ("Mult", "S", "V"): (f"(vscale {a} {b})", "V"), ("Mult", "V", "S"): (f"(vscale {b} {a})", "V"),
                ("Mult", "S", "C"): (f"(vscale {a} {b})", "C"),
                ("Mult", "V", "V"): (f"(vmul {a} {b})", "V"), ("Sub", "V", "V"): (f"(vsub {a} {b})", "V"),
                ("Add", "V", "V"): (f"(vadd {a} {b})", "V"), ("Div", "V", "S"): (f"(vdivs {a} {b})", "V"),
                ("Mult", "C", "V"): (f"(outer {a} {b})", "M"), ("Sub", "M", "M"): (f"(msub {a} {b})", "M"),
                ("MatMult", "M", "V"): (f"(matvec {a} {b})", "V"),
            }
            if (op, ta, tb) not in table:
                raise Untranslatable(f"operator {op} on types {ta},{tb} in {ast.unparse(n)}")
            return table[(op, ta, tb)]
        if isinstance(n, ast.Call):
            fn = ast.unparse(n.func)
            if fn in ("torch.sign", "torch.norm", "torch.zeros_like", "torch.eye") and len(n.args) == 1 and not n.keywords:
                if fn == "torch.eye":
                    return f"(eye {self.nat(n.args[0])})", "M"
                c, t = self.expr(n.args[0])
                if fn == "torch.sign" and t == "S":
                    return f"(sign {c})", "S"
                if fn == "torch.norm" and t == "V":
                    return f"(vnorm {c})", "S"
                if fn == "torch.zeros_like" and t == "V":
                    return f"(vzeros_like {c})", "V"
                raise Untranslatable(f"{fn} on type {t}")
            if isinstance(n.func, ast.Attribute) and n.func.attr == "item" and not n.args and not n.keywords:
                c, t = self.expr(n.func.value)
                if t == "S":          # the python number of a 0-d tensor
                    return c, "S"
                raise Untranslatable(f"item() on type {t}")
            if isinstance(n.func, ast.Attribute) and n.func.attr == "view" and not n.keywords:
                c, t = self.expr(n.func.value)
                if t == "V" and ast.unparse(ast.Tuple(n.args, ast.Load())) == "(-1, 1)":
                    return c, "C"
                raise Untranslatable(f"view {ast.unparse(n)}")
            if fn == "torch.cat" and len(n.args) == 1 and isinstance(n.args[0], ast.Tuple) and len(n.args[0].elts) == 2 \
                    and len(n.keywords) == 1 and n.keywords[0].arg == "dim" and ast.unparse(n.keywords[0].value) == "1":
                (a, ta), (b, tb) = self.expr(n.args[0].elts[0]), self.expr(n.args[0].elts[1])
                if ta == tb == "M":
                    return f"(mcat_cols {a} {b})", "M"
            raise Untranslatable(f"call {ast.unparse(n)}")
        if isinstance(n, ast.Subscript):
            c, t = self.expr(n.value)
            s = n.slice
            if t == "V" and not isinstance(s, (ast.Slice, ast.Tuple)):
                return f"(vget {c} {self.nat(s)})", "S"
            if t == "M" and isinstance(s, ast.Tuple) and len(s.elts) == 2 and isinstance(s.elts[0], ast.Slice) \
                    and s.elts[0].lower is None and s.elts[0].upper is None and s.elts[0].step is None \
                    and isinstance(s.elts[1], ast.Slice) and s.elts[1].step is None:
                lo, up = s.elts[1].lower, s.elts[1].upper
                if lo is None and up is not None:
                    return f"(cols_before {self.nat(up)} {c})", "M"
                if lo is not None and up is None:
                    return f"(cols_from {self.nat(lo)} {c})", "M"
            raise Untranslatable(f"subscript {ast.unparse(n)}")
        raise Untranslatable(f"expression {ast.unparse(n)}")

    # -- statements
    def let(self, name, code, typ):
        self.lets.append((name, code))
        self.env[name] = typ

    def guard(self, st: ast.If):
        """`if <bad>: raise ...` -> a precondition"""
        if not (len(st.body) == 1 and isinstance(st.body[0], ast.Raise) and not st.orelse):
            raise Untranslatable(f"unexpected conditional {ast.unparse(st.test)}")
        t = ast.unparse(st.test)
        if t == "not (G_metric > 0).all()" and self.env["G_metric"] == "V":
            self.pre.append("Forall (fun x => 0 < x) G_metric")
        elif t == "G_shape != (dimension,)" and self.shape_of.get("G_shape") == "G_metric" and self.env.get("dimension") == "N":
            self.pre.append("length G_metric = dimension")
        elif t == "G_metric.item() <= 0" and self.env["G_metric"] == "S":
            self.pre.append("0 < G_metric")
        elif t == "G_shape != (dimension, dimension)" and self.shape_of.get("G_shape") == "G_metric" and self.env.get("dimension") == "N" \
                and self.env["G_metric"] == "M":
            self.pre.append("length G_metric = dimension /\\ Forall (fun r => length r = dimension) G_metric")
        else:
            raise Untranslatable(f"unknown guard `{t}`")

    def stmt(self, st):
        if isinstance(st, ast.Expr) and isinstance(st.value, ast.Constant) and isinstance(st.value.value, str):
            return
        if isinstance(st, ast.Assert):
            t = ast.unparse(st.test)
            if t == "dgamma_t0.ndim == 1" and self.env["dgamma_t0"] == "V":
                return
            if t == "isinstance(strip_col, int) and 0 <= strip_col < dimension" and self.env.get("dimension") == "N":
                self.pre.append(f"({'strip_col' if self.strip_param else self.strip} < dimension)%nat")
                return
            raise Untranslatable(f"unknown assertion `{t}`")
        if isinstance(st, ast.Assign) and len(st.targets) == 1:
            tg, v = st.targets[0], st.value
            if isinstance(tg, ast.Tuple) and len(tg.elts) == 1 and isinstance(tg.elts[0], ast.Name) \
                    and ast.unparse(v) == "dgamma_t0.shape" and self.env["dgamma_t0"] == "V":
                self.let(tg.elts[0].id, "length dgamma_t0", "N")
                return
            if isinstance(tg, ast.Name) and isinstance(v, ast.Attribute) and v.attr == "shape" and isinstance(v.value, ast.Name):
                self.shape_of[tg.id] = v.value.id
                return
            if isinstance(tg, ast.Name):
                c, t = self.expr(v)
                self.let(tg.id, c, t)
                return
            if isinstance(tg, ast.Subscript) and isinstance(tg.value, ast.Name) and self.env.get(tg.value.id) == "V":
                c, t = self.expr(v)
                if t != "S":
                    raise Untranslatable("vector entry assigned a non-scalar")
                self.let(tg.value.id, f"vset {tg.value.id} {self.nat(tg.slice)} {c}", "V")
                return
            raise Untranslatable(f"assignment {ast.unparse(st)}")
        if isinstance(st, ast.If):
            # the chain on len(G_shape): take the branch of a metric with `self.branch` dimensions
            t = ast.unparse(st.test)
            mm = None
            for k in (0, 1, 2):
                if t == f"len(G_shape) == {k}":
                    mm = k
            if mm is not None and self.shape_of.get("G_shape") == "G_metric":
                if mm == self.branch:
                    for s in st.body:
                        self.stmt(s)
                    return
                if len(st.orelse) == 1 and isinstance(st.orelse[0], ast.If):
                    return self.stmt(st.orelse[0])
                raise Untranslatable(f"no branch for a {self.branch}-D metric")
            return self.guard(st)
        if isinstance(st, ast.Return) and st.value is not None:
            c, t = self.expr(st.value)
            if t != "M":
                raise Untranslatable("does not return a matrix")
            self.ret = c
            return
        raise Untranslatable(f"statement {ast.unparse(st)[:80]}")

    def run(self):
        for i, st in enumerate(self.fn.body):
            if self.ret is not None:
                raise Untranslatable("statements after return")
            self.stmt(st)
        if self.ret is None:
            raise Untranslatable("no return")
        # preconditions mention `dimension`: bind it
        pre = " /\\ ".join(f"({p})" for p in self.pre) or "True"
        if self.strip_param:
            gt = {0: "R", 1: "list R", 2: "matrix"}[self.branch]
            binders = f"(strip_col : nat) (dgamma_t0 : list R) (G_metric : {gt})"
            sfx = f"_{self.branch}d"
        else:
            if self.branch != 1:
                raise Untranslatable("the default-strip_col translation is the 1-D branch")
            binders, sfx = "(dgamma_t0 G_metric : list R)", ""
        out = f"Definition gen_ortho_pre{sfx} {binders} : Prop :=\n  let dimension := length dgamma_t0 in\n  " + pre + ".\n\n"
        out += f"Definition gen_ortho_basis{sfx} {binders} : matrix :=\n"
        for n, c in self.lets:
            out += f"  let {n} := {c} in\n"
        out += f"  {self.ret}.\n"
        return out


def translate_linalg():
    from harness.common import SRC
    tree = ast.parse((SRC / "utils" / "linalg.py").read_text())
    fns = [n for n in tree.body if isinstance(n, ast.FunctionDef) and n.name == "compute_orthonormal_basis"]
    if len(fns) != 1:
        raise Untranslatable("compute_orthonormal_basis not found in utils/linalg.py")
    out = OrthoTranslator(fns[0]).run()
    # every branch of the code (0-D / 1-D / 2-D metric), strip_col a parameter
    out += f"\nDefinition gen_ortho_strip_default : nat := {OrthoTranslator(fns[0]).strip}.\n"
    for b in (0, 1, 2):
        out += "\n" + OrthoTranslator(fns[0], branch=b, strip_param=True).run()
    # the chain on the number of dimensions of the metric has exactly these three branches, then a raise
    chains = [n for n in ast.walk(fns[0]) if isinstance(n, ast.If) and ast.unparse(n.test) == "len(G_shape) == 0"]
    if len(chains) != 1:
        raise Untranslatable("no single `if len(G_shape) == 0` chain")
    c, tests = chains[0], []
    while True:
        tests.append(ast.unparse(c.test))
        if len(c.orelse) == 1 and isinstance(c.orelse[0], ast.If):
            c = c.orelse[0]
        else:
            break
    if tests != [f"len(G_shape) == {k}" for k in (0, 1, 2)] or not (len(c.orelse) == 1 and isinstance(c.orelse[0], ast.Raise)):
        raise Untranslatable(f"metric branches are {tests} + {[type(x).__name__ for x in c.orelse]}")
    return out


# ============================================================================== T1 (c): the re-centring scripts by ast


def _fn_ast(fn):
    src = textwrap.dedent(inspect.getsource(fn))
    tree = ast.parse(src)
    f = tree.body[0]
    if not isinstance(f, ast.FunctionDef):
        raise Untranslatable("not a function")
    body = f.body
    if body and isinstance(body[0], ast.Expr) and isinstance(body[0].value, ast.Constant) and isinstance(body[0].value.value, str):
        body = body[1:]
    return f, body


def script_of(cls, method="_center_xi_realizations"):
    """`cls.<method>` (default `_center_xi_realizations`) as a list of ops (Gallina literals)"""
    fn = getattr(cls, method).__func__
    f, body = _fn_ast(fn)
    if [a.arg for a in f.args.args] != ["cls", "state"]:
        raise Untranslatable(f"{method} signature changed")
    locs = set()

    def ex(n):
        if isinstance(n, ast.Subscript) and isinstance(n.value, ast.Name) and n.value.id == "state" \
                and isinstance(n.slice, ast.Constant) and isinstance(n.slice.value, str):
            return f'SRead "{n.slice.value}"'
        if isinstance(n, ast.Name) and n.id in locs:
            return f'SLocal "{n.id}"'
        if isinstance(n, ast.Call) and ast.unparse(n.func) == "torch.mean" and len(n.args) == 1 and not n.keywords:
            return f"SMean ({ex(n.args[0])})"
        if isinstance(n, ast.BinOp) and isinstance(n.op, (ast.Add, ast.Sub)):
            return f"{'SAdd' if isinstance(n.op, ast.Add) else 'SSub'} ({ex(n.left)}) ({ex(n.right)})"
        raise Untranslatable(f"re-centring expression `{ast.unparse(n)}`")

    ops = []
    for st in body:
        if isinstance(st, ast.Expr) and isinstance(st.value, ast.Constant) and isinstance(st.value.value, str):
            continue
        if not (isinstance(st, ast.Assign) and len(st.targets) == 1):
            raise Untranslatable(f"re-centring statement `{ast.unparse(st)[:80]}`")
        tg = st.targets[0]
        if isinstance(tg, ast.Name):
            ops.append(f'OLet "{tg.id}" ({ex(st.value)})')
            locs.add(tg.id)
        elif isinstance(tg, ast.Subscript) and isinstance(tg.value, ast.Name) and tg.value.id == "state" \
                and isinstance(tg.slice, ast.Constant) and isinstance(tg.slice.value, str):
            ops.append(f'OPut "{tg.slice.value}" ({ex(st.value)})')
        else:
            raise Untranslatable(f"re-centring target `{ast.unparse(tg)}`")
    return ops


def check_css(cls, allow_extra=False):
    """compute_sufficient_statistics must be: centre first, then the parent's statistics (which only reads the state).
    `allow_extra` (mixture model only): further `cls._center_<x>_realizations(state)` calls may sit between the two; their
    method names are returned (they are translated and reported separately, they are not part of the xi step)."""
    import re
    fn = cls.compute_sufficient_statistics.__func__
    f, body = _fn_ast(fn)
    got = [ast.unparse(s) for s in body]
    want = ["cls._center_xi_realizations(state)", "return super().compute_sufficient_statistics(state)"]
    extra = []
    if allow_extra and len(got) >= 2 and got[0] == want[0] and got[-1] == want[1]:
        for g in got[1:-1]:
            mm = re.fullmatch(r"cls\.(_center_[a-z_]+_realizations)\(state\)", g)
            if not mm or mm.group(1) == "_center_xi_realizations":
                raise Untranslatable(f"{cls.__name__}.compute_sufficient_statistics: unexpected statement `{g}`")
            extra.append(mm.group(1))
    elif got != want:
        raise Untranslatable(f"{cls.__name__}.compute_sufficient_statistics is {got}, expected {want}")
    # the parent implementation reached by super(): no assignment into the state
    owner = next(k for k in cls.__mro__ if "compute_sufficient_statistics" in k.__dict__)
    parent = next(k for k in cls.__mro__[cls.__mro__.index(owner) + 1:] if "compute_sufficient_statistics" in k.__dict__)
    pf, pbody = _fn_ast(parent.compute_sufficient_statistics.__func__)
    for n in ast.walk(pf):
        if isinstance(n, (ast.Assign, ast.AugAssign)):
            for tg in (n.targets if isinstance(n, ast.Assign) else [n.target]):
                if isinstance(tg, ast.Subscript) and isinstance(tg.value, ast.Name) and tg.value.id == "state":
                    raise Untranslatable(f"{parent.__name__}.compute_sufficient_statistics writes into the state")
        if isinstance(n, ast.Call) and isinstance(n.func, ast.Attribute) and isinstance(n.func.value, ast.Name) \
                and n.func.value.id == "state" and n.func.attr in ("put", "__setitem__", "revert", "put_individual_latent_variables"):
            raise Untranslatable(f"{parent.__name__}.compute_sufficient_statistics modifies the state")
    return extra


def recentring_classes_in_source():
    """every class of leaspy/models/**.py whose body defines `_center_xi_realizations`: {class name: file}"""
    from harness.common import SRC
    found = {}
    for path in sorted((SRC / "models").rglob("*.py")):
        tree = ast.parse(path.read_text())
        for n in ast.walk(tree):
            if isinstance(n, ast.ClassDef) and any(isinstance(b, (ast.FunctionDef, ast.AsyncFunctionDef)) and b.name == "_center_xi_realizations"
                                                    for b in n.body):
                if n.name in found:
                    raise Untranslatable(f"two classes named {n.name} define _center_xi_realizations")
                found[n.name] = str(path.relative_to(SRC))
    if not found:
        raise Untranslatable("no class defines _center_xi_realizations")
    return found


def all_scripts(out):
    """(extension) the step of EVERY class that defines it, through every shipped kind that resolves to it:
    gen_center_scripts = [((kind, defining class), (model has n_log_nu, script))], gen_center_classes = the defining classes
    found in the source (each must be reached by a kind), gen_center_extra_<kind>_<x> = the other centring methods the mixture
    model calls in the same compute_sufficient_statistics."""
    in_source = recentring_classes_in_source()
    entries, owners, extras = [], {}, {}
    for kind in KINDS_ALL:
        m = build_model(kind, 3, 1)
        cls = type(m)
        if not hasattr(cls, "_center_xi_realizations"):
            continue
        owner = next(k for k in cls.__mro__ if "_center_xi_realizations" in k.__dict__)
        if owner.__name__ not in in_source:
            raise Untranslatable(f"{kind}: _center_xi_realizations resolves to {owner.__name__}, not found by the source scan")
        if kind not in KINDS_STEP:
            raise Untranslatable(f"kind {kind} has a re-centring step but is not in KINDS_STEP")
        ex = check_css(cls, allow_extra=kind in KINDS_MIXTURE)
        nu = "n_log_nu" in m.state.dag
        ops = script_of(cls)
        owners.setdefault(owner.__name__, []).append(kind)
        entries.append(f'(("{kind}", "{owner.__name__}"), ({"true" if nu else "false"},\n     [ ' + ";\n       ".join(ops) + " ]))")
        for meth in ex:
            x = meth[len("_center_"):-len("_realizations")]
            extras[f"gen_center_extra_{SHORT[kind]}_{x}"] = script_of(cls, meth)
    missing = [c for c in in_source if c not in owners]
    if missing:
        raise Untranslatable(f"classes defining _center_xi_realizations that no shipped kind resolves to: {missing}")
    if sorted(k for v in owners.values() for k in v) != sorted(KINDS_STEP):
        raise Untranslatable(f"kinds with the step are {owners}, expected {KINDS_STEP}")
    out.append("Definition gen_center_scripts : list ((string * string) * (bool * list sop)) :=\n  [ " + ";\n    ".join(entries) + " ].\n")
    out.append("Definition gen_center_classes : list string :=\n  [ " + "; ".join(f'"{c}"' for c in sorted(in_source)) + " ].\n")
    for name, ops in sorted(extras.items()):
        out.append(f"Definition {name} : list sop :=\n  [ " + ";\n    ".join(ops) + " ].\n")
    return dict(classes=in_source, kinds_by_class=owners, extra_scripts=sorted(extras))


# ============================================================================== T1 (d): DAG wiring by introspection


def wiring_definitions(out, sigs):
    import torch
    from harness.translate.formulas import definition, expr_of
    from leaspy.utils.functional import NamedInputFunction
    from leaspy.utils.linalg import compute_orthonormal_basis
    for kind in KINDS_WIRING:
        m = build_model(kind, 3, 1)
        dag = m.state.dag
        k = SHORT[kind]
        ob = dag["orthonormal_basis"].f
        if not (isinstance(ob, NamedInputFunction) and ob.f is compute_orthonormal_basis and len(ob.parameters) == 2 and not ob.kws):
            raise Untranslatable(f"{kind}: orthonormal_basis is not OrthoBasis(<direction>, <metric>) with default strip_col")
        st = symbolic(m)
        dim = m.dimension
        lists, scalars, fdefs = [], [], []
        for role, pname in zip(("dir", "G"), ob.parameters):
            e = expr_of(st[pname])
            ps = params_of(e)
            name = f"gen_{k}_{role}"
            out.append(defn(name, ps, e))
            sigs[name] = ps
            per = [p for p in ps if m.state[p].numel() == dim]
            sh = [p for p in ps if m.state[p].numel() == 1]
            if len(per) + len(sh) != len(ps) or len(per) > 1:
                raise Untranslatable(f"{kind}: {pname} depends on {ps}: cannot split into one per-coordinate variable and shared scalars")
            for p in per:
                if p not in lists:
                    lists.append(p)
            for p in sh:
                if p not in scalars:
                    scalars.append(p)
            fdefs.append((per[0] if per else None, f"{name} {' '.join(ps)}".strip()))
        if not lists:
            raise Untranslatable(f"{kind}: neither argument of OrthoBasis depends on a per-coordinate variable")
        # an argument that is constant over the coordinates is broadcast along the other one (torch broadcasting of ones_like)
        fdefs = [f"(map (fun {v if v else '_'} => {c}) {(v if v else lists[0])}_l)" for v, c in fdefs]
        scalars = [p for p in ORDER if p in scalars]
        lists = [p for p in ORDER if p in lists]
        binders = "".join(f" ({p} : R)" for p in scalars) + "".join(f" ({p}_l : list R)" for p in lists)
        out.append(f"Definition gen_{k}_basis{binders} : matrix :=\n  gen_ortho_basis {fdefs[0]} {fdefs[1]}.\n")
        sigs[f"gen_{k}_basis"] = scalars + [p + "_l" for p in lists]
        # mixing matrix
        mm = dag["mixing_matrix"].f
        if not isinstance(mm, NamedInputFunction) or mm.kws or sorted(mm.parameters) != ["betas", "orthonormal_basis"]:
            raise Untranslatable(f"{kind}: mixing_matrix parameters {getattr(mm, 'parameters', None)}")
        a, b = mm.parameters
        if mm.f is torch.matmul:
            body = f"matmul {a} {b}"
        else:
            cl = dict(zip(mm.f.__code__.co_freevars, [c.cell_contents for c in (mm.f.__closure__ or ())]))
            inner = cl.get("self")
            if not (set(cl) == {"g", "g_kws", "self"} and cl["g"] is torch.t and cl["g_kws"] == {} and isinstance(inner, NamedInputFunction)
                    and inner.f is torch.matmul and tuple(inner.parameters) == tuple(mm.parameters) and not inner.kws):
                raise Untranslatable(f"{kind}: mixing_matrix is not MatMul(...).then(torch.t)")
            body = f"transpose (matmul {a} {b})"
        out.append(f"Definition gen_{k}_mixing (orthonormal_basis betas : matrix) : matrix :=\n  {body}.\n")
        ss = dag["space_shifts"].f
        if not (isinstance(ss, NamedInputFunction) and ss.f is torch.matmul and not ss.kws and sorted(ss.parameters) == ["mixing_matrix", "sources"]):
            raise Untranslatable(f"{kind}: space_shifts is not MatMul(sources, mixing_matrix)")
        a, b = ss.parameters
        out.append(f"Definition gen_{k}_space_shifts (sources mixing_matrix : matrix) : matrix :=\n  matmul {a} {b}.\n")
        # the coefficient of the space shift in the trajectory, for the statement "G o d is the trajectory's metric direction"
        e = expr_of(st["metric"])
        out.append(defn(f"gen_{k}_metric", params_of(e), e))
        sigs[f"gen_{k}_metric"] = params_of(e)
        if kind == "shared_speed_logistic":
            e = expr_of(st["model"])
            out.append(defn("gen_shared_traj_src", params_of(e), e))
            sigs["gen_shared_traj_src"] = params_of(e)


GEN_HEADER = """(* REGENERATED on every run from $VERIF_REPO/src/leaspy by harness/props/c10.py — do not edit.
   (a) scalar formulas: traced from the running node functions (harness/translate/formulas.py);
   (b) gen_ortho_basis / gen_ortho_pre: python-ast translation of utils/linalg.py:compute_orthonormal_basis;
   (c) gen_center_script_*: python-ast translation of the _center_xi_realizations each model class resolves to;
   (d) gen_*_basis / _mixing / _space_shifts: introspection of the DAG nodes orthonormal_basis, mixing_matrix, space_shifts. *)
From Coq Require Import String Reals List.
From Leaspy Require Import Base.RAux Formulas.Ortho Formulas.Gauge.
Import ListNotations.
Local Open Scope string_scope.
Local Open Scope R_scope.
"""


def translate(run: Run) -> bool:
    from harness.common import use_impl
    from harness.translate.formulas import Untraceable
    use_impl()
    _extend_tracer()
    try:
        out = [GEN_HEADER]
        sigs: dict = {}
        out.append("(* ---- (a) traced scalar formulas ---- *)\n")
        traced_definitions(out, sigs)
        out.append("(* ---- (b) compute_orthonormal_basis ---- *)\n")
        out.append(translate_linalg())
        out.append("(* ---- (c) re-centring scripts ---- *)\n")
        classes = {}
        for kind in KINDS_GAUGE:
            m = build_model(kind, 1, None)
            cls = type(m)
            check_css(cls)
            ops = script_of(cls)
            classes[kind] = cls.__name__
            out.append(f"Definition gen_center_script_{SHORT[kind]} : list sop :=\n  [ " + ";\n    ".join(ops) + " ].\n")
        out.append("(* ---- (c') every class defining the step, the mixture model's formulas ---- *)\n")
        run.extra["recentring_all"] = all_scripts(out)
        traced_definitions_mixture(out, sigs)
        out.append("(* ---- (d) DAG wiring ---- *)\n")
        wiring_definitions(out, sigs)
        run.gen("GenC10", "\n".join(out))
        run.extra["generated_signatures"] = sigs
        run.extra["recentring_classes"] = classes
        run.trusted.append("translators: harness/translate/formulas.py (trace of the running node functions) + harness/props/c10.py "
                           "(python ast -> Gallina for compute_orthonormal_basis and _center_xi_realizations; DAG introspection)")
        return True
    except (Untranslatable, Untraceable, KeyError, OSError, SyntaxError, AttributeError, TypeError, StopIteration) as e:
        run.broken("translate:GenC10", f"{type(e).__name__}: {e}", kind="broken-translation")
        return False


# ============================================================================== implementation side: real states

REL = 1e-5            # float32 allowance of the oracles: |a - b| <= REL * (1 + scale)
ORTHO_REL = 1e-5      # |w . (G o d)| <= ORTHO_REL * |w| * |G o d|
MEAN_ABS = 1e-6       # |mean(xi)| after the step (times max(1, max |xi|) before it)

_BASE: dict = {}


def _val(x):
    """plain tensor of a state value (WeightedTensor -> its values)"""
    return x.value if (hasattr(x, "weight") and hasattr(x, "value")) else x


def _lst(t):
    return _val(t).detach().double().tolist()


def has_sources(st) -> bool:
    return "sources" in st.dag and "mixing_matrix" in st.dag


def base_state(kind, n_feat, sd, n_ind=5, seed=3, missing=0.1, single_visit=False):
    """A real model of `kind`, initialised on a synthetic cohort the way `fit` does, and a fresh clone of its state holding the
    data and individual latent variables.  Cached per configuration (the clone is new at every call)."""
    import torch
    from harness import synth
    from leaspy.io.data.dataset import Dataset
    key = (kind, n_feat, sd, n_ind, seed, missing, single_visit)
    if key not in _BASE:
        df = None
        for s in range(seed, seed + 20):    # a joint cohort needs an observed and a censored event to be initialised
            df = synth.make_df(n_ind=n_ind, n_feat=n_feat, joint=(kind == "joint"), seed=s, kind=kind, missing=missing)
            if kind != "joint" or n_ind < 3 or 1 <= df.groupby("ID")["EVENT_BOOL"].first().sum() <= n_ind - 1:
                break
        if single_visit and n_ind >= 2:
            # the second individual keeps its first visit only (a valid and common cohort shape)
            second = list(dict.fromkeys(df["ID"]))[1]
            rows = df.index[df["ID"] == second]
            df = df.drop(index=rows[1:]).reset_index(drop=True)
        m = synth.make_model(kind, n_feat, sd)
        ds = Dataset(synth.make_data(df, kind))
        m.initialize(ds)
        st = m.state.clone(disable_auto_fork=True)
        m.put_data_variables(st, ds)
        torch.manual_seed(seed)
        m.put_individual_parameters(st, ds)
        _BASE[key] = (m, ds, st)
    m, ds, st = _BASE[key]
    return m, ds, st.clone(disable_auto_fork=True)


def latent_names(st):
    from leaspy.variables.specs import IndividualLatentVariable, PopulationLatentVariable
    by = st.dag.sorted_variables_by_type
    return sorted(by.get(PopulationLatentVariable, {})), sorted(by.get(IndividualLatentVariable, {}))


# range of the random values per variable name (quantised to k/64: exactly representable in float32)
RANGES = {"log_g": (-2.0, 3.0), "g": (0.0, 1.0), "log_v0": (-7.0, -1.0), "betas": (-1.5, 1.5), "deltas": (-2.0, 2.0),
          "n_log_nu": (-4.0, -1.0), "log_rho": (0.0, 1.5), "zeta": (-1.0, 1.0), "xi": (-1.5, 1.5), "tau": (64.0, 76.0),
          "sources": (-2.0, 2.0)}


def _draw(rng, lo, hi, shape, q=64):
    import torch
    n = 1
    for s in shape:
        n *= s
    return torch.tensor([rng.randint(int(lo * q), int(hi * q)) / q for _ in range(n)], dtype=torch.float64).reshape(shape)


# shared-speed: g_metric = 1 / (gamma (1 - gamma))^2 is computed by the code in float32 with the cancellation 1 - gamma; its relative
# error grows like 2^-23 / min(gamma, 1 - gamma), gamma = 1 / (1 + g exp(-delta)): positions are kept where this stays below the
# oracle's allowance (a float-conditioning precondition of the test, not of the property)
RANGES_SHARED = {"log_g": (-1.0, 2.0), "deltas": (-1.0, 1.0)}


def random_values(st, rng, style="plain", kind=None):
    """random values for every population and individual latent variable of the state: {name: nested list}"""
    pop, ind = latent_names(st)
    out = {}
    for n in pop + ind:
        old = st[n]
        lo, hi = RANGES.get(n, (-1.0, 1.0))
        if kind == "shared_speed_logistic" and n in RANGES_SHARED:
            lo, hi = RANGES_SHARED[n]
        if n == "log_v0" and style == "wide":
            lo, hi = -10.0, -1.0
        if n == "log_g" and style == "wide" and kind != "shared_speed_logistic":
            lo, hi = -3.0, 4.0
        v = _draw(rng, lo, hi, tuple(old.shape))
        if n == "xi":
            if style == "equal":
                v = v * 0 + v.reshape(-1)[0]
            v = v + rng.choice([0.0, 0.75, -0.75, 2.0, -2.0, 0.25])
        if n == "log_v0" and style == "first-dominant" and v.numel() > 1:
            v[0] = -1.0
            v[1:] = v[1:].clamp(max=-8.0) - 2
        out[n] = v.tolist()
    return out


def put_values(st, values):
    """through the state API (`state[name] = tensor`), keeping the dtype and shape the model itself uses"""
    import torch
    with st.auto_fork(None):
        for n, v in values.items():
            old = st[n]
            st[n] = torch.tensor(v, dtype=torch.float64).to(old.dtype).reshape(old.shape)


def metric_direction(kind, st):
    """G o d in float64, recomputed from the two quantities the TRAJECTORY itself uses (not from the nodes the basis is wired
    to): `metric` = the coefficient the trajectory puts on the space shift (C10_metric_is_trajectory_metric) and `v0`.
    logistic / joint / linear: logit or value = metric (v0 rt + w) ..., so G = metric^2 and d = v0 (linear: metric = 1);
    shared-speed: logit = metric w + rt + ..., the direction of progression is (1,..,1) in logit space and G o d is collinear
    to `metric`."""
    metric = _val(st["metric"]).double().reshape(-1)
    if kind in ("logistic", "joint", "linear", "mixture_logistic"):
        return metric ** 2 * _val(st["v0"]).double().reshape(-1)
    if kind == "shared_speed_logistic":
        return metric
    raise ValueError(kind)


def ortho_failures(kind, st, when):
    """(b): every row of mixing_matrix and every individual space shift is orthogonal to G o d"""
    import torch
    out, info = [], {}
    if not has_sources(st):
        return out, info
    D = metric_direction(kind, st).reshape(-1)
    if not torch.isfinite(D).all() or float(D.norm()) == 0.0:
        return [(f"ortho:{kind}:direction-not-finite", f"G o d is not finite / zero ({when})", None, D.tolist())], info
    for node, label in (("mixing_matrix", "mixing-row"), ("space_shifts", "space-shift")):
        try:
            W = _val(st[node]).double()
        except Exception as e:
            out.append((f"ortho:{kind}:raises:{type(e).__name__}", f"reading {node} raised {type(e).__name__}: {e} ({when})", None, None))
            continue
        if not torch.isfinite(W).all():
            out.append((f"ortho:{kind}:{label}-not-finite", f"{node} has non-finite entries ({when})", None, None))
            continue
        nw = W.norm(dim=1)
        r = (W @ D).abs() / (nw * D.norm()).clamp(min=1e-300)
        r = torch.where(nw > 0, r, torch.zeros_like(r))
        info[label] = float(r.max())
        info[label + "-nontrivial"] = bool((nw > 0).any())
        if float(r.max()) > ORTHO_REL:
            i = int(r.argmax())
            out.append((f"ortho:{kind}:{label}-not-orthogonal",
                        f"row {i} of {node} is not orthogonal, in the model's metric, to the direction of progression ({when}): "
                        f"|w.Gv0| / (|w||Gv0|) = {float(r[i]):.3g}", f"<= {ORTHO_REL}", float(r[i])))
    return out, info


def gauge_nodes(kind):
    return ["model", "nll_attach_ind"] + (["nll_attach_y_ind", "nll_attach_event_ind"] if kind == "joint" else [])


def snapshot(st, kind):
    return {n: _val(st[n]).detach().clone() for n in gauge_nodes(kind)}


def attach_scale(st, kind, model):
    """sum over the observed entries of one individual of the absolute value of every term of its attachment"""
    import torch
    y = st["y"]
    w = (y.weight if y.weight is not None else torch.ones_like(y.value)).double()
    yv = torch.where(w > 0, y.value.double(), torch.zeros_like(w))
    sig = st["noise_std"].double().reshape(-1)
    terms = ((yv - torch.nan_to_num(model.double())) / sig) ** 2 / 2 + sig.log().abs() + 0.9189385332
    return (terms * (w > 0)).sum(dim=(1, 2))


def compare(name, a, b, scale=None, extra=None):
    """(index, before, after, ratio) of the worst entry; `a` (after) equals `b` (before) when ratio <= REL, ratio being
    |a - b| / (1 + max(|b|, scale) + extra / REL): `extra` is an absolute allowance (first-order propagation of the float32
    rounding of the two sums the step forms, see `rounding_allowance`)"""
    import torch
    if tuple(a.shape) != tuple(b.shape):
        return ("shape", list(b.shape), list(a.shape), float("inf"))
    a, b = a.double(), b.double()
    fa, fb = torch.isfinite(a), torch.isfinite(b)
    if bool((fa != fb).any()):
        i = int((fa != fb).reshape(-1).nonzero()[0])
        return (i, float(b.reshape(-1)[i]), float(a.reshape(-1)[i]), float("inf"))
    nf = ~fb
    if bool(nf.any()) and not bool(((a[nf] == b[nf]) | (torch.isnan(a[nf]) & torch.isnan(b[nf]))).all()):
        return ("non-finite", None, None, float("inf"))
    if not bool(fb.any()):
        return (0, None, None, 0.0)
    s = 1 + (b.abs() if scale is None else torch.maximum(b.abs(), scale.double().reshape(b.shape) if scale.dim() == b.dim() else scale.double()))
    if extra is not None:
        s = s + torch.nan_to_num(extra.double().reshape(b.shape), nan=0.0, posinf=0.0) / REL
    r = torch.where(fb, (a - b).abs() / s, torch.zeros_like(a))
    i = int(r.reshape(-1).argmax())
    return (i, float(b.reshape(-1)[i]), float(a.reshape(-1)[i]), float(r.max()))


def rounding_allowance(kind, st, model):
    """What float32 rounding alone may do to a trajectory value through the step, to first order: the step replaces log_v0 by
    fl(log_v0 + m) and xi by fl(xi - m) (absolute error <= 2^-24 (|log_v0| + |xi| + 2|m| + 2) on the exponent of v0 exp(xi)),
    and d model / d log_v0 = model (1 - model) |T| (logistic, joint) or |T| (linear), T = metric v0 rt.  Times 4 for the
    exp / product roundings (only matters for ill-conditioned entries, |T| >> 1 compensated by the space shift).  With sources the
    basis is recomputed from v0 exp(m) (entries of the unit columns move by a few 2^-24, absolutely) and the space shifts
    w = sources (B betas)^T with it: 6 * 2^-24 * sum_s |sources_is| sum_r |betas_rs| on every w_ik, and
    d model / d w = model (1 - model) metric (logistic, joint) or 1 (linear)."""
    import torch
    xi = _val(st["xi"]).double().reshape(-1)
    lv = _val(st["log_v0"]).double().reshape(-1)
    mean = float(xi.mean())
    rt = torch.nan_to_num(_val(st["rt"]).double(), nan=0.0, posinf=0.0, neginf=0.0)
    rt = rt.reshape(rt.shape[0], rt.shape[1])
    T = (_val(st["metric"]).double().reshape(-1) * _val(st["v0"]).double().reshape(-1))[None, None, :] * rt[:, :, None]
    eps = 4 * 2.0 ** -24 * (lv.abs()[None, None, :] + xi.abs()[:, None, None] + 2 * abs(mean) + 2)
    b = torch.nan_to_num(model.double(), nan=0.0)
    slope = torch.ones_like(b) if kind == "linear" else (b * (1 - b)).abs()
    out = eps * slope * T.abs()
    if has_sources(st):
        dw = 6 * 2.0 ** -24 * (_val(st["sources"]).double().abs() @ _val(st["betas"]).double().abs().sum(dim=0))
        out = out + slope * (_val(st["metric"]).double().reshape(-1)[None, None, :] * dw[:, None, None])
    return out


def recentre_failures(kind, m, st, call=None):
    """(a): run the real step on `st`; returns (failures, info).  `call(st)` performs the step (default: the method `fit` calls)."""
    import torch
    out, info = [], {}
    try:
        before = snapshot(st, kind)
        scale = attach_scale(st, kind, before["model"])
        allow = rounding_allowance(kind, st, before["model"])
        y = st["y"]
        sig = _val(st["noise_std"]).double().reshape(-1)
        resid = torch.nan_to_num((y.value.double() - before["model"].double()).abs()) * ((y.weight if y.weight is not None else torch.ones_like(y.value)) > 0)
        allow_attach = (resid / sig ** 2 * allow).sum(dim=(1, 2))
        xi0 = st["xi"].detach().clone()
    except Exception as e:
        return [(f"recentre:{kind}:state-unreadable:{type(e).__name__}", f"reading the state before the step raised {type(e).__name__}: {e}", None, None)], info
    try:
        (call or m.compute_sufficient_statistics)(st)
        after = snapshot(st, kind)
        xi1 = st["xi"].detach().clone()
    except Exception as e:
        return [(f"recentre:{kind}:raises:{type(e).__name__}", f"compute_sufficient_statistics raised {type(e).__name__}: {e}", None, None)], info
    info["mean_before"] = float(xi0.double().mean())
    info["mean_after"] = float(xi1.double().mean())
    lim = MEAN_ABS * max(1.0, float(xi0.abs().max()))
    if tuple(xi1.shape) != tuple(xi0.shape):
        out.append((f"recentre:{kind}:xi-shape-changed", f"xi has shape {list(xi1.shape)} after the step, {list(xi0.shape)} before", list(xi0.shape), list(xi1.shape)))
    elif not abs(info["mean_after"]) <= lim:
        out.append((f"recentre:{kind}:xi-mean-nonzero", f"mean(xi) = {info['mean_after']:.3g} after the step (before: {info['mean_before']:.3g})",
                    f"|mean| <= {lim:.1g}", info["mean_after"]))
    for n in gauge_nodes(kind):
        sc = None
        if n in ("nll_attach_ind", "nll_attach_y_ind"):
            sc = scale + (before["nll_attach_event_ind"].double().abs().reshape(scale.shape) if (n == "nll_attach_ind" and kind == "joint") else 0)
            sc = torch.nan_to_num(sc, posinf=0.0)
        c = compare(n, after[n], before[n], sc, extra=(allow if n == "model" else (allow_attach if sc is not None else None)))
        info["dev:" + n] = c[3]
        if not c[3] <= REL:
            what = {"model": "a trajectory value", "nll_attach_event_ind": "an event likelihood term"}.get(n, "an attachment term")
            out.append((f"recentre:{kind}:{n}-changed", f"{what} ({n}, flat index {c[0]}) changed through the re-centring step: {c[1]!r} -> {c[2]!r}",
                        c[1], c[2]))
    return out, info


def eval_state(inp, collect=None):
    """Everything the oracles say about one explicit state (`inp` = configuration + cohort + values of every latent variable).
    Returns (failures, info); deterministic in `inp`, used by the search, the shrinker and the replay alike."""
    kind, nf, sd = inp["kind"], inp["n_feat"], inp["source_dimension"]
    c = inp["cohort"]
    try:
        m, ds, st = base_state(kind, nf, sd, c["n_ind"], c["seed"], c.get("missing", 0.1), c.get("single_visit", False))
        put_values(st, inp["values"])
    except Exception as e:
        return [(f"state:{kind}:setup-raises:{type(e).__name__}", f"building the state raised {type(e).__name__}: {e}", None, None)], {}
    fails, info = [], {}
    f, i = ortho_failures(kind, st, "values as given")
    fails += f
    info.update({"ortho:" + k: v for k, v in i.items()})
    if collect is not None:
        collect(kind, m, st, inp)
    if kind in KINDS_STEP:
        # the mixture model: its own copy of `_center_xi_realizations`, exercised ALONE (its compute_sufficient_statistics also
        # centres the sources, which is not a gauge change: C10_mixture_sources_centring_refuted, `mixture_full_step_on_code`)
        f, i = recentre_failures(kind, m, st, call=(type(m)._center_xi_realizations if kind in KINDS_MIXTURE else None))
        fails += f
        info.update(i)
        if not any(s.startswith(f"recentre:{kind}:raises") for s, *_ in f):
            f, i = ortho_failures(kind, st, "after the re-centring step")
            fails += [x for x in f if x[0] not in {y[0] for y in fails}]
            if collect is not None:
                collect(kind, m, st, inp, after=True)
    return fails, info


def shrink_state(inp, sig):
    """smaller input with the same failure signature: fewer individuals, then simpler values"""
    import copy

    def still(x):
        try:
            return any(s == sig for s, *_ in eval_state(x)[0])
        except Exception:
            return False
    cur = copy.deepcopy(inp)
    for n_ind in (1, 2, 3):
        if n_ind < cur["cohort"]["n_ind"]:
            x = copy.deepcopy(cur)
            x["cohort"]["n_ind"] = n_ind
            for k, v in x["values"].items():
                if k in ("xi", "tau", "sources"):
                    x["values"][k] = v[:n_ind]
            if still(x):
                cur = x
                break
    def mapped(v, f):
        return [mapped(e, f) for e in v] if isinstance(v, list) else f(v)
    for name, f in [("sources", lambda e: 0.0), ("sources", lambda e: 1.0), ("betas", lambda e: 1.0), ("tau", lambda e: 70.0),
                    ("zeta", lambda e: 0.0), ("log_g", lambda e: 0.0), ("g", lambda e: 0.5), ("deltas", lambda e: 0.0),
                    ("log_v0", lambda e: -4.0), ("log_rho", lambda e: 0.0), ("n_log_nu", lambda e: -3.0),
                    ("xi", lambda e: float(round(e))), ("xi", lambda e: 1.0)]:
        if name in cur["values"]:
            x = copy.deepcopy(cur)
            x["values"][name] = mapped(x["values"][name], f)
            if x != cur and still(x):
                cur = x
    return cur


STATE_CONFIGS = [("logistic", 1, None), ("logistic", 3, 0), ("logistic", 3, 2), ("logistic", 2, 1), ("logistic", 4, 3),
                 ("linear", 1, None), ("linear", 3, 0), ("linear", 3, 1), ("linear", 4, 2),
                 ("joint", 1, None), ("joint", 3, 1), ("joint", 3, 2),
                 ("shared_speed_logistic", 3, 1), ("shared_speed_logistic", 4, 2), ("shared_speed_logistic", 2, 1),
                 ("mixture_logistic", 3, 1), ("mixture_logistic", 3, 2)]


def search_states(run: Run, T, thorough: bool):
    rounds = 120 if thorough else 7
    styles = ["plain", "plain", "wide", "equal", "first-dominant", "plain", "wide"]
    seen_sig = set()
    for kind, nf, sd in STATE_CONFIGS:
        rng = run.rng("state", kind, nf, sd)
        for r in range(rounds):
            style = styles[r % len(styles)]
            # cohort sizes include ONE and two individuals (the property speaks of every state); a joint cohort needs an observed
            # and a censored event, so the joint kind keeps >= 3 individuals
            n_ind, c_seed = [(3, 3), (5, 4), (1, 3), (5, 3), (2, 4), (5, 3), (1, 4)][r % 7]
            if kind == "joint" and n_ind < 3:
                n_ind = 3
            cohort = dict(n_ind=n_ind, seed=c_seed, missing=0.1)
            if r % 7 in (1, 5):
                cohort["single_visit"] = True
            run.count("cohort_size", str(n_ind))
            try:
                m, ds, st = base_state(kind, nf, sd, **cohort)
            except Exception as e:
                run.fail(f"state:{kind}:setup-raises:{type(e).__name__}", f"initialising a {kind} model raised {type(e).__name__}: {e}",
                         dict(what="state", kind=kind, n_feat=nf, source_dimension=sd, cohort=cohort, values={}))
                break
            try:
                nv = [int(x) for x in ds.n_visits_per_individual]
                run.count("cohort_visits", "some individual has a single visit" if (min(nv) == 1 and len(nv) > 1) else
                          ("one individual" if len(nv) == 1 else "every individual has >= 2 visits"))
            except Exception:  # noqa
                pass
            inp = dict(what="state", kind=kind, n_feat=nf, source_dimension=sd, cohort=cohort, style=style,
                       values=random_values(st, rng, style, kind))
            want_t3 = T is not None and r < (1 if not thorough else 4)
            # (extension) the cohorts with a single-visit individual (r = 1) and with ONE individual (r = 2): the re-centred values
            # the real step leaves in the state against center / shift (mean ...) of the values before — script lemmas only
            script_only = T is not None and not want_t3 and kind in KINDS_STEP and r in (1, 2)
            fails, info = eval_state(inp, collect=(T.collect if want_t3 else (T.collect_script if script_only else None)))
            src = bool(sd)
            m_shift = abs(info.get("mean_before", 0.0))
            nontrivial = (kind in KINDS_STEP and m_shift > 1e-3) or (src and info.get("ortho:mixing-row-nontrivial", False))
            run.case(("state", kind, nf, sd, json.dumps(inp["values"], sort_keys=True), json.dumps(cohort, sort_keys=True)), nontrivial=nontrivial)
            run.count("kind", f"{kind}/{'sources' if src else 'no-sources'}")
            run.count("style", style)
            if kind in KINDS_STEP:
                run.count("mean_xi_before", "0" if m_shift <= 1e-3 else ("<=1" if m_shift <= 1 else ">1"))
            for k in ("dev:model", "dev:nll_attach_ind", "dev:nll_attach_event_ind", "ortho:mixing-row", "ortho:space-shift"):
                if k in info and info[k] == info[k] and info[k] != float("inf"):
                    run.extra.setdefault("max_observed", {})
                    run.extra["max_observed"][k] = max(run.extra["max_observed"].get(k, 0.0), info[k])
            if len(run.samples) < 3 and src and kind in KINDS_STEP and r == 0:
                run.sample(dict(inp, observed=info))
            for sig, what, exp_v, obs in fails:
                small = inp
                if sig not in seen_sig and sig not in run.known:
                    seen_sig.add(sig)
                    small = shrink_state(inp, sig)
                    again = [x for x in eval_state(small)[0] if x[0] == sig]
                    if again:
                        sig, what, exp_v, obs = again[0]
                    else:
                        small = inp
                run.fail(sig, what, small, expected=exp_v, observed=obs)


def mixture_full_step_on_code(run: Run):
    """C10_mixture_sources_centring_refuted replayed on the real mixture model: `_center_sources_realizations` alone moves the space
    shifts and the trajectories (recorded; the mixture model is outside the property's quantifier, so this is no violation), while
    `_center_xi_realizations` alone does not (that part is an oracle of `eval_state`)."""
    import torch
    rng = run.rng("mixture-full-step")
    kind = KINDS_MIXTURE[0]
    try:
        m, ds, st = base_state(kind, 3, 1, n_ind=3, seed=3)
        vals = random_values(st, rng, "plain", kind)
        vals["sources"] = [[1.0], [3.0], [-0.5]]
        put_values(st, vals)
        w0, y0 = _val(st["space_shifts"]).double().clone(), _val(st["model"]).double().clone()
        type(m)._center_sources_realizations(st)
        w1, y1 = _val(st["space_shifts"]).double(), _val(st["model"]).double()
        dw, dy = float((w1 - w0).abs().max()), float(torch.nan_to_num(y1 - y0).abs().max())
        run.extra["mixture_full_step_on_code"] = dict(values={k: vals[k] for k in ("sources", "betas", "log_v0")},
                                                      mean_sources_after=float(_val(st["sources"]).double().mean()),
                                                      max_space_shift_change=dw, max_trajectory_change=dy,
                                                      agrees_with_theorem=dw > 1e-3)
        if not dw > 1e-3:
            run.broken("correspondence:mixture-sources-centring", "the code's _center_sources_realizations leaves the space shifts unchanged on "
                       f"sources = [1, 3, -0.5] (change {dw}); C10_mixture_sources_centring_refuted says they move", kind="broken-correspondence")
    except Exception as e:
        run.broken("correspondence:mixture-sources-centring", f"{type(e).__name__}: {e}", kind="broken-correspondence")


# ============================================================================== T3: kernel-checked enclosures

LIST_FUNS = ("matvec vmul vzeros_like vset vget vnorm vsub vadd vscale vdivs msub eye outer mcat_cols cols_before cols_from dot map nth length "
             "repeat firstn skipn app Nat.add transpose matmul col ncols seq mean rsum center shift fold_right INR sigmoid tpow Rmax Rmin")

T3_HEADER_TMPL = """From Coq Require Import Reals List Lra.
From Interval Require Import Tactic.
From Leaspy Require Import Base.RAux Formulas.Ortho Formulas.Gauge.
From LeaspyGen Require Import GenC10.
Import ListNotations.
Open Scope R_scope.
Lemma sign_pos_eq x : 0 < x -> sign x = 1.
Proof. intros H. unfold sign. destruct (Rlt_dec 0 x); [reflexivity|contradiction]. Qed.
Lemma sign_neg_eq x : x < 0 -> sign x = -1.
Proof. intros H. unfold sign. destruct (Rlt_dec 0 x); [lra|]. destruct (Rlt_dec x 0); [reflexivity|contradiction]. Qed.
Lemma sign_zero_eq x : x = 0 -> sign x = 0.
Proof. intros H. unfold sign. destruct (Rlt_dec 0 x); [lra|]. destruct (Rlt_dec x 0); [lra|reflexivity]. Qed.
Ltac itv := interval with (i_prec 60).
Ltac lr := first [ lra | (intro; lra) ].
(* torch.sign: the side is PROVED (interval / lra), never assumed *)
Ltac sgn := repeat match goal with
  | |- context [sign ?x] => first [ rewrite (sign_pos_eq x) by itv | rewrite (sign_neg_eq x) by itv | rewrite (sign_zero_eq x) by lra ]
  end.
Ltac flat t := lazymatch t with context [Rlt_dec _ _] => fail | context [Rle_dec _ _] => fail | context [Req_EM_T _ _] => fail | _ => idtac end.
Ltac lt_yes a b := destruct (Rlt_dec a b) as [_|Hn]; [ | exfalso; apply Hn; assumption].
Ltac lt_no a b := destruct (Rlt_dec a b) as [Hn|_]; [exfalso; match goal with Hd : b <= a |- _ => exact (Rlt_irrefl _ (Rlt_le_trans _ _ _ Hn Hd)) end | ].
Ltac le_yes a b := destruct (Rle_dec a b) as [_|Hn]; [ | exfalso; apply Hn; assumption].
Ltac le_no a b := destruct (Rle_dec a b) as [Hn|_]; [exfalso; match goal with Hd : b < a |- _ => exact (Rlt_irrefl _ (Rlt_le_trans _ _ _ Hd Hn)) end | ].
(* one innermost condition of a generated definition, decided by proving which side holds *)
Ltac decide1 :=
  match goal with
  | |- context [Rlt_dec ?a ?b] => flat a; flat b;
      first [ (assert (a < b) as Hd by itv; lt_yes a b; clear Hd) | (assert (b <= a) as Hd by itv; lt_no a b; clear Hd)
            | (assert (a < b) as Hd by lr; lt_yes a b; clear Hd) | (assert (b <= a) as Hd by lr; lt_no a b; clear Hd) ]
  | |- context [Rle_dec ?a ?b] => flat a; flat b;
      first [ (assert (a <= b) as Hd by itv; le_yes a b; clear Hd) | (assert (b < a) as Hd by itv; le_no a b; clear Hd)
            | (assert (a <= b) as Hd by lr; le_yes a b; clear Hd) | (assert (b < a) as Hd by lr; le_no a b; clear Hd) ]
  | |- context [Req_EM_T ?a ?b] => flat a; flat b;
      first [ (assert (a = b) as Hd by lr; destruct (Req_EM_T a b) as [_|Hn]; [clear Hd | exfalso; exact (Hn Hd)])
            | (assert (a <> b) as Hd by lr; destruct (Req_EM_T a b) as [Hn|_]; [exfalso; exact (Hd Hn) | clear Hd]) ]
  end.
Ltac t3 := cbv beta iota zeta delta [GEN_NAMES LIST_FUNS]; sgn; repeat decide1; unfold INFINITY_c; interval with (i_prec 60).
"""


def _R(x) -> str:
    f = frac(x)
    if f.denominator == 1:
        return f"({f.numerator})"
    return f"({f.numerator} / {f.denominator})"


def _Rl(xs) -> str:
    return "[" + "; ".join(_R(x) for x in xs) + "]"


def _Rm(rows) -> str:
    return "[" + "; ".join(_Rl(r) for r in rows) + "]"


def _tolq(scale: float, rel: float) -> Fraction:
    t = rel * (1.0 + abs(scale))
    if not math.isfinite(t):
        return Fraction(10) ** 308
    e = math.floor(math.log10(t))
    return Fraction(int(t / 10 ** e) + 1) * Fraction(10) ** e


class T3:
    """collects `Rabs (<generated definition on exact inputs> - <value the code produced>) <= tol` statements"""

    def __init__(self, run: Run, sigs: dict):
        self.run = run
        self.sigs = sigs
        self.lemmas: list[str] = []
        self.meta: list[dict] = []
        self.rng = run.rng("t3")
        self.thorough = run.tier == "thorough"
        self.before = None

    def add(self, expr: str, obs, tol: Fraction, **meta):
        o = float(obs)
        if not math.isfinite(o):
            return
        self.lemmas.append(f"Rabs ({expr} - {_R(o)}) <= {_R(tol)}")
        self.meta.append(dict(meta, observed=o))
        self.run.count("t3", meta.get("what", "?"))

    # ---- entries of a real state
    def arg(self, p, st, i, j, k):
        def one(name, idx=None):
            v = _val(st[name]).reshape(-1)
            return v[0] if (idx is None or v.numel() == 1) else v[idx]
        if p in ("log_g", "g", "log_v0", "noise_std", "deltas_padded"):
            return one(p, k)
        if p in ("xi", "tau", "survival_shifts"):
            return _val(st[p])[i].reshape(-1)[0]
        if p in ("log_rho", "n_log_nu"):
            return one(p)
        if p == "t":
            return st["t"].value[i, j]
        if p == "y":
            return st["y"].value[i, j, k]
        if p == "space_shifts":
            return _val(st["space_shifts"])[i, k]
        if p == "event_time":
            return st["event"].value[i].reshape(-1)[0]
        if p == "event_bool":
            return st["event"].weight[i].reshape(-1)[0].double()
        raise Untranslatable(f"no state value for parameter {p}")

    def app(self, name, st, i=0, j=0, k=0):
        return "(" + " ".join([name] + [_R(self.arg(p, st, i, j, k)) for p in self.sigs[name]]) + ")"

    def collect_script(self, kind, m, st, inp, after=False):
        """only the re-centring script lemmas (values before the step are recorded, values after are compared)"""
        if after:
            return self.collect(kind, m, st, inp, after=True)
        self.before = {n: _val(st[n]).reshape(-1).double().tolist() for n in ("xi", "log_v0") + (("n_log_nu",) if kind == "joint" else ())}

    def collect(self, kind, m, st, inp, after=False):
        import torch
        k_ = SHORT[kind]
        src = has_sources(st)
        sfx = "_src" if src else ""
        cfg = dict(kind=kind, n_feat=inp["n_feat"], source_dimension=inp["source_dimension"])
        if after:
            # the script: xi' = xi - mean xi, log_v0' = log_v0 + mean xi (joint: n_log_nu too), on the values read before
            b = self.before
            if b is None or kind not in KINDS_STEP:
                return
            xs = _Rl(b["xi"])
            xi1 = _val(st["xi"]).reshape(-1)
            i = self.rng.randrange(len(b["xi"]))
            self.add(f"nth {i} (center {xs}) 0", xi1[i], _tolq(1, 2e-6), what="script:xi", n_ind=len(b["xi"]),
                     cohort=inp.get("cohort"), **cfg)
            for name in ("log_v0",) + (("n_log_nu",) if kind == "joint" else ()):
                v1 = _val(st[name]).reshape(-1)
                k = self.rng.randrange(len(b[name]))
                self.add(f"nth {k} (shift (mean {xs}) {_Rl(b[name])}) 0", v1[k], _tolq(float(v1[k]), 2e-6), what=f"script:{name}", **cfg)
            self.before = None
            return
        if kind in KINDS_STEP:
            self.before = {n: _val(st[n]).reshape(-1).double().tolist() for n in ("xi", "log_v0") + (("n_log_nu",) if kind == "joint" else ())}
        tw = st["t"].weight if st["t"].weight is not None else torch.ones_like(st["t"].value)
        yw = st["y"].weight if st["y"].weight is not None else torch.ones_like(st["y"].value)
        n_ind, n_vis = tw.shape[0], tw.shape[1]
        n_feat = yw.shape[2]
        model = _val(st["model"])
        traj = "gen_shared_traj_src" if kind == "shared_speed_logistic" else f"gen_{k_}_traj{sfx}"
        visits = [(i, j) for i in range(n_ind) for j in range(n_vis) if float(tw[i, j]) > 0]
        if traj in self.sigs and (src or kind != "shared_speed_logistic"):
            for (i, j) in self.rng.sample(visits, min(4 if self.thorough else 3, len(visits))):
                k = self.rng.randrange(n_feat)
                o = model[i, j, k]
                self.add(self.app(traj, st, i, j, k), o, _tolq(float(o), 5e-6), what="trajectory", index=[i, j, k], **cfg)
        if kind in KINDS_STEP:
            att = f"gen_{k_}_attach{sfx}"
            node = "nll_attach_y_ind" if kind == "joint" else "nll_attach_ind"
            nobs = [(int((yw[i] > 0).sum()), i) for i in range(n_ind)]
            for _, i in sorted(x for x in nobs if x[0] > 0)[:(2 if self.thorough else 1)]:
                terms = [self.app(att, st, i, j, k) for j in range(n_vis) for k in range(n_feat) if float(yw[i, j, k]) > 0]
                o = _val(st[node])[i]
                sc = float(attach_scale(st, kind, model)[i])
                self.add("(" + " + ".join(terms) + ")", o, _tolq(sc, 1e-5), what="attachment", index=[i], terms=len(terms), **cfg)
            if kind == "joint":
                ev = f"gen_joint_event{sfx}"
                for i in self.rng.sample(range(n_ind), min(3 if self.thorough else 2, n_ind)):
                    o = _val(st["nll_attach_event_ind"]).reshape(n_ind, -1)[i, 0]
                    self.add(self.app(ev, st, i), o, _tolq(float(o), 1e-5), what="event", index=[i], **cfg)
        if not src:
            return
        # the direction, the metric, the basis computed from the population values, the two matrix products
        ob = st.dag["orthonormal_basis"].f
        dname, gname = ob.parameters
        k = self.rng.randrange(n_feat)
        for role, node in (("dir", dname), ("G", gname)):
            gen = f"gen_{k_}_{role}"
            o = _val(st[node]).reshape(-1)
            o = o[k] if o.numel() > 1 else o[0]
            self.add(self.app(gen, st, k=k) if self.sigs[gen] else gen, o, _tolq(float(o), 3e-6), what=f"basis-argument:{role}", index=[k], **cfg)
        B = _val(st["orthonormal_basis"])
        if n_feat <= 4:
            args = []
            for p in self.sigs[f"gen_{k_}_basis"]:
                args.append(_Rl(_val(st[p[:-2]]).reshape(-1).tolist()) if p.endswith("_l") else _R(_val(st[p]).reshape(-1)[0]))
            for _ in range(2 if self.thorough else 1):
                r, c = self.rng.randrange(B.shape[0]), self.rng.randrange(B.shape[1])
                self.add(f"nth {c} (nth {r} (gen_{k_}_basis {' '.join(args)}) []) 0", B[r, c], _tolq(1, 4e-6), what="basis-from-population-values",
                         index=[r, c], **cfg)
        betas, M, S, W = _val(st["betas"]), _val(st["mixing_matrix"]), _val(st["sources"]), _val(st["space_shifts"])
        s, c = self.rng.randrange(M.shape[0]), self.rng.randrange(M.shape[1])
        sc = float((B[c].double().abs() * betas[:, s].double().abs()).sum())
        self.add(f"nth {c} (nth {s} (gen_{k_}_mixing {_Rm(B.tolist())} {_Rm(betas.tolist())}) []) 0", M[s, c], _tolq(sc, 3e-6),
                 what="mixing-matrix", index=[s, c], **cfg)
        i, c = self.rng.randrange(W.shape[0]), self.rng.randrange(W.shape[1])
        sc = float((S[i].double().abs() * M[:, c].double().abs()).sum())
        self.add(f"nth {c} (nth 0 (gen_{k_}_space_shifts {_Rm([S[i].tolist()])} {_Rm(M.tolist())}) []) 0", W[i, c], _tolq(sc, 3e-6),
                 what="space-shift", index=[i, c], **cfg)

    def prove(self):
        names = sorted(self.sigs) + [f"gen_{SHORT[k]}_{x}" for k in KINDS_WIRING for x in ("basis", "mixing", "space_shifts")] + ["gen_ortho_basis", "gen_ortho_basis_0d", "gen_ortho_basis_1d", "gen_ortho_basis_2d"]
        hdr = T3_HEADER_TMPL.replace("GEN_NAMES", " ".join(dict.fromkeys(names))).replace("LIST_FUNS", LIST_FUNS)
        return self.run.interval_lemmas("t3", hdr, self.lemmas, "t3.", shard=max(12, len(self.lemmas) // (14 if self.thorough else 8) + 1))


ORTHONORMAL_ABS = 1e-5   # |B^T B - I| entry-wise (float32)


def _metric_ndim(G):
    return 0 if not isinstance(G, (list, tuple)) else (2 if G and isinstance(G[0], (list, tuple)) else 1)


def basis_failures(inp):
    """the real compute_orthonormal_basis on an explicit direction / metric (scalar, vector or matrix) / strip_col:
    shape, kept columns orthogonal to G d (when coordinate strip_col of G d is non-zero: C10_ortho_branches), kept columns
    orthonormal for the canonical inner product (C10_orthonormal_branches).  Returns (failures, basis or None)."""
    import torch
    from leaspy.utils.linalg import compute_orthonormal_basis
    dt = getattr(torch, inp.get("dtype", "float32"))
    d, G = torch.tensor(inp["d"], dtype=dt), torch.tensor(inp["G"], dtype=dt)
    nd = _metric_ndim(inp["G"])
    strip = inp.get("strip_col")
    pre = "basis" if (nd == 1 and not strip) else f"basis:{nd}d-metric" + (":strip_col" if strip else "")
    try:
        B = compute_orthonormal_basis(d, G) if strip is None else compute_orthonormal_basis(d, G, strip_col=int(strip))
    except Exception as e:
        return [(f"{pre}:raises:{type(e).__name__}", f"compute_orthonormal_basis raised {type(e).__name__}: {e}", None, None)], None
    n = len(inp["d"])
    if tuple(B.shape) != (n, n - 1):
        return [(f"{pre}:shape", f"basis has shape {list(B.shape)} for dimension {n}", [n, n - 1], list(B.shape))], B
    Gd, dd = G.double(), d.double()
    D = Gd @ dd if nd == 2 else Gd * dd
    fails = []
    if float(D.abs().max()) > 0 and n > 1:
        gram = B.double().t() @ B.double()
        dev = (gram - torch.eye(n - 1, dtype=torch.float64)).abs()
        if not torch.isfinite(dev).all() or float(dev.max()) > ORTHONORMAL_ABS:
            a, b = divmod(int(torch.nan_to_num(dev, nan=float("inf")).argmax()), n - 1)
            fails.append((f"{pre}:columns-not-orthonormal", f"columns {a}, {b} of the basis: q_a . q_b = {float(gram[a, b]):.6g}",
                          1.0 if a == b else 0.0, float(gram[a, b])))
    if float(D[int(strip or 0)]) == 0.0:
        return fails, B
    r = (B.double().t() @ D).abs() / (B.double().norm(dim=0) * D.norm()).clamp(min=1e-300)
    if not torch.isfinite(r).all() or float(r.max()) > ORTHO_REL:
        j = int(torch.nan_to_num(r, nan=float("inf")).argmax())
        fails.append((f"{pre}:column-not-orthogonal", f"column {j} of the basis is not orthogonal to G d: |q.Gd|/(|q||Gd|) = {float(r[j]):.3g}",
                      f"<= {ORTHO_REL}", float(r[j])))
    return fails, B


def _branch_inputs(rng, n, nd, c):
    """a dyadic direction (either sign), a positive scalar / positive diagonal / symmetric positive definite matrix, a strip_col"""
    d = [rng.choice([-1, 1]) * rng.randint(1, 64) / 16 for _ in range(n)]
    strip = rng.randrange(n)
    if nd == 0:
        G = rng.randint(1, 32) / 8
    elif nd == 1:
        G = [rng.randint(1, 32) / 8 for _ in range(n)]
        if strip == 0:
            strip = n - 1           # strip_col = 0 with a 1-D metric is the models' case, covered by the first loop
    else:
        A = [[rng.randint(-4, 4) / 4 for _ in range(n)] for _ in range(n)]
        G = [[sum(A[i][k] * A[j][k] for k in range(n)) + (0.5 if i == j else 0.0) for j in range(n)] for i in range(n)]   # A A^T + I/2: SPD, non-diagonal
    if c == 1:
        # pivot coordinate of G d exactly zero (region of C10_ortho_branches_zero_pivot_refuted): the tie must hold there too
        if nd == 2:
            G = [[(G[i][j] if i == j else 0.0) for j in range(n)] for i in range(n)]
        d[strip] = 0.0
    return d, G, strip


def search_branches(run: Run, T, thorough: bool):
    """every branch of compute_orthonormal_basis: scalar / diagonal (strip_col <> 0) / full metric, dims 2-6, random strip_col"""
    rng = run.rng("basis-branches")
    for n in range(2, 7):
        for nd in (0, 1, 2):
            for c in range(3 if thorough else 2):
                d, G, strip = _branch_inputs(rng, n, nd, c)
                inp = dict(what="basis", d=d, G=G, strip_col=strip, dtype="float32")
                fails, B = basis_failures(inp)
                run.case(("basis", tuple(d), json.dumps(G), strip), nontrivial=d[strip] != 0)
                run.count("basis", f"{nd}d-metric/dim={n}/pivot={'zero' if c == 1 else 'nonzero'}")
                for sig, what, e, o in fails:
                    run.fail(sig, what, inp, expected=e, observed=o)
                if T is not None and B is not None and tuple(B.shape) == (n, n - 1):
                    cells = [(r, q) for r in range(n) for q in range(n - 1)]
                    cells = rng.sample(cells, min(len(cells), 4 if thorough else 1))
                    Gq = _R(G) if nd == 0 else (_Rl(G) if nd == 1 else _Rm(G))
                    for r, q in cells:
                        T.add(f"nth {q} (nth {r} (gen_ortho_basis_{nd}d {strip} {_Rl(d)} {Gq}) []) 0", B[r, q], _tolq(1, 3e-6),
                              what=f"compute_orthonormal_basis:{nd}d-metric", d=d, G=G, strip_col=strip, index=[r, q])
            # directed, oracle only: the pivot coordinate of G d dominates (either sign) — u = D - alpha e_j must not cancel
            # (alpha has the sign opposite to D_j); a reflection with the other sign is mathematically a Householder basis too but
            # loses the orthogonality in float32 exactly here
            for sgn, small in ((-1.0, 512), (1.0, 512), (-1.0, 8192), (1.0, 8192)):
                strip = rng.randrange(n)
                d = [rng.choice([-1, 1]) * rng.randint(1, 4) / small for _ in range(n)]
                d[strip] = sgn * rng.randint(2, 8) / 2
                G = 1.0 if nd == 0 else ([1.0] * n if nd == 1 else [[1.0 if i == j else 0.0 for j in range(n)] for i in range(n)])
                if nd == 2:
                    k = (strip + 1) % n
                    G[k][k] = 2.0
                    G[strip][k] = G[k][strip] = 1 / 64          # symmetric, positive definite, not diagonal
                inp = dict(what="basis", d=d, G=G, strip_col=strip, dtype="float32")
                fails, B = basis_failures(inp)
                run.case(("basis", tuple(d), json.dumps(G), strip), nontrivial=True)
                run.count("basis", f"{nd}d-metric/dim={n}/pivot=dominant-{'neg' if sgn < 0 else 'pos'}")
                for sig, what, e, o in fails:
                    run.fail(sig, what, inp, expected=e, observed=o)
    # the witnesses of C10_ortho_branches_zero_pivot_refuted / C10_orthonormal_metric_refuted on the real function
    import torch
    rec = {}
    for nd, G in ((0, 1.0), (1, [1.0, 1.0]), (2, [[1.0, 0.0], [0.0, 1.0]])):
        _, B = basis_failures(dict(d=[1.0, 0.0], G=G, strip_col=1))
        dot = None if B is None else float((B.double().t() @ torch.tensor([1.0, 0.0], dtype=torch.float64))[0])
        rec[f"{nd}d"] = dict(d=[1, 0], G=G, strip_col=1, basis=None if B is None else B.tolist(), column_dot_Gd=dot)
        if dot is None or abs(dot) <= 0.5:
            run.broken("correspondence:zero-pivot-witness", f"{nd}-D metric: the code does not reproduce the witness of "
                       f"C10_ortho_branches_zero_pivot_refuted (dot = {dot})", kind="broken-correspondence")
    _, B = basis_failures(dict(d=[1.0, 1.0], G=2.0, strip_col=0))
    mn = None if B is None else float(2.0 * (B.double()[:, 0] ** 2).sum())
    rec["metric_norm_sqr_scalar_metric_2"] = mn
    if mn is None or abs(mn - 2.0) > 1e-4:
        run.broken("correspondence:metric-orthonormal-witness", f"the code does not reproduce the witness of C10_orthonormal_metric_refuted "
                   f"(metric norm^2 of the kept column = {mn}, theorem: 2)", kind="broken-correspondence")
    run.extra["branch_witnesses_on_code"] = rec


def search_basis(run: Run, T, thorough: bool):
    """dims 2-6, random dyadic direction (either sign) and metric: oracle + entry-wise enclosure of the generated function"""
    rng = run.rng("basis")
    per_dim = 6 if thorough else 3
    for n in range(2, 7):
        for c in range(per_dim):
            d = [rng.choice([-1, 1]) * rng.randint(1, 64) / 16 for _ in range(n)]
            G = [rng.randint(1, 32) / 8 for _ in range(n)]
            if c == 1:
                d[0] = -abs(d[0])
            if c == 2:
                d[0] = 0.0          # the region of C10_orthogonal_first_zero_refuted: the tie must hold there too
                d[1] = d[1] or 1.0
            inp = dict(what="basis", d=d, G=G, dtype="float32")
            fails, B = basis_failures(inp)
            run.case(("basis", tuple(d), tuple(G)), nontrivial=d[0] != 0)
            run.count("basis", f"dim={n}/first={'zero' if d[0] == 0 else ('neg' if d[0] < 0 else 'pos')}")
            for sig, what, e, o in fails:
                run.fail(sig, what, inp, expected=e, observed=o)
            if T is not None and B is not None and tuple(B.shape) == (n, n - 1):
                cells = [(r, q) for r in range(n) for q in range(n - 1)]
                if n > 4 and thorough:
                    cells = rng.sample(cells, 8)
                elif n > 2 and not thorough:
                    cells = rng.sample(cells, 3 if n == 3 else 2)
                for r, q in cells:
                    T.add(f"nth {q} (nth {r} (gen_ortho_basis {_Rl(d)} {_Rl(G)}) []) 0", B[r, q], _tolq(1, 3e-6), what="compute_orthonormal_basis",
                          d=d, G=G, index=[r, q])
    # the witness of C10_orthogonal_first_zero_refuted on the real function: reproduced, recorded — not a property failure,
    # no model kind passes a direction with a vanishing first coordinate (C10_direction_positive)
    import torch
    _, B = basis_failures(dict(d=[0.0, 1.0], G=[1.0, 1.0]))
    if B is not None:
        dot = float((B.double().t() @ torch.tensor([0.0, 1.0], dtype=torch.float64))[0])
        run.extra["first_zero_witness_on_code"] = dict(d=[0, 1], G=[1, 1], basis=B.tolist(), column_dot_Gd=dot,
                                                       agrees_with_theorem=abs(dot) > 0.5)
        if abs(dot) <= 0.5:
            run.broken("correspondence:first-zero-witness", f"the code returns a column orthogonal to G o d on the witness of "
                       f"C10_orthogonal_first_zero_refuted (dot = {dot})", kind="broken-correspondence")


# ============================================================================== short real fits (recording wrappers only)


class _StopFit(Exception):
    pass


def eval_fit(inp):
    """A short real fit (harness/synth.py) in which the model instance's compute_sufficient_statistics is wrapped — the real
    method is always the one that runs — so that (a) and (b) are checked at every iteration.  Returns (failures, log);
    each failure is (signature, what, expected, observed, iteration)."""
    from harness import synth
    kind, nf, sd = inp["kind"], inp["n_feat"], inp["source_dimension"]
    fails, log = [], []
    try:
        model = synth.make_model(kind, nf, sd)
    except Exception as e:
        return [(f"fit:{kind}:setup-raises:{type(e).__name__}", f"{type(e).__name__}: {e}", None, None, 0)], log
    real = model.compute_sufficient_statistics

    def css(state):
        k = len(log) + 1
        rec = dict(k=k)
        f, i = ortho_failures(kind, state, f"iteration {k}, before the statistics")
        rec.update({"ortho:" + a: b for a, b in i.items()})
        if kind in KINDS_GAUGE:
            holder = {}

            def call(st):
                holder["r"] = real(st)
            f2, i2 = recentre_failures(kind, model, state, call=call)
            rec.update(i2)
            f += f2
        else:
            holder = {"r": real(state)}
        if "r" in holder:
            f3, i3 = ortho_failures(kind, state, f"iteration {k}, after the statistics")
            f += [x for x in f3 if x[0] not in {y[0] for y in f}]
        log.append(rec)
        fails.extend(x + (k,) for x in f)
        if "r" not in holder:
            raise _StopFit()
        return holder["r"]

    model.compute_sufficient_statistics = css
    # (extension) the mixture model: its own `_center_xi_realizations` is a classmethod called as `cls._center_xi_realizations(state)`;
    # a recording wrapper is set on the concrete class for the duration of the fit (the real method is the one that runs) and removed
    # in `finally`.  The step ALONE is checked (the sources centring that follows is not a gauge change and is not part of it).
    cls, name = type(model), "_center_xi_realizations"
    had = cls.__dict__.get(name)
    centre_calls = []
    if kind in KINDS_MIXTURE:
        orig = getattr(cls, name)

        def centre(c, state):
            k = len(centre_calls) + 1
            done = {}

            def call(st):
                orig(st)
                done["r"] = True
            f2, i2 = recentre_failures(kind, model, state, call=call)
            centre_calls.append(dict(i2, k=k))
            fails.extend(x + (k,) for x in f2)
            if "r" not in done:
                raise _StopFit()
        setattr(cls, name, classmethod(centre))
    try:
        synth.fit(kind, n_iter=inp["n_iter"], seed=inp["seed"], n_ind=inp["n_ind"], n_feat=nf, source_dimension=sd, model=model)
    except _StopFit:
        pass
    except Exception as e:
        fails.append((f"fit:{kind}:raises:{type(e).__name__}", f"fit raised {type(e).__name__}: {e}", None, None, len(log) + 1))
    finally:
        try:
            del model.compute_sufficient_statistics
        except AttributeError:
            pass
        if kind in KINDS_MIXTURE:
            if had is not None:
                setattr(cls, name, had)
            else:
                delattr(cls, name)
    if kind in KINDS_MIXTURE:
        for rec, c in zip(log, centre_calls):
            rec.update({k: v for k, v in c.items() if k != "k"})
        if not fails and len(centre_calls) != inp["n_iter"]:
            fails.append((f"fit:{kind}:centring-calls", f"_center_xi_realizations was called {len(centre_calls)} times in a fit of {inp['n_iter']} iterations",
                          inp["n_iter"], len(centre_calls), len(centre_calls)))
    if not fails and len(log) != inp["n_iter"]:
        fails.append((f"fit:{kind}:statistics-calls", f"compute_sufficient_statistics was called {len(log)} times in a fit of {inp['n_iter']} iterations",
                      inp["n_iter"], len(log), len(log)))
    return fails, log


FIT_CONFIGS = [("logistic", 3, 2, 6), ("logistic", 1, None, 4), ("linear", 3, 1, 5), ("joint", 3, 1, 5), ("joint", 1, None, 4),
               ("shared_speed_logistic", 3, 1, 4), ("mixture_logistic", 3, 1, 4)]
FIT_CONFIGS_THOROUGH = [("logistic", 4, 3, 25), ("logistic", 3, 0, 12), ("linear", 1, None, 12), ("linear", 4, 2, 20), ("joint", 3, 2, 20),
                        ("shared_speed_logistic", 4, 2, 15)]


def search_fits(run: Run, thorough: bool):
    for kind, nf, sd, n_iter in FIT_CONFIGS + (FIT_CONFIGS_THOROUGH if thorough else []):
        inp = dict(what="fit", kind=kind, n_feat=nf, source_dimension=sd, n_iter=n_iter, seed=run.seed % 1000, n_ind=10)
        fails, log = eval_fit(inp)
        for rec in log:
            run.case(("fit", kind, nf, sd, n_iter, inp["seed"], rec["k"]),
                     nontrivial=(kind in KINDS_STEP and abs(rec.get("mean_before", 0.0)) > 1e-4) or rec.get("ortho:mixing-row-nontrivial", False))
            run.count("kind", f"fit:{kind}/{'sources' if sd else 'no-sources'}")
        if log and len(run.samples) < 5:
            run.sample(dict(inp, iterations=[{k: (round(v, 10) if isinstance(v, float) else v) for k, v in r.items()} for r in log[:3]]))
        done = set()
        for sig, what, e, o, k in fails:
            small = dict(inp, iteration=k)
            if sig not in done and k < n_iter and sig not in run.known:
                done.add(sig)
                x = dict(inp, n_iter=k)
                if any(s == sig for s, *_ in eval_fit(x)[0]):
                    small = dict(x, iteration=k)
            run.fail(sig, f"real fit, iteration {k}: {what}", small, expected=e, observed=o)


# ============================================================================== main / replay


def check(run: Run, tie: bool):
    from harness.common import use_impl
    use_impl()
    thorough = run.tier == "thorough"
    run.rule = ("(1) REAL model states (model_factory + initialize + put_data_variables on a synthetic cohort) of logistic / linear / joint / "
                "shared-speed x {univariate, no sources, 1-3 sources}: every population and individual latent variable set through "
                "state[name] = tensor to random dyadic values (styles: plain, wide ranges, all xi equal, first coordinate dominant; mean xi "
                "shifted by 0, +-0.25, +-0.75, +-2), then the real compute_sufficient_statistics: model / nll_attach_ind / nll_attach_y_ind / "
                "nll_attach_event_ind before vs after, mean xi after, rows of mixing_matrix and space_shifts against G o d recomputed from "
                "the `metric` and `v0` the trajectory itself uses; (2) compute_orthonormal_basis on random directions (either sign, zero first coordinate) and metrics, dims 2-6, and (extension) "
                "with a scalar / diagonal / full positive definite metric and a random strip_col (zero and dominant pivot coordinates "
                "included): orthogonality and orthonormality of the returned columns; (2') mixture states through the mixture model's own "
                "_center_xi_realizations; "
                "(3) short real fits with a recording wrapper around compute_sufficient_statistics, same oracles at every iteration; "
                "(4) Coq-Interval lemmas: entries of model, attachment sums, event terms, v0 / metric_sqr, orthonormal_basis, mixing_matrix, "
                "space_shifts, re-centred xi / log_v0 / n_log_nu of those very states against the GENERATED definitions.  "
                "Non-trivial = |mean xi| > 1e-3 before the step (gauge) or a non-zero mixing row (orthogonality); distinct by values.")
    T = T3(run, run.extra["generated_signatures"]) if tie and "generated_signatures" in run.extra else None
    run.log("implementation: compute_orthonormal_basis")
    search_basis(run, T, thorough)
    search_branches(run, T, thorough)
    run.log("implementation: real states")
    search_states(run, T, thorough)
    mixture_full_step_on_code(run)
    run.log("implementation: short real fits")
    search_fits(run, thorough)
    if T is not None:
        run.log(f"T3: {len(T.lemmas)} interval lemmas")
        bad = T.prove()
        run.extra["interval_lemmas"] = len(T.lemmas)
        if bad:
            i = bad[0]
            run.broken("correspondence:enclosure", f"{len(bad)} of {len(T.lemmas)} interval lemmas fail; first: {T.lemmas[i][:1500]}\n"
                       f"from: {json.dumps(T.meta[i], default=str)[:600]}", kind="broken-correspondence")
            run.extra["interval_lemmas_failing"] = [T.meta[j].get("what") for j in bad[:20]]


def main(run: Run):
    ok_t = translate(run)
    ok_p = run.prove("C10", OBLIGATIONS) if ok_t else False
    run.assumptions += [
        "theorems are over the reals; the oracles allow float32 rounding: values before / after the step within 1e-5 * (1 + |value|) "
        "(attachment sums: 1 + sum of the absolute values of their terms) plus the first-order propagation of the float32 roundings "
        "of log_v0 + m, xi - m and of the recomputed basis (rounding_allowance), |mean xi| <= 1e-6 * max(1, max |xi|), "
        "|w . Gv0| <= 1e-5 |w| |Gv0|",
        "population values stay where float32 exp neither underflows nor overflows (|log_v0|, |log_g| <= 10): for log_v0[0] < -103 "
        "exp underflows to 0, torch.sign(0) = 0 and the basis is the one of C10_orthogonal_first_zero_refuted — a float range effect, "
        "no real value of the velocities gives it (C10_direction_positive); shared-speed random states keep log_g in [-1, 2], "
        "deltas in [-1, 1] (float32 cancellation 1 - gamma in g_metric beyond)",
        "reads of derived variables after the two puts of the step are fresh (C01)",
    ]
    run.explanation = ("Theorems over R about definitions regenerated from the code on every run (traced node functions, ast translation of "
                       "compute_orthonormal_basis and of both _center_xi_realizations, DAG introspection); interval lemmas compare those "
                       "definitions entry-wise with what real model states hold; the property itself is then checked on the implementation "
                       "(before / after the real step, orthogonality against a from-scratch G o d) on random real states and inside real fits.")
    try:
        check(run, tie=ok_t)
    except Exception as e:
        import traceback
        run.broken("search", f"{type(e).__name__}: {e}\n{traceback.format_exc()[-1500:]}")
    return run.finish()


def replay(run: Run, path: str):
    """Re-run one recorded input on the current tree: prints every oracle verdict, returns 1 when the recorded failure is still there."""
    from harness.common import use_impl
    use_impl()
    d = json.load(open(path))
    inp = d.get("input")
    if not isinstance(inp, dict) or "what" not in inp:
        print("replay: this file records a broken obligation / correspondence, re-running the check itself:",
              [b["name"] for b in d.get("broken", d.get("also_broken", []))])
        return main(run)
    sig = d.get("signature")
    if inp["what"] == "state":
        fails, info = eval_state(inp)
        print("state:", json.dumps({k: inp[k] for k in ("kind", "n_feat", "source_dimension", "cohort")}))
        for k, v in sorted(info.items()):
            print(f"  {k} = {v}")
    elif inp["what"] == "basis":
        fails, B = basis_failures(inp)
        print("compute_orthonormal_basis(d =", inp["d"], ", G =", inp["G"], ", strip_col =", inp.get("strip_col", "default"), ") =",
              None if B is None else B.tolist())
    elif inp["what"] == "fit":
        f5, log = eval_fit(inp)
        fails = [x[:4] for x in f5]
        for rec in log:
            print("  iteration", json.dumps(rec, default=str))
    else:
        print("replay: unknown input kind", inp["what"])
        return 2
    for s, what, e, o in fails:
        print(f"FAIL {s}: {what} (expected {e}, observed {o})")
    still = any(s == sig for s, *_ in fails) if sig else bool(fails)
    if sig and not still and fails:
        print(f"recorded signature {sig} no longer fails, but other oracles do")
    print("REPLAY", "FAILS" if (still or fails) else "passes")
    return 1 if (still or fails) else 0
