"""Toy variable graphs and operation histories on the real `State` (shared by C01 and C02).

* `ToyGraph`     random DAG described in plain data, built as real `LinkedVariable`/`DataVariable`/`Hyperparameter`
                 objects on int64/float64 tensors; its Coq literal (`list nspec`) uses the ancestors/children the
                 implementation's own `VariablesDAG` reports.
* `Session`      executes operations on real `State` objects, canonicalises what happened (value / error class),
                 evaluates the discipline of the operation on the real state (white box: `_last_fork`, `_values`,
                 `auto_fork_type`) and runs the from-scratch oracle after every operation.
* `gen_history`  grammar of histories (valid stream / malformed stream), generated against the live session.
"""
from __future__ import annotations

import copy
import math

INF = float("inf")
UNKNOWN = "zz_not_a_variable"
NAME_POOL = ["a", "b", "c", "d", "e", "k", "m", "p", "q", "r", "t", "u", "w", "x", "y", "z", "aa", "mm", "zz", "b2", "x_1", "A", "Q"]


# ----------------------------------------------------------------------------- values


def atom_json(x):
    """python number -> JSON-able exact atom"""
    if isinstance(x, bool):
        return int(x)
    if isinstance(x, int):
        return x
    if math.isnan(x):
        return "nan"
    if x == INF:
        return "inf"
    if x == -INF:
        return "-inf"
    if float(x).is_integer():
        return int(x)
    return ["off", repr(x)]


def atom_py(a):
    if a == "nan":
        return float("nan")
    if a == "inf":
        return INF
    if a == "-inf":
        return -INF
    return a


def atom_coq(a):
    if a == "nan":
        return "ANaN"
    if a == "inf":
        return "APInf"
    if a == "-inf":
        return "ANInf"
    if isinstance(a, list):
        return "AOff"
    return f"(AFin ({int(a)})%Z)"


def val_json(t):
    """tensor -> exact JSON value (scalar atom, or list of atoms); anything else is described as text"""
    if t is None:
        return None
    if hasattr(t, "weighted_value"):
        t = t.weighted_value
    if t.ndim == 0:
        return atom_json(t.item())
    if t.ndim == 1:
        return [atom_json(x) for x in t.tolist()]
    return {"shape": list(t.shape)}


def val_coq(v):
    if isinstance(v, dict):
        return "XBad"
    if isinstance(v, list) and not (len(v) == 2 and v[0] == "off"):
        return "(XP [" + "; ".join(atom_coq(a) for a in v) + "])"
    return f"(XS {atom_coq(v)})"


def is_vec(v):
    return isinstance(v, list) and not (len(v) == 2 and v[0] == "off")


def out_coq(o):
    if o[0] == "ok":
        return f"(Ok {val_coq(o[1])})"
    if o[0] == "okb":
        return f"(OkB {'true' if o[1] else 'false'})"
    if o[0] == "done":
        return "Done"
    return "(Err InputError)" if o[1] == "input" else "(Err Crash)"


# ----------------------------------------------------------------------------- graphs


class ToyGraph:
    """nodes: list of dicts  {name, kind: hyper|pop|ind|linked, value (hyper), parents [names], fun: (affine|sum|log2, c0, [cs])}"""

    def __init__(self, nodes, n_ind, dtype="int64"):
        self.nodes = nodes
        self.n_ind = n_ind
        self.dtype = dtype
        self.by_name = {nd["name"]: nd for nd in nodes}
        self.dag = None

    def to_json(self):
        return dict(nodes=self.nodes, n_ind=self.n_ind, dtype=self.dtype)

    @staticmethod
    def from_json(d):
        return ToyGraph(d["nodes"], d["n_ind"], d.get("dtype", "int64"))

    def tensor(self, v):
        import torch
        dt = torch.int64 if self.dtype == "int64" else torch.float64
        if isinstance(v, list):
            return torch.tensor([atom_py(a) for a in v], dtype=dt)
        return torch.tensor(atom_py(v), dtype=dt)

    def axis(self, name):
        nd = self.by_name[name]
        if nd["kind"] == "ind":
            return True
        if nd["kind"] != "linked" or nd["fun"][0] == "sum":
            return False
        return any(self.axis(p) for p in nd["parents"])

    def build(self):
        """Real DAG; node order = the implementation's topological order."""
        import torch
        from leaspy.variables.dag import VariablesDAG
        from leaspy.variables.specs import DataVariable, Hyperparameter, LinkedVariable
        d = {}
        for nd in self.nodes:
            if nd["kind"] == "hyper":
                d[nd["name"]] = Hyperparameter(self.tensor(nd["value"]))
            elif nd["kind"] in ("pop", "ind"):
                d[nd["name"]] = DataVariable()
            else:
                kind, c0, cs = nd["fun"]
                ps = nd["parents"]
                if kind == "affine":
                    body = " + ".join([str(c0)] + [f"({c}) * {p}" for c, p in zip(cs, ps)])
                elif kind == "sum":
                    body = " + ".join([str(c0)] + [f"({c}) * {p}.sum()" for c, p in zip(cs, ps)])
                elif kind == "log2":
                    body = f"torch.log2({ps[0]})"
                else:
                    raise ValueError(kind)
                ns = {}
                exec(f"def f(*, {', '.join(ps)}):\n    return {body}\n", {"torch": torch}, ns)
                d[nd["name"]] = LinkedVariable(ns["f"])
        self.dag = VariablesDAG.from_dict(d)
        self.order = list(self.dag.sorted_variables_names)
        self.index = {n: i for i, n in enumerate(self.order)}
        return self.dag

    def ix(self, name):
        return self.index.get(name, len(self.order) + 3)

    def settable(self):
        return [n for n in self.order if self.by_name[n]["kind"] in ("pop", "ind")]

    def coq(self):
        """`list nspec` literal; ancestors / children are the ones the implementation computed."""
        out = []
        for name in self.order:
            nd = self.by_name[name]
            linked = nd["kind"] == "linked"
            hyper = f"(Some {val_coq(nd['value'])})" if nd["kind"] == "hyper" else "None"
            if linked:
                kind, c0, cs = nd["fun"]
                # parents in the order of the coefficient list
                ps = [self.index[p] for p in nd["parents"]]
                zl = "[" + "; ".join(f"({c})%Z" for c in cs) + "]"
                fun = {"affine": f"(NAffine ({c0})%Z {zl})", "sum": f"(NSum ({c0})%Z {zl})", "log2": "NLog2"}[kind]
                # the model wants parents as a list; keep coefficient order, the check of WF does not need sortedness
            else:
                ps, fun = [], "NLog2"
            impl_parents = sorted(self.index[p] for p in self.dag.direct_ancestors[name])
            if sorted(ps) != impl_parents:
                raise AssertionError(f"parents of {name}: harness {ps} vs implementation {impl_parents}")
            anc = [self.index[a] for a in self.dag.sorted_ancestors[name]]
            desc = [self.index[c] for c in self.dag.sorted_children[name]]
            lst = lambda l: "[" + "; ".join(str(x) for x in l) + "]"
            out.append(f"mkN {'true' if linked else 'false'} {'true' if nd['kind'] in ('pop', 'ind') else 'false'} {hyper} "
                       f"{'true' if self.axis(name) else 'false'} {lst(ps)} {lst(anc)} {lst(desc)} {fun}")
        return "[" + ";\n    ".join(out) + "]"


def gen_graph(rng, n_nodes=None, n_ind=None, dtype=None, with_log=False):
    """Random toy DAG: 2-9 nodes; hyper-parameters, population scalars, per-individual vectors, affine / aggregating
    (/ log2) derived nodes with distinct non-zero coefficients; several roots, late roots (random names decide the
    topological order), diamonds (parents drawn among all earlier nodes)."""
    n_nodes = n_nodes or rng.randint(2, 9)
    n_ind = n_ind or rng.choice([1, 2, 2, 3, 3, 4])
    dtype = dtype or rng.choice(["int64", "float64"])
    if with_log:
        dtype = "float64"
    names = rng.sample(NAME_POOL, n_nodes)
    n_indep = rng.randint(1, max(1, min(4, n_nodes - 1)))
    nodes = []
    coefs = [c for c in range(-5, 8) if c not in (0,)]
    for j in range(n_indep):
        kind = rng.choice(["hyper", "pop", "ind", "ind", "pop"]) if j else rng.choice(["pop", "ind", "ind"])
        nd = dict(name=names[j], kind=kind, parents=[])
        if kind == "hyper":
            nd["value"] = rng.randint(-4, 6)
        nodes.append(nd)
    for j in range(n_indep, n_nodes):
        k = rng.randint(1, min(3, len(nodes)))
        # prefer recent nodes sometimes to get chains, any node otherwise (diamonds)
        pool = nodes[-3:] if rng.random() < 0.4 else nodes
        ps = rng.sample([nd["name"] for nd in pool], min(k, len(pool)))
        r = rng.random()
        axis_par = None
        if with_log and r < 0.3:
            tmp = ToyGraph(nodes, n_ind, dtype)
            cands = [nd["name"] for nd in nodes if tmp.axis(nd["name"])]
            if cands:
                axis_par = rng.choice(cands)
        if axis_par is not None:
            nd = dict(name=names[j], kind="linked", parents=[axis_par], fun=["log2", 0, []])
        else:
            cs = rng.sample(coefs, len(ps))
            nd = dict(name=names[j], kind="linked", parents=ps, fun=["sum" if r > 0.8 else "affine", rng.randint(-3, 3), cs])
        nodes.append(nd)
    # no node may be left alone (leaspy refuses it): give childless independent nodes a child
    used = {p for nd in nodes for p in nd["parents"]}
    linked = [nd for nd in nodes if nd["kind"] == "linked"]
    for nd in nodes:
        if nd["kind"] != "linked" and nd["name"] not in used:
            tgt = rng.choice([l for l in linked if l["fun"][0] != "log2"] or [None])
            if tgt is None:
                # all derived nodes are log2: add the node to nobody -> replace the last node's function
                tgt = linked[-1]
                tgt["fun"] = ["affine", 1, [2] * len(tgt["parents"])]
            free = [c for c in coefs if c not in tgt["fun"][2]]
            tgt["parents"].append(nd["name"])
            tgt["fun"][2].append(rng.choice(free))
    return ToyGraph(nodes, n_ind, dtype)


DIAMOND = ToyGraph([
    dict(name="a", kind="ind", parents=[]),
    dict(name="b", kind="linked", parents=["a"], fun=["affine", 1, [2]]),
    dict(name="c", kind="linked", parents=["a"], fun=["affine", -1, [3]]),
    dict(name="d", kind="linked", parents=["b", "c"], fun=["sum", 0, [5, 7]]),
], 2, "int64")

# the graph of finding F1:  c = a + b
F1_GRAPH = ToyGraph([
    dict(name="a", kind="pop", parents=[]),
    dict(name="b", kind="pop", parents=[]),
    dict(name="c", kind="linked", parents=["a", "b"], fun=["affine", 0, [1, 1]]),
], 1, "int64")
F1_OPS = [["mode", 0, "REF"], ["set", 0, "a", 1], ["set", 0, "b", 10], ["get", 0, "c"], ["set", 0, "a", 2],
          ["mode", 0, None], ["set", 0, "b", 20], ["revert", 0], ["get", 0, "c"]]

# a per-individual revert whose discarded side is not finite (finding F2 of C02):  y = log2 x
F2_GRAPH = ToyGraph([
    dict(name="x", kind="ind", parents=[]),
    dict(name="y", kind="linked", parents=["x"], fun=["log2", 0, []]),
], 2, "float64")
F2_OPS = [["mode", 0, "REF"], ["set", 0, "x", [1, 2]], ["get", 0, "y"], ["put", 0, "x", None, [-2, 2], True], ["get", 0, "y"],
          ["revmask", 0, [True, False]], ["get", 0, "y"]]


# ----------------------------------------------------------------------------- which __setitem__ is under test


def detect_setitem_variant():
    """Which fork rule does `State.__setitem__` of the tree under test have?

    Returns `(fx, detail)`: `fx = True`  — an assignment made while `auto_fork_type is None` forgets `_last_fork`
                                           (the code since 27ac519; model flag fx = true),
                            `fx = False` — it leaves `_last_fork` alone (the code before; finding F1; fx = false),
                            `fx = None`  — not recognised (fail closed: the caller must report a broken translation).
    Two independent views that have to agree:
      (a) the source: the body of `__setitem__` contains exactly one statement `if self.auto_fork_type is not None:` whose
          branch is the single assignment `self._last_fork = self.auto_fork_type.to_cache({...})`, whose `else` is either
          absent or the single statement `self._last_fork = None`, and `_last_fork` is assigned nowhere else in the method;
      (b) a probe on a real State (c = a + b): fork REF; a=1; auto_fork_type=None; b=2 (through `__setitem__`, and
          again through `put`) — is `_last_fork` None afterwards?"""
    import ast
    import inspect
    import textwrap

    import torch
    from leaspy.variables.state import State, StateForkType
    detail = dict(source=None, probe_setitem=None, probe_put=None, file=inspect.getsourcefile(State))
    # (a) source shape
    src = None
    try:
        fn = ast.parse(textwrap.dedent(inspect.getsource(State.__setitem__))).body[0]
        is_fork_attr = lambda t: isinstance(t, ast.Attribute) and t.attr == "_last_fork"
        all_assigns = [n for n in ast.walk(fn) if isinstance(n, (ast.Assign, ast.AugAssign, ast.AnnAssign, ast.Delete))
                       and any(is_fork_attr(t) for t in (n.targets if hasattr(n, "targets") else [n.target]))]
        ifs = [n for n in fn.body if isinstance(n, ast.If) and ast.unparse(n.test) == "self.auto_fork_type is not None"]
        if len(ifs) == 1:
            node = ifs[0]
            body_ok = (len(node.body) == 1 and isinstance(node.body[0], ast.Assign)
                       and ast.unparse(node.body[0].targets[0]) == "self._last_fork"
                       and ast.unparse(node.body[0].value).startswith("self.auto_fork_type.to_cache("))
            if body_ok and not node.orelse and len(all_assigns) == 1:
                src = False
            elif (body_ok and len(node.orelse) == 1 and isinstance(node.orelse[0], ast.Assign)
                  and ast.unparse(node.orelse[0]) == "self._last_fork = None" and len(all_assigns) == 2):
                src = True
        detail["source"] = src
        detail["source_if"] = ast.unparse(ifs[0]) if len(ifs) == 1 else f"{len(ifs)} matching if statements"
    except Exception as e:  # noqa
        detail["source_error"] = f"{type(e).__name__}: {e}"
    # (b) behaviour
    try:
        G = ToyGraph.from_json(F1_GRAPH.to_json())
        G.build()
        for key, how in (("probe_setitem", "set"), ("probe_put", "put")):
            st = State(G.dag)
            st.auto_fork_type = StateForkType.REF
            st["b"] = torch.tensor(10)
            st["a"] = torch.tensor(1)
            pending = st._last_fork is not None
            st.auto_fork_type = None
            if how == "set":
                st["b"] = torch.tensor(2)
            else:
                st.put("b", torch.tensor(2), accumulate=True)
            detail[key] = (st._last_fork is None) if pending else None
    except Exception as e:  # noqa
        detail["probe_error"] = f"{type(e).__name__}: {e}"
    views = (detail["source"], detail["probe_setitem"], detail["probe_put"])
    fx = views[0] if (views[0] is not None and views[0] == views[1] == views[2]) else None
    detail["fx"] = fx
    return fx, detail


def detect_revert_mix_variant():
    """Which rule does the per-individual `State.revert(subset)` of the tree under test use to combine the forked and the
    current value?

    Returns `(mix, detail)`: `"where"` — entry-wise selection `torch.where(mask, old, cur)` (since fe0cadd; Coq: xsem_where),
                             `"blend"` — `old * mask + cur * ~mask` (before; NaN/inf on the discarded side leak; Coq: xsem),
                             `None`    — not recognised (fail closed).
    Two independent views that have to agree:
      (a) the source of `State.revert`: either it multiplies by `to_revert` / `to_keep` and never selects, or it never does
          and calls `torch.where` (directly or through the module-level helper `_select`, whose body must itself call
          `torch.where` on the values and multiply nothing);
      (b) probes on a real State: y = log2 x, x = [1,2] -> [-1,4], individual 0 rejected (cached y[0]: 0 or NaN), and
          c = 2*x, x = [1,2] -> [inf,3], individual 0 rejected (cached c[0]: 2 or NaN)."""
    import ast
    import inspect
    import math
    import textwrap

    import torch
    from leaspy.variables import state as state_mod
    from leaspy.variables.state import State, StateForkType
    detail = dict(source=None, probe_log=None, probe_inf=None)
    try:
        fn = ast.parse(textwrap.dedent(inspect.getsource(State.revert))).body[0]

        def marks(node):
            mult = [n for n in ast.walk(node) if isinstance(n, ast.BinOp) and isinstance(n.op, ast.Mult)]
            blend = [ast.unparse(n) for n in mult if any(w in ast.unparse(n) for w in ("to_revert", "to_keep", "mask"))]
            calls = [ast.unparse(n.func) for n in ast.walk(node) if isinstance(n, ast.Call)]
            return blend, mult, calls
        blend, _, calls = marks(fn)
        selects = [c for c in calls if c in ("torch.where", "_select")]
        src = None
        if blend and not selects:
            src = "blend"
        elif selects and not blend:
            ok = True
            if "_select" in selects:
                helper = getattr(state_mod, "_select", None)
                if helper is None:
                    ok = False
                else:
                    hfn = ast.parse(textwrap.dedent(inspect.getsource(helper))).body[0]
                    _, hmult, hcalls = marks(hfn)
                    ok = ("torch.where" in hcalls) and not hmult
            src = "where" if ok else None
        detail["source"] = src
        detail["source_marks"] = dict(multiplications_by_mask=blend[:4], selection_calls=selects)
    except Exception as e:  # noqa
        detail["source_error"] = f"{type(e).__name__}: {e}"
    try:
        G = ToyGraph.from_json(F2_GRAPH.to_json())
        G.build()
        st = State(G.dag)
        st.auto_fork_type = StateForkType.REF
        st["x"] = G.tensor([1, 2])
        st["y"]
        st.put("x", G.tensor([-2, 2]), accumulate=True)
        st["y"]
        st.revert(torch.tensor([True, False]))
        y0, y1 = st._values["y"].tolist()
        detail["probe_log"] = "where" if (y0 == 0.0 and y1 == 2.0) else "blend" if (math.isnan(y0) and y1 == 2.0) else None
        detail["probe_log_value"] = [atom_json(y0), atom_json(y1)]
        G2 = ToyGraph([dict(name="x", kind="ind", parents=[]),
                       dict(name="c", kind="linked", parents=["x"], fun=["affine", 0, [2]])], 2, "float64")
        G2.build()
        st = State(G2.dag)
        st.auto_fork_type = StateForkType.COPY
        st["x"] = G2.tensor([1, 2])
        st["c"]
        st["x"] = G2.tensor(["inf", 3])
        st["c"]
        st.revert(torch.tensor([True, False]))
        c0, c1 = st._values["c"].tolist()
        detail["probe_inf"] = "where" if (c0 == 2.0 and c1 == 6.0) else "blend" if (math.isnan(c0) and c1 == 6.0) else None
        detail["probe_inf_value"] = [atom_json(c0), atom_json(c1)]
    except Exception as e:  # noqa
        detail["probe_error"] = f"{type(e).__name__}: {e}"
    views = (detail["source"], detail["probe_log"], detail["probe_inf"])
    mix = views[0] if (views[0] is not None and views[0] == views[1] == views[2]) else None
    detail["mix"] = mix
    return mix, detail


# ----------------------------------------------------------------------------- executing histories


def same_tensor(a, b):
    import torch
    if a is None or b is None:
        return a is None and b is None
    if hasattr(a, "weighted_value") or hasattr(b, "weighted_value"):
        if not (hasattr(a, "weighted_value") and hasattr(b, "weighted_value")):
            return False
        wa, wb = a.weight, b.weight
        if (wa is None) != (wb is None):
            return False
        if wa is not None and not same_tensor(wa, wb):
            return False
        a, b = a.value, b.value
    if a.dtype != b.dtype or a.shape != b.shape:
        return False
    if a.is_floating_point():
        # bit-for-bit up to the NaN payload; distinguishes -0.0 from 0.0 only through 1/x, which no node computes
        return bool(((a == b) | (a.isnan() & b.isnan())).all())
    return bool(torch.equal(a, b))


def probe_of(st):
    """A harness-made copy of a state (same DAG object, same tensors, own dictionaries): reading it does not disturb
    the state under test and does not go through State.clone / deepcopy."""
    from leaspy.variables.state import State
    p = State(st.dag, auto_fork_type=st.auto_fork_type)
    p._values = dict(st._values)
    p._last_fork = None if st._last_fork is None else dict(st._last_fork)
    return p


class Session:
    """Real states of one graph + bookkeeping.  `fx` says which model the discipline flags are computed for
    (True: the code since 27ac519, an un-forked assignment drops the pending fork; False: the code before, finding F1;
    `detect_setitem_variant()` tells which one the tree under test has)."""

    def __init__(self, G: ToyGraph, fx=False, oracle=True):
        from leaspy.variables.state import State
        if G.dag is None:
            G.build()
        self.G = G
        self.fx = fx
        self.oracle = oracle
        self.states = [State(G.dag)]
        self.taint = [set()]          # per state: 'unforked' (F1 precondition met), 'mask' (misuse of partial revert)
        self.records = []             # (op, out, ok_flag)
        self.mismatches = []          # oracle failures: dict(step, state, node, expected, observed, taint)
        # histories of the F1 shape, measured on the real state whatever the variant: per state, "an assignment was made
        # with auto-fork off while a fork was pending and no forked assignment / clear happened since"
        self.nonfinite_masks = 0      # partial reverts applied while a doubly cached forked entry was inf / NaN
        self.after_unforked = [False]
        self.f1_events = []           # dict(kind: unforked-set-over-pending-fork | revert-after | read-after-revert, step, state, out)
        self._reverted_after = [False]

    # -- discipline of an operation, evaluated on the real state before it runs
    def op_ok(self, op):
        kind, k = op[0], op[1]
        if k >= len(self.states):
            return True
        st = self.states[k]
        G = self.G
        if kind in ("set", "put"):
            name = op[2]
            if name not in G.by_name or G.by_name[name]["kind"] not in ("pop", "ind"):
                return True
            return bool(self.fx or st.auto_fork_type is not None or st._last_fork is None)
        if kind == "revmask":
            if st._last_fork is None:
                return True
            return all(G.axis(c) for c, old in st._last_fork.items() if old is not None and st._values[c] is not None)
        return True

    def execute(self, op):
        """Run one operation on the real state; returns the canonical outcome."""
        import torch
        from leaspy.exceptions import LeaspyInputError
        from leaspy.variables.state import StateForkType
        kind, k = op[0], op[1]
        if k >= len(self.states):
            return ("err", "crash")
        st = self.states[k]
        G = self.G
        try:
            if kind == "get":
                return ("ok", val_json(st[op[2]]))
            if kind == "isset":
                return ("okb", bool(st.is_variable_set(op[2])))
            if kind == "set":
                st[op[2]] = None if op[3] is None else G.tensor(op[3])
                return ("done",)
            if kind == "put":
                _, _, name, idx, v, acc = op
                st.put(name, G.tensor(v), indices=() if idx is None else (idx,), accumulate=bool(acc))
                return ("done",)
            if kind == "revert":
                st.revert()
                return ("done",)
            if kind == "revmask":
                st.revert(torch.tensor(op[2], dtype=torch.bool))
                return ("done",)
            if kind == "clone":
                self.states.append(st.clone(disable_auto_fork=bool(op[2]), keep_last_fork=bool(op[3])))
                self.taint.append(set(self.taint[k]))
                self.after_unforked.append(self.after_unforked[k])
                self._reverted_after.append(self._reverted_after[k])
                return ("done",)
            if kind == "mode":
                st.auto_fork_type = None if op[2] is None else StateForkType[op[2]]
                return ("done",)
            if kind == "precompute":
                st.precompute_all()
                return ("done",)
            if kind == "clear":
                st.clear()
                self.taint[k] = set()
                return ("done",)
            raise ValueError(f"unknown op {op}")
        except LeaspyInputError:
            return ("err", "input")
        except Exception:  # noqa: any other exception class
            return ("err", "crash")

    def apply(self, op):
        ok = self.op_ok(op)
        k = op[1]
        n_before = len(self.states)
        if not ok and k < len(self.states):
            self.taint[k].add("unforked" if op[0] in ("set", "put") else "mask")
        if k < n_before and op[0] == "revmask" and self.states[k]._last_fork is not None:
            # a per-individual revert applied while a doubly cached entry of the fork is not finite: where the blend
            # old*mask + cur*~mask (before fe0cadd) and the selection differ
            stk = self.states[k]
            for c, old in stk._last_fork.items():
                cur = stk._values[c]
                if old is not None and cur is not None and not (bool(old.isfinite().all()) and bool(cur.isfinite().all())):
                    self.taint[k].add("nonfinite-mask")
                    self.nonfinite_masks += 1
                    break
        over_pending = forked = False
        if k < n_before and op[0] in ("set", "put"):
            st = self.states[k]
            over_pending = st.auto_fork_type is None and st._last_fork is not None
            forked = st.auto_fork_type is not None
        out = self.execute(op)
        self.records.append((op, out, ok))
        if k < n_before:
            step = len(self.records) - 1
            if op[0] in ("set", "put") and out == ("done",):
                if over_pending:
                    self.after_unforked[k] = True
                    self._reverted_after[k] = False
                    self.f1_events.append(dict(kind="unforked-set-over-pending-fork", step=step, state=k, out=list(out)))
                elif forked:
                    self.after_unforked[k] = self._reverted_after[k] = False
            elif op[0] in ("revert", "revmask") and self.after_unforked[k]:
                self._reverted_after[k] = True
                self.f1_events.append(dict(kind="revert-after", step=step, state=k, out=list(out)))
            elif op[0] == "get" and self._reverted_after[k]:
                self.f1_events.append(dict(kind="read-after-revert", step=step, state=k, out=[out[0]]))
            elif op[0] == "clear":
                self.after_unforked[k] = self._reverted_after[k] = False
        if self.oracle:
            touched = [k] if k < n_before else []
            if len(self.states) > n_before:
                touched.append(len(self.states) - 1)
            for j in touched:
                self.check_fresh(j, len(self.records) - 1)
        return out

    # -- the oracle: every read of (a deep copy of) the state equals the read of a fresh state holding the same
    #    independent values, bit for bit
    def read(self, st, name):
        from leaspy.exceptions import LeaspyInputError
        try:
            return ("ok", st[name])
        except LeaspyInputError:
            return ("err", "input")
        except Exception as e:  # noqa
            return ("err", "crash:" + type(e).__name__)

    def fresh_like(self, st):
        from leaspy.variables.state import State
        fresh = State(self.G.dag)
        for name in self.G.settable():
            v = st._values[name]
            if v is not None:
                fresh[name] = v
        return fresh

    def check_fresh(self, j, step):
        st = self.states[j]
        fresh = self.fresh_like(st)
        probe = probe_of(st)
        for name in self.G.order:
            a = self.read(probe, name)
            b = self.read(fresh, name)
            same = (a[0] == b[0]) and (same_tensor(a[1], b[1]) if a[0] == "ok" else a[1] == b[1])
            if not same:
                self.mismatches.append(dict(step=step, state=j, node=name, taint=sorted(self.taint[j]),
                                            expected=val_json(b[1]) if b[0] == "ok" else b[1],
                                            observed=val_json(a[1]) if a[0] == "ok" else a[1]))
                return

    # -- Coq literal of the recorded history
    def op_coq(self, op):
        G = self.G
        kind, k = op[0], op[1]
        b = lambda x: "true" if x else "false"
        if kind == "get":
            return f"Get {k} {G.ix(op[2])}"
        if kind == "isset":
            return f"IsSet {k} {G.ix(op[2])}"
        if kind == "set":
            return f"Set_ {k} {G.ix(op[2])} {'None' if op[3] is None else '(Some ' + val_coq(op[3]) + ')'}"
        if kind == "put":
            return f"Put {k} {G.ix(op[2])} {'None' if op[3] is None else '(Some ' + str(op[3]) + ')'} {val_coq(op[4])} {b(op[5])}"
        if kind == "revert":
            return f"Revert {k}"
        if kind == "revmask":
            return f"RevertMask {k} [{'; '.join(b(x) for x in op[2])}]"
        if kind == "clone":
            return f"Clone {k} {b(op[2])} {b(op[3])}"
        if kind == "mode":
            return f"SetMode {k} {'None' if op[2] is None else '(Some ' + op[2] + ')'}"
        if kind == "precompute":
            return f"Precompute {k}"
        if kind == "clear":
            return f"Clear {k}"
        raise ValueError(op)

    def coq_case(self):
        h = ";\n    ".join(f"({self.op_coq(op)}, {out_coq(out)}, {'true' if ok else 'false'})" for op, out, ok in self.records)
        return f"({self.G.coq()},\n   [{h}])"


def run_ops(G, ops, fx=False, oracle=True):
    s = Session(G, fx=fx, oracle=oracle)
    for op in ops:
        s.apply(op)
    return s


# ----------------------------------------------------------------------------- history grammar


def rand_value(rng, G, name, small=False):
    """small integers; on float64 graphs that ask for it (`G.nonfinite`), now and then +-inf (sums, products by the non-zero
    coefficients and differences of those stay in the exact vocabulary: finite integers, +-inf, NaN)"""
    lo, hi = (-3, 3) if small else (-9, 9)
    nf = getattr(G, "nonfinite", False) and G.dtype == "float64"

    def one():
        if nf and rng.random() < 0.12:
            return rng.choice(["inf", "-inf", "inf"])
        return rng.randint(lo, hi)
    if G.by_name.get(name, {}).get("kind") == "ind":
        return [one() for _ in range(G.n_ind)]
    return one() if (nf and rng.random() < 0.3) else rng.randint(lo, hi)


def gen_history(rng, G, malformed=False, length=None, max_states=3, fx=False):
    """Generate (and execute) one history against live states.  Returns the Session.  `fx`: see Session."""
    s = Session(G, fx=fx)
    length = length or rng.randint(1, 40)
    sett = G.settable()
    names = list(G.order)
    non_sett = [n for n in names if n not in sett]

    def pick_state():
        return rng.randrange(len(s.states))

    def fork_pending(k):
        return s.states[k]._last_fork is not None

    if rng.random() < (0.5 if malformed else 0.8):
        s.apply(["mode", 0, rng.choice(["REF", "REF", "COPY", None])])
    p_init = 0.4 if malformed else 0.92
    for n in sett:
        if rng.random() < p_init:
            s.apply(["set", 0, n, rand_value(rng, G, n)])
    while len(s.records) < length:
        k = pick_state()
        st = s.states[k]
        r = rng.random()
        if malformed and r < 0.22:
            c = rng.randrange(8)
            if c == 0:
                s.apply(["get", k, UNKNOWN])
            elif c == 1 and non_sett:
                n = rng.choice(non_sett)
                s.apply(["set", k, n, rand_value(rng, G, n)])
            elif c == 2:
                s.apply(["set", k, UNKNOWN, 1])
            elif c == 3:
                s.apply(["revert", k])
            elif c == 4 and sett:
                n = rng.choice(sett)
                s.apply(["put", k, n, rng.choice([G.n_ind, G.n_ind + 2, 0]), rng.randint(-3, 3), rng.random() < 0.5])
            elif c == 5 and names:
                n = rng.choice(names)
                s.apply(["put", k, n, None, rand_value(rng, G, n, True), True])
            elif c == 6:
                s.apply(["isset", k, UNKNOWN])
            elif c == 7 and sett:
                s.apply(["revmask", k, [rng.random() < 0.5 for _ in range(G.n_ind)]])
            continue
        if r < 0.30:
            s.apply(["get", k, rng.choice(names)])
        elif r < 0.48 and sett:
            # sampler-shaped step: proposal, reads, decision
            n = rng.choice(sett)
            ind = G.by_name[n]["kind"] == "ind"
            if st._values[n] is None:
                s.apply(["set", k, n, rand_value(rng, G, n)])
                continue
            if ind and rng.random() < 0.3:
                s.apply(["put", k, n, rng.randrange(G.n_ind), rng.randint(-3, 3), rng.random() < 0.8])
            else:
                s.apply(["put", k, n, None, rand_value(rng, G, n, True), True])
            readable = [m for m in names if G.axis(m)] if (ind and rng.random() < 0.85) else names
            for _ in range(rng.randint(0, 3)):
                if readable:
                    s.apply(["get", k, rng.choice(readable)])
            d = rng.random()
            if fork_pending(k):
                if d < 0.35:
                    s.apply(["revert", k])
                elif d < 0.75 and ind:
                    s.apply(["revmask", k, [rng.random() < 0.5 for _ in range(G.n_ind)]])
        elif r < 0.58 and sett:
            n = rng.choice(sett)
            s.apply(["set", k, n, None if rng.random() < 0.06 else rand_value(rng, G, n)])
        elif r < 0.64 and sett:
            n = rng.choice(sett)
            if G.by_name[n]["kind"] == "ind" and rng.random() < 0.5:
                s.apply(["put", k, n, rng.randrange(G.n_ind), rng.randint(-3, 3), rng.random() < 0.5])
            else:
                s.apply(["put", k, n, None, rand_value(rng, G, n, True), rng.random() < 0.6])
        elif r < 0.70:
            s.apply(["revert", k]) if (fork_pending(k) or rng.random() < 0.1) else s.apply(["get", k, rng.choice(names)])
        elif r < 0.74:
            if fork_pending(k):
                s.apply(["revmask", k, [rng.random() < 0.5 for _ in range(G.n_ind)]])
            else:
                s.apply(["isset", k, rng.choice(names)])
        elif r < 0.80:
            if len(s.states) < max_states:
                s.apply(["clone", k, rng.random() < 0.3, rng.random() < 0.4])
            else:
                s.apply(["get", k, rng.choice(names)])
        elif r < 0.86:
            s.apply(["mode", k, rng.choice(["REF", "COPY", None, "REF"])])
        elif r < 0.90:
            s.apply(["precompute", k])
        elif r < 0.935 and sett and fork_pending(k):
            # the shape of finding F1: auto-fork switched off while a fork is pending, an assignment, then a revert
            # (refused with "no fork to revert from" since 27ac519; restored a stale undo log before) and reads
            s.apply(["mode", k, None])
            n = rng.choice(sett)
            if st._values[n] is None or rng.random() < 0.5:
                s.apply(["set", k, n, rand_value(rng, G, n)])
            elif G.by_name[n]["kind"] == "ind" and rng.random() < 0.4:
                s.apply(["put", k, n, rng.randrange(G.n_ind), rng.randint(-3, 3), rng.random() < 0.7])
            else:
                s.apply(["put", k, n, None, rand_value(rng, G, n, True), True])
            for _ in range(rng.randint(0, 2)):
                s.apply(["get", k, rng.choice(names)])
            if G.by_name[n]["kind"] == "ind" and rng.random() < 0.35:
                s.apply(["revmask", k, [rng.random() < 0.5 for _ in range(G.n_ind)]])
            else:
                s.apply(["revert", k])
            for _ in range(rng.randint(1, 2)):
                s.apply(["get", k, rng.choice(names)])
            if rng.random() < 0.7:
                s.apply(["mode", k, rng.choice(["REF", "COPY"])])
        elif r < 0.985:
            s.apply(["isset", k, rng.choice(names)])
        else:
            s.apply(["clear", k])
    # final sweep: the cache contents themselves (is_variable_set on every node of every state)
    for k in range(len(s.states)):
        for n in names:
            s.apply(["isset", k, n])
    return s


def nontrivial(ops):
    """a read after a second assignment to the same state, a revert or a clone"""
    sets = {}
    seen = False
    for op in ops:
        if op[0] in ("set", "put"):
            sets[op[1]] = sets.get(op[1], 0) + 1
        if op[0] in ("revert", "revmask", "clone"):
            seen = True
        if op[0] == "get" and (seen or sets.get(op[1], 0) >= 2):
            return True
    return False


def shrink(G, ops, still_fails, max_rounds=6):
    """Delete operations one at a time while `still_fails(ops)` holds."""
    ops = list(ops)
    for _ in range(max_rounds):
        changed = False
        i = len(ops) - 1
        while i >= 0:
            cand = ops[:i] + ops[i + 1:]
            try:
                if cand and still_fails(cand):
                    ops = cand
                    changed = True
            except Exception:  # noqa
                pass
            i -= 1
        if not changed:
            break
    return ops
