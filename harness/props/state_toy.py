"""Toy variable graphs and operation histories on the real `State` (shared by C01 and C02).

* `ToyGraph`     random DAG described in plain data, built as real `LinkedVariable`/`DataVariable`/`Hyperparameter`
                 objects on int64/float64 tensors; its Coq literal (`list nspec`) uses the ancestors/children the
                 implementation's own `VariablesDAG` reports.
* `Session`      executes operations on real `State` objects, canonicalises what happened (value / error class),
                 evaluates the discipline of the operation on the real state (white box: `_last_fork`, `_values`,
                 `auto_fork_type`) and runs the from-scratch oracle after every operation.
* `gen_history`  grammar of histories (valid stream / malformed stream), generated against the live session.

Scoped fork-mode switches: the operation `["scoped", k, mode, body]` is executed as `with states[k].auto_fork(mode): body`
through the REAL context manager `State.auto_fork`; the first operation of the body that raises lets its (real) exception
leave the block and every enclosing block, and the exception is caught by `Session.apply` at top level.  `["look", k]`
records `auto_fork_type` / `_last_fork`; the same is recorded just inside and just after every block.  `Session.events`
holds one entry per primitive event in execution order (the trace the Coq model of State/StateScoped.v produces).
"""
from __future__ import annotations

import copy
import math

INF = float("inf")
UNKNOWN = "zz_not_a_variable"
NAME_POOL = ["a", "b", "c", "d", "e", "k", "m", "p", "q", "r", "t", "u", "w", "x", "y", "z", "aa", "mm", "zz", "b2", "x_1", "A", "Q"]


# ----------------------------------------------------------------------------- values


def atom_json(x):
    """python number -> JSON-able exact atom"""
    if isinstance(x, bool):
        return int(x)
    if isinstance(x, int):
        return x
    if math.isnan(x):
        return "nan"
    if x == INF:
        return "inf"
    if x == -INF:
        return "-inf"
    if float(x).is_integer():
        return int(x)
    return ["off", repr(x)]


def atom_py(a):
    if a == "nan":
        return float("nan")
    if a == "inf":
        return INF
    if a == "-inf":
        return -INF
    return a


def atom_coq(a):
    if a == "nan":
        return "ANaN"
    if a == "inf":
        return "APInf"
    if a == "-inf":
        return "ANInf"
    if isinstance(a, list):
        return "AOff"
    return f"(AFin ({int(a)})%Z)"


def val_json(t):
    """tensor -> exact JSON value (scalar atom, or list of atoms); a 1-d WeightedTensor with boolean weights ->
    {"wv": [atoms of .value], "ww": [0/1 of .weight]} (value AND weight, entry by entry).  Anything else (n-d tensors, weighted values
    with another kind of weight) is a dict WITHOUT "wv" — `XBad` for the 1-d Coq instances — that carries the nested exact value for the
    n-d instance (State/StateNdExec.v): {"shape", "nt"} for a tensor, {"shape", "weighted", "weight", "nv", "nw"} for a WeightedTensor"""
    if t is None:
        return None
    if hasattr(t, "weighted_value"):
        import torch
        v, w = t.value, t.weight
        if w is None or v.ndim != 1 or w.dtype != torch.bool or w.shape != v.shape:
            return {"shape": list(v.shape), "weighted": True, "weight": None if w is None else str(w.dtype),
                    "nv": nest_json(v.tolist()), "nw": None if w is None else nest_json(w.tolist())}
        return {"wv": [atom_json(x) for x in v.tolist()], "ww": [int(bool(x)) for x in w.tolist()]}
    if t.ndim == 0:
        return atom_json(t.item())
    if t.ndim == 1:
        return [atom_json(x) for x in t.tolist()]
    return {"shape": list(t.shape), "nt": nest_json(t.tolist())}


def val_coq_n(v):
    """Coq literal (`nval` of State/StateNdExec.v) of a JSON value in any of the forms of `val_json`, or a nested list of atoms"""
    if isinstance(v, dict):
        if "wv" in v:
            return f"(NW {tens_coq(v['wv'])} (Some {tens_coq(v['ww'])}))"
        if "nt" in v:
            return f"(NP {tens_coq(v['nt'])})"
        if "nv" in v:
            return f"(NW {tens_coq(v['nv'])} {'None' if v.get('nw') is None else '(Some ' + tens_coq(v['nw']) + ')'})"
        return "NBad"
    return f"(NP {tens_coq(v)})"


def is_weighted_json(v):
    return isinstance(v, dict) and "wv" in v


def val_coq(v, W=False):
    """Coq literal of a JSON value: an `xval` (StateExec.v), or with W a `wval` (StateWExec.v: plain values wrapped in WPlain,
    weighted values as `WWt values weights`)"""
    if W == "n":
        return val_coq_n(v)
    if W:
        if is_weighted_json(v):
            return ("(WWt [" + "; ".join(atom_coq(a) for a in v["wv"]) + "] ["
                    + "; ".join("true" if b else "false" for b in v["ww"]) + "])")
        return f"(WPlain {val_coq(v)})"
    if isinstance(v, dict):
        return "XBad"
    if isinstance(v, list) and any(isinstance(a, list) and not is_off(a) for a in v):
        return "XBad"                    # a nested (n-d) value: outside the 1-d vocabulary
    if isinstance(v, list) and not (len(v) == 2 and v[0] == "off"):
        return "(XP [" + "; ".join(atom_coq(a) for a in v) + "])"
    return f"(XS {atom_coq(v)})"


def is_vec(v):
    return isinstance(v, list) and not (len(v) == 2 and v[0] == "off")


def out_coq(o, W=False):
    if o[0] == "ok":
        return f"(Ok {val_coq(o[1], W)})"
    if o[0] == "okb":
        return f"(OkB {'true' if o[1] else 'false'})"
    if o[0] == "done":
        return "Done"
    return "(Err InputError)" if o[1] == "input" else "(Err Crash)"


# ----------------------------------------------------------------------------- graphs


class ToyGraph:
    """nodes: list of dicts  {name, kind: hyper|pop|ind|linked, value (hyper), parents [names], fun: (affine|sum|log2, c0, [cs])}

    Weighted vocabulary (one parent each; `W` = a parent that is a WeightedTensor):
      ["wthr", c0, [c], thr]   WeightedTensor(c0 + c*x, weight=(x >= thr))    the weight is COMPUTED from the parent
      ["wmap", c0, [c]]        WeightedTensor(c0 + c*W.value, W.weight)
      ["wval", c0, [c]]        c0 + c * W.weighted_value                       per individual, uses the weight
      ["wwgt", c0, [c]]        c0 + c * W.weight.to(W.value.dtype)             per individual, the weight itself
      ["wsum", c0, [c]]        c0 + c * W.weighted_value.sum()                 aggregate that uses the weight
      ["wcnt", c0, [c]]        c0 + c * W.weight.sum()                         aggregate of the weight"""

    W_FUNS = ("wthr", "wmap", "wval", "wwgt", "wsum", "wcnt", "wadd")

    def __init__(self, nodes, n_ind, dtype="int64", trail=()):
        self.nodes = nodes
        self.n_ind = n_ind
        self.dtype = dtype
        # trailing shape of every per-individual variable: () -> 1-d values (Coq: StateExec.v / StateWExec.v); (v,), (v, f), (1,) ->
        # values of shape (n_ind, v), (n_ind, v, f), (n_ind, 1) (Coq: the n-d instance State/StateNdExec.v)
        self.trail = tuple(trail)
        self.by_name = {nd["name"]: nd for nd in nodes}
        self.dag = None

    def to_json(self):
        d = dict(nodes=self.nodes, n_ind=self.n_ind, dtype=self.dtype)
        if self.trail:
            d["trail"] = list(self.trail)
        if getattr(self, "force_nd", False):
            d["force_nd"] = True
        return d

    @staticmethod
    def from_json(d):
        G = ToyGraph(d["nodes"], d["n_ind"], d.get("dtype", "int64"), d.get("trail", ()))
        if d.get("force_nd"):
            G.force_nd = True
        return G

    @property
    def nd(self):
        """is the graph compared through the n-d Coq instance (State/StateNdExec.v): values with a trailing shape, the two-parent
        weighted function `wadd`, or a 1-d graph sent there on purpose (`force_nd`: the vocabulary for which F_mix is PROVED there)"""
        return bool(self.trail) or getattr(self, "force_nd", False) or any(
            nd["kind"] == "linked" and nd["fun"][0] == "wadd" for nd in self.nodes)

    @property
    def inst(self):
        """selector of the Coq instance for `val_coq` / `out_coq`: "n" (nval), True (wval), False (xval)"""
        return "n" if self.nd else self.weighted

    def tensor(self, v, dtype=None):
        import torch
        dt = {"int64": torch.int64, "float64": torch.float64, "float32": torch.float32}[dtype or self.dtype]
        if isinstance(v, list):
            return torch.tensor(nest_py(v), dtype=dt)
        return torch.tensor(atom_py(v), dtype=dt)

    def axis(self, name):
        nd = self.by_name[name]
        if nd["kind"] == "ind":
            return True
        if nd["kind"] != "linked" or nd["fun"][0] in ("sum", "wsum", "wcnt"):
            return False
        return any(self.axis(p) for p in nd["parents"])

    @property
    def weighted(self):
        """does the graph use the weighted vocabulary (Coq instance: State/StateWExec.v instead of State/StateExec.v)"""
        return any(nd["kind"] == "linked" and nd["fun"][0] in self.W_FUNS for nd in self.nodes)

    def weighted_node(self, name):
        nd = self.by_name[name]
        return nd["kind"] == "linked" and nd["fun"][0] in ("wthr", "wmap", "wadd")

    def build(self):
        """Real DAG; node order = the implementation's topological order."""
        import torch
        from leaspy.variables.dag import VariablesDAG
        from leaspy.variables.specs import DataVariable, Hyperparameter, LinkedVariable
        d = {}
        for nd in self.nodes:
            if nd["kind"] == "hyper":
                d[nd["name"]] = Hyperparameter(self.tensor(nd["value"]))
            elif nd["kind"] in ("pop", "ind"):
                d[nd["name"]] = DataVariable()
            else:
                kind, c0, cs = nd["fun"][:3]
                ps = nd["parents"]
                if kind == "wadd":
                    body = (f"WeightedTensor(({cs[0]}) * {ps[0]}.value + ({cs[1]}) * {ps[1]}.value, {ps[0]}.weight * {ps[1]}.weight)")
                elif kind in self.W_FUNS:
                    p, c = ps[0], cs[0]
                    body = {"wthr": f"WeightedTensor({c0} + ({c}) * {p}, weight=({p} >= {nd['fun'][3] if kind == 'wthr' else 0}))",
                            "wmap": f"WeightedTensor({c0} + ({c}) * {p}.value, {p}.weight)",
                            "wval": f"{c0} + ({c}) * {p}.weighted_value",
                            "wwgt": f"{c0} + ({c}) * {p}.weight.to({p}.value.dtype)",
                            "wsum": f"{c0} + ({c}) * {p}.weighted_value.sum()",
                            "wcnt": f"{c0} + ({c}) * {p}.weight.sum()"}[kind]
                elif kind == "affine":
                    body = " + ".join([str(c0)] + [f"({c}) * {p}" for c, p in zip(cs, ps)])
                elif kind == "sum":
                    body = " + ".join([str(c0)] + [f"({c}) * {p}.sum()" for c, p in zip(cs, ps)])
                elif kind == "log2":
                    body = f"torch.log2({ps[0]})"
                else:
                    raise ValueError(kind)
                ns = {}
                from leaspy.utils.weighted_tensor import WeightedTensor
                exec(f"def f(*, {', '.join(ps)}):\n    return {body}\n", {"torch": torch, "WeightedTensor": WeightedTensor}, ns)
                d[nd["name"]] = LinkedVariable(ns["f"])
        self.dag = VariablesDAG.from_dict(d)
        self.order = list(self.dag.sorted_variables_names)
        self.index = {n: i for i, n in enumerate(self.order)}
        return self.dag

    def ix(self, name):
        return self.index.get(name, len(self.order) + 3)

    def settable(self):
        return [n for n in self.order if self.by_name[n]["kind"] in ("pop", "ind")]

    def coq(self):
        """`list nspec` literal (`list wspec` of State/StateWExec.v when the graph uses the weighted vocabulary);
        ancestors / children are the ones the implementation computed."""
        if self.nd:
            return self.coq_nd()
        out = []
        W = self.weighted
        for name in self.order:
            nd = self.by_name[name]
            linked = nd["kind"] == "linked"
            hyper = f"(Some {val_coq(nd['value'], W)})" if nd["kind"] == "hyper" else "None"
            if linked:
                kind, c0, cs = nd["fun"][:3]
                # parents in the order of the coefficient list
                ps = [self.index[p] for p in nd["parents"]]
                zl = "[" + "; ".join(f"({c})%Z" for c in cs) + "]"
                if kind in self.W_FUNS:
                    con = {"wthr": "WThr", "wmap": "WMap", "wval": "WVal", "wwgt": "WWgt", "wsum": "WSum", "wcnt": "WCnt"}[kind]
                    fun = f"({con} ({c0})%Z ({cs[0]})%Z" + (f" ({nd['fun'][3]})%Z)" if kind == "wthr" else ")")
                else:
                    fun = {"affine": f"(NAffine ({c0})%Z {zl})", "sum": f"(NSum ({c0})%Z {zl})", "log2": "NLog2"}[kind]
                    if W:
                        fun = f"(WOld {fun})"
                # the model wants parents as a list; keep coefficient order, the check of WF does not need sortedness
            else:
                ps, fun = [], ("(WOld NLog2)" if W else "NLog2")
            impl_parents = sorted(self.index[p] for p in self.dag.direct_ancestors[name])
            if sorted(ps) != impl_parents:
                raise AssertionError(f"parents of {name}: harness {ps} vs implementation {impl_parents}")
            anc = [self.index[a] for a in self.dag.sorted_ancestors[name]]
            desc = [self.index[c] for c in self.dag.sorted_children[name]]
            lst = lambda l: "[" + "; ".join(str(x) for x in l) + "]"
            out.append(f"{'mkW' if W else 'mkN'} {'true' if linked else 'false'} {'true' if nd['kind'] in ('pop', 'ind') else 'false'} {hyper} "
                       f"{'true' if self.axis(name) else 'false'} {lst(ps)} {lst(anc)} {lst(desc)} {fun}")
        return "[" + ";\n    ".join(out) + "]"


    def coq_nd(self):
        """`list dspec` literal of State/StateNdExec.v (every function of the toy vocabulary, on values of any trailing shape)"""
        out = []
        lst = lambda l: "[" + "; ".join(str(x) for x in l) + "]"
        for name in self.order:
            nd = self.by_name[name]
            linked = nd["kind"] == "linked"
            hyper = f"(Some {val_coq_n(nd['value'])})" if nd["kind"] == "hyper" else "None"
            if linked:
                kind, c0, cs = nd["fun"][:3]
                ps = [self.index[p] for p in nd["parents"]]
                zl = "[" + "; ".join(f"({c})%Z" for c in cs) + "]"
                if kind == "wadd":
                    fun = f"(DWAdd ({cs[0]})%Z ({cs[1]})%Z)"
                elif kind in self.W_FUNS:
                    con = {"wthr": "DThr", "wmap": "DMap", "wval": "DVal", "wwgt": "DWgt", "wsum": "DSumW", "wcnt": "DCnt"}[kind]
                    fun = f"({con} ({c0})%Z ({cs[0]})%Z" + (f" ({nd['fun'][3]})%Z)" if kind == "wthr" else ")")
                else:
                    fun = {"affine": f"(DAffine ({c0})%Z {zl})", "sum": f"(DSum ({c0})%Z {zl})", "log2": "DLog2"}[kind]
            else:
                ps, fun = [], "DLog2"
            impl_parents = sorted(self.index[p] for p in self.dag.direct_ancestors[name])
            if sorted(ps) != impl_parents:
                raise AssertionError(f"parents of {name}: harness {ps} vs implementation {impl_parents}")
            anc = [self.index[a] for a in self.dag.sorted_ancestors[name]]
            desc = [self.index[c] for c in self.dag.sorted_children[name]]
            out.append(f"mkD {'true' if linked else 'false'} {'true' if nd['kind'] in ('pop', 'ind') else 'false'} {hyper} "
                       f"{'true' if self.axis(name) else 'false'} {lst(ps)} {lst(anc)} {lst(desc)} {fun}")
        return "[" + ";\n    ".join(out) + "]"


def add_weighted_nodes(rng, G_nodes, n_ind, dtype, names_left, wadd=False):
    """Append nodes of the weighted vocabulary to a generated node list: 1-2 `wthr` nodes on parents carrying the individual axis
    (threshold inside the range of the assigned values, so that proposals flip weights), each followed by 1-3 consumers
    (`wmap` -> its own consumers, `wval`, `wwgt`, `wsum`, `wcnt`), sometimes an affine / aggregating node on top of plain consumers."""
    tmp = ToyGraph(G_nodes, n_ind, dtype)
    axis = [nd["name"] for nd in G_nodes if tmp.axis(nd["name"])]
    if not axis or len(names_left) < 2:
        return False
    coefs = [c for c in range(-4, 6) if c != 0]
    plain_out = []

    def new(nd):
        G_nodes.append(nd)
        return nd["name"]

    def consumers(w, depth):
        for _ in range(rng.randint(1, 3)):
            if not names_left:
                return
            kind = rng.choice(["wval", "wval", "wwgt", "wsum", "wsum", "wcnt", "wcnt", "wmap"])
            if kind == "wmap" and (depth > 0 or len(names_left) < 2):
                kind = "wsum"
            n = new(dict(name=names_left.pop(), kind="linked", parents=[w], fun=[kind, rng.randint(-3, 3), [rng.choice(coefs)]]))
            if kind == "wmap":
                consumers(n, depth + 1)
            else:
                plain_out.append((n, kind in ("wval", "wwgt")))
    made = []
    for _ in range(2 if wadd else rng.choice([1, 1, 2])):
        if len(names_left) < 2:
            break
        inds = [nd["name"] for nd in G_nodes if nd["kind"] == "ind"]
        x = rng.choice(inds) if (inds and rng.random() < 0.6) else rng.choice(axis)
        w = new(dict(name=names_left.pop(), kind="linked", parents=[x],
                     fun=["wthr", rng.randint(-3, 3), [rng.choice(coefs)], rng.randint(-4, 4)]))
        made.append(w)
        consumers(w, 0)
    if wadd and len(made) == 2 and len(names_left) >= 2:
        # the two-parent function of WEIGHTED parents: WeightedTensor(c1*A.value + c2*B.value, A.weight * B.weight)
        w = new(dict(name=names_left.pop(), kind="linked", parents=list(made), fun=["wadd", 0, [rng.choice(coefs), rng.choice(coefs)]]))
        consumers(w, 1)
    if plain_out and names_left and rng.random() < 0.5:
        ps = [n for n, _ in rng.sample(plain_out, min(len(plain_out), rng.randint(1, 2)))]
        new(dict(name=names_left.pop(), kind="linked", parents=ps,
                 fun=[rng.choice(["affine", "sum"]), rng.randint(-2, 2), rng.sample(coefs, len(ps))]))
    return True


def gen_graph(rng, n_nodes=None, n_ind=None, dtype=None, with_log=False, weighted=False, wadd=False):
    """Random toy DAG: 2-9 nodes; hyper-parameters, population scalars, per-individual vectors, affine / aggregating
    (/ log2) derived nodes with distinct non-zero coefficients; several roots, late roots (random names decide the
    topological order), diamonds (parents drawn among all earlier nodes)."""
    n_nodes = n_nodes or (rng.randint(2, 6) if weighted else rng.randint(2, 9))
    n_ind = n_ind or rng.choice([1, 2, 2, 3, 3, 4])
    dtype = dtype or rng.choice(["int64", "float64"])
    if with_log:
        dtype = "float64"
    names = rng.sample(NAME_POOL, n_nodes)
    n_indep = rng.randint(1, max(1, min(4, n_nodes - 1)))
    nodes = []
    coefs = [c for c in range(-5, 8) if c not in (0,)]
    for j in range(n_indep):
        kind = rng.choice(["hyper", "pop", "ind", "ind", "pop"]) if j else ("ind" if weighted else rng.choice(["pop", "ind", "ind"]))
        nd = dict(name=names[j], kind=kind, parents=[])
        if kind == "hyper":
            nd["value"] = rng.randint(-4, 6)
        nodes.append(nd)
    for j in range(n_indep, n_nodes):
        k = rng.randint(1, min(3, len(nodes)))
        # prefer recent nodes sometimes to get chains, any node otherwise (diamonds)
        pool = nodes[-3:] if rng.random() < 0.4 else nodes
        ps = rng.sample([nd["name"] for nd in pool], min(k, len(pool)))
        r = rng.random()
        axis_par = None
        if with_log and r < 0.3:
            tmp = ToyGraph(nodes, n_ind, dtype)
            cands = [nd["name"] for nd in nodes if tmp.axis(nd["name"])]
            if cands:
                axis_par = rng.choice(cands)
        if axis_par is not None:
            nd = dict(name=names[j], kind="linked", parents=[axis_par], fun=["log2", 0, []])
        else:
            cs = rng.sample(coefs, len(ps))
            nd = dict(name=names[j], kind="linked", parents=ps, fun=["sum" if r > 0.8 else "affine", rng.randint(-3, 3), cs])
        nodes.append(nd)
    # no node may be left alone (leaspy refuses it): give childless independent nodes a child
    used = {p for nd in nodes for p in nd["parents"]}
    linked = [nd for nd in nodes if nd["kind"] == "linked"]
    for nd in nodes:
        if nd["kind"] != "linked" and nd["name"] not in used:
            tgt = rng.choice([l for l in linked if l["fun"][0] != "log2"] or [None])
            if tgt is None:
                # all derived nodes are log2: add the node to nobody -> replace the last node's function
                tgt = linked[-1]
                tgt["fun"] = ["affine", 1, [2] * len(tgt["parents"])]
            free = [c for c in coefs if c not in tgt["fun"][2]]
            tgt["parents"].append(nd["name"])
            tgt["fun"][2].append(rng.choice(free))
    if weighted:
        left = [n for n in NAME_POOL if n not in names]
        rng.shuffle(left)
        add_weighted_nodes(rng, nodes, n_ind, dtype, left, wadd=wadd)
    return ToyGraph(nodes, n_ind, dtype)


ND_TRAILS = [(2,), (3,), (1,), (2, 2), (2,), ()]


def gen_graph_nd(rng, weighted=False):
    """a toy graph compared through the n-d Coq instance: the per-individual variables have a trailing shape (n, 2), (n, 3), (n, 1),
    (n, 2, 2) — or none: a 1-d graph sent to that instance; weighted graphs get the two-parent `wadd` node"""
    G = gen_graph(rng, weighted=weighted, wadd=weighted and rng.random() < 0.7)
    G.trail = rng.choice(ND_TRAILS)
    if not G.trail:
        G.force_nd = True
    return G


DIAMOND = ToyGraph([
    dict(name="a", kind="ind", parents=[]),
    dict(name="b", kind="linked", parents=["a"], fun=["affine", 1, [2]]),
    dict(name="c", kind="linked", parents=["a"], fun=["affine", -1, [3]]),
    dict(name="d", kind="linked", parents=["b", "c"], fun=["sum", 0, [5, 7]]),
], 2, "int64")

# the graph of finding F1:  c = a + b
F1_GRAPH = ToyGraph([
    dict(name="a", kind="pop", parents=[]),
    dict(name="b", kind="pop", parents=[]),
    dict(name="c", kind="linked", parents=["a", "b"], fun=["affine", 0, [1, 1]]),
], 1, "int64")
F1_OPS = [["mode", 0, "REF"], ["set", 0, "a", 1], ["set", 0, "b", 10], ["get", 0, "c"], ["set", 0, "a", 2],
          ["mode", 0, None], ["set", 0, "b", 20], ["revert", 0], ["get", 0, "c"]]

# a per-individual revert whose discarded side is not finite (finding F2 of C02):  y = log2 x
F2_GRAPH = ToyGraph([
    dict(name="x", kind="ind", parents=[]),
    dict(name="y", kind="linked", parents=["x"], fun=["log2", 0, []]),
], 2, "float64")
F2_OPS = [["mode", 0, "REF"], ["set", 0, "x", [1, 2]], ["get", 0, "y"], ["put", 0, "x", None, [-2, 2], True], ["get", 0, "y"],
          ["revmask", 0, [True, False]], ["get", 0, "y"]]


# a derived WeightedTensor whose WEIGHT depends on the assigned per-individual variable (the shape of the seeded defect
# "_select keeps one side's weight"; Coq: StateWExec.onset_nodes): w = WeightedTensor(x, weight=(x >= 3)), v = w.weighted_value,
# n = w.weight.sum(), s = w.weighted_value.sum()
ONSET_GRAPH = ToyGraph([
    dict(name="a", kind="ind", parents=[]),
    dict(name="b", kind="linked", parents=["a"], fun=["wthr", 0, [1], 3]),
    dict(name="c", kind="linked", parents=["b"], fun=["wval", 0, [1]]),
    dict(name="d", kind="linked", parents=["b"], fun=["wcnt", 0, [1]]),
    dict(name="e", kind="linked", parents=["b"], fun=["wsum", 0, [1]]),
], 4, "int64")
ONSET_OPS = [["mode", 0, "REF"], ["set", 0, "a", [1, 5, 2, 7]], ["get", 0, "c"], ["put", 0, "a", None, [4, -4, 4, -4], True], ["get", 0, "c"],
             ["revmask", 0, [False, True, True, False]], ["get", 0, "b"], ["get", 0, "d"], ["get", 0, "e"]]


# ----------------------------------------------------------------------------- which __setitem__ is under test


def detect_setitem_variant():
    """Which fork rule does `State.__setitem__` of the tree under test have?

    Returns `(fx, detail)`: `fx = True`  — an assignment made while `auto_fork_type is None` forgets `_last_fork`
                                           (the code since 27ac519; model flag fx = true),
                            `fx = False` — it leaves `_last_fork` alone (the code before; finding F1; fx = false),
                            `fx = None`  — not recognised (fail closed: the caller must report a broken translation).
    Two independent views that have to agree:
      (a) the source: the body of `__setitem__` contains exactly one statement `if self.auto_fork_type is not None:` whose
          branch is the single assignment `self._last_fork = self.auto_fork_type.to_cache({...})`, whose `else` is either
          absent or the single statement `self._last_fork = None`, and `_last_fork` is assigned nowhere else in the method;
      (b) a probe on a real State (c = a + b): fork REF; a=1; auto_fork_type=None; b=2 (through `__setitem__`, and
          again through `put`) — is `_last_fork` None afterwards?"""
    import ast
    import inspect
    import textwrap

    import torch
    from leaspy.variables.state import State, StateForkType
    detail = dict(source=None, probe_setitem=None, probe_put=None, file=inspect.getsourcefile(State))
    # (a) source shape
    src = None
    try:
        fn = ast.parse(textwrap.dedent(inspect.getsource(State.__setitem__))).body[0]
        is_fork_attr = lambda t: isinstance(t, ast.Attribute) and t.attr == "_last_fork"
        all_assigns = [n for n in ast.walk(fn) if isinstance(n, (ast.Assign, ast.AugAssign, ast.AnnAssign, ast.Delete))
                       and any(is_fork_attr(t) for t in (n.targets if hasattr(n, "targets") else [n.target]))]
        ifs = [n for n in fn.body if isinstance(n, ast.If) and ast.unparse(n.test) == "self.auto_fork_type is not None"]
        if len(ifs) == 1:
            node = ifs[0]
            body_ok = (len(node.body) == 1 and isinstance(node.body[0], ast.Assign)
                       and ast.unparse(node.body[0].targets[0]) == "self._last_fork"
                       and ast.unparse(node.body[0].value).startswith("self.auto_fork_type.to_cache("))
            if body_ok and not node.orelse and len(all_assigns) == 1:
                src = False
            elif (body_ok and len(node.orelse) == 1 and isinstance(node.orelse[0], ast.Assign)
                  and ast.unparse(node.orelse[0]) == "self._last_fork = None" and len(all_assigns) == 2):
                src = True
        detail["source"] = src
        detail["source_if"] = ast.unparse(ifs[0]) if len(ifs) == 1 else f"{len(ifs)} matching if statements"
    except Exception as e:  # noqa
        detail["source_error"] = f"{type(e).__name__}: {e}"
    # (b) behaviour
    try:
        G = ToyGraph.from_json(F1_GRAPH.to_json())
        G.build()
        for key, how in (("probe_setitem", "set"), ("probe_put", "put")):
            st = State(G.dag)
            st.auto_fork_type = StateForkType.REF
            st["b"] = torch.tensor(10)
            st["a"] = torch.tensor(1)
            pending = st._last_fork is not None
            st.auto_fork_type = None
            if how == "set":
                st["b"] = torch.tensor(2)
            else:
                st.put("b", torch.tensor(2), accumulate=True)
            detail[key] = (st._last_fork is None) if pending else None
    except Exception as e:  # noqa
        detail["probe_error"] = f"{type(e).__name__}: {e}"
    views = (detail["source"], detail["probe_setitem"], detail["probe_put"])
    fx = views[0] if (views[0] is not None and views[0] == views[1] == views[2]) else None
    detail["fx"] = fx
    return fx, detail


def detect_revert_mix_variant():
    """Which rule does the per-individual `State.revert(subset)` of the tree under test use to combine the forked and the
    current value?

    Returns `(mix, detail)`: `"where"` — entry-wise selection `torch.where(mask, old, cur)` (since fe0cadd; Coq: xsem_where),
                             `"blend"` — `old * mask + cur * ~mask` (before; NaN/inf on the discarded side leak; Coq: xsem),
                             `None`    — not recognised (fail closed).
    Two independent views that have to agree:
      (a) the source of `State.revert`: either it multiplies by `to_revert` / `to_keep` and never selects, or it never does
          and calls `torch.where` (directly or through the module-level helper `_select`, whose body must itself call
          `torch.where` on the values and multiply nothing);
      (b) probes on a real State: y = log2 x, x = [1,2] -> [-1,4], individual 0 rejected (cached y[0]: 0 or NaN), and
          c = 2*x, x = [1,2] -> [inf,3], individual 0 rejected (cached c[0]: 2 or NaN);
      (c) "where" only: the helper builds a WeightedTensor whose weight is itself a `torch.where(...)`, and on the probe
          w = WeightedTensor(x, weight=(x >= 3)), x = [1,5,2,7] -> [5,1,6,3], individuals 1 and 2 rejected, the cached w has
          the values [5,5,2,3] AND the weights [1,1,0,1] (each row from its own side)."""
    import ast
    import inspect
    import math
    import textwrap

    import torch
    from leaspy.variables import state as state_mod
    from leaspy.variables.state import State, StateForkType
    detail = dict(source=None, probe_log=None, probe_inf=None)
    try:
        fn = ast.parse(textwrap.dedent(inspect.getsource(State.revert))).body[0]

        def marks(node):
            mult = [n for n in ast.walk(node) if isinstance(n, ast.BinOp) and isinstance(n.op, ast.Mult)]
            blend = [ast.unparse(n) for n in mult if any(w in ast.unparse(n) for w in ("to_revert", "to_keep", "mask"))]
            calls = [ast.unparse(n.func) for n in ast.walk(node) if isinstance(n, ast.Call)]
            return blend, mult, calls
        blend, _, calls = marks(fn)
        selects = [c for c in calls if c in ("torch.where", "_select")]
        src = None
        if blend and not selects:
            src = "blend"
        elif selects and not blend:
            ok = True
            if "_select" in selects:
                helper = getattr(state_mod, "_select", None)
                if helper is None:
                    ok = False
                else:
                    hfn = ast.parse(textwrap.dedent(inspect.getsource(helper))).body[0]
                    _, hmult, hcalls = marks(hfn)
                    ok = ("torch.where" in hcalls) and not hmult
                    # a WeightedTensor built with an explicit weight must take that weight from a selection too
                    # (`torch.where(mask, old_weight, cur_weight)`), not from one side
                    wt = [n for n in ast.walk(hfn) if isinstance(n, ast.Call) and ast.unparse(n.func) == "WeightedTensor"
                          and (len(n.args) >= 2 or any(k.arg == "weight" for k in n.keywords))
                          and any(isinstance(r, ast.Return) and n in ast.walk(r) for r in ast.walk(hfn))]
                    for n in wt:
                        wexpr = n.args[1] if len(n.args) >= 2 else next(k.value for k in n.keywords if k.arg == "weight")
                        if not (isinstance(wexpr, ast.Call) and ast.unparse(wexpr.func) == "torch.where"):
                            ok = False
                            detail["source_weight_not_selected"] = ast.unparse(n)
            src = "where" if ok else None
        detail["source"] = src
        detail["source_marks"] = dict(multiplications_by_mask=blend[:4], selection_calls=selects)
    except Exception as e:  # noqa
        detail["source_error"] = f"{type(e).__name__}: {e}"
    try:
        G = ToyGraph.from_json(F2_GRAPH.to_json())
        G.build()
        st = State(G.dag)
        st.auto_fork_type = StateForkType.REF
        st["x"] = G.tensor([1, 2])
        st["y"]
        st.put("x", G.tensor([-2, 2]), accumulate=True)
        st["y"]
        st.revert(torch.tensor([True, False]))
        y0, y1 = st._values["y"].tolist()
        detail["probe_log"] = "where" if (y0 == 0.0 and y1 == 2.0) else "blend" if (math.isnan(y0) and y1 == 2.0) else None
        detail["probe_log_value"] = [atom_json(y0), atom_json(y1)]
        G2 = ToyGraph([dict(name="x", kind="ind", parents=[]),
                       dict(name="c", kind="linked", parents=["x"], fun=["affine", 0, [2]])], 2, "float64")
        G2.build()
        st = State(G2.dag)
        st.auto_fork_type = StateForkType.COPY
        st["x"] = G2.tensor([1, 2])
        st["c"]
        st["x"] = G2.tensor(["inf", 3])
        st["c"]
        st.revert(torch.tensor([True, False]))
        c0, c1 = st._values["c"].tolist()
        detail["probe_inf"] = "where" if (c0 == 2.0 and c1 == 6.0) else "blend" if (math.isnan(c0) and c1 == 6.0) else None
        detail["probe_inf_value"] = [atom_json(c0), atom_json(c1)]
    except Exception as e:  # noqa
        detail["probe_error"] = f"{type(e).__name__}: {e}"
    # (c) a derived WeightedTensor whose weight depends on the assigned variable: both components must be selected row by row
    detail["probe_weight"] = None
    try:
        G3 = ToyGraph.from_json(ONSET_GRAPH.to_json())
        G3.build()
        st = State(G3.dag)
        st.auto_fork_type = StateForkType.REF
        st["a"] = G3.tensor([1, 5, 2, 7])
        st["b"]
        st.put("a", G3.tensor([4, -4, 4, -4]), accumulate=True)
        st["b"]
        st.revert(torch.tensor([False, True, True, False]))
        got = val_json(st._values["b"])
        detail["probe_weight_value"] = got
        if got == {"wv": [5, 5, 2, 3], "ww": [1, 1, 0, 1]}:
            detail["probe_weight"] = "rows"
    except Exception as e:  # noqa
        detail["probe_weight_error"] = f"{type(e).__name__}: {e}"
    views = (detail["source"], detail["probe_log"], detail["probe_inf"])
    mix = views[0] if (views[0] is not None and views[0] == views[1] == views[2]) else None
    if mix == "where" and detail["probe_weight"] != "rows":
        mix = None      # selects values but not the weights of a WeightedTensor: neither of the two modelled rules
    detail["mix"] = mix
    return mix, detail


# ----------------------------------------------------------------------------- executing histories


def same_tensor(a, b):
    import torch
    if a is None or b is None:
        return a is None and b is None
    if hasattr(a, "weighted_value") or hasattr(b, "weighted_value"):
        if not (hasattr(a, "weighted_value") and hasattr(b, "weighted_value")):
            return False
        wa, wb = a.weight, b.weight
        if (wa is None) != (wb is None):
            return False
        if wa is not None and not same_tensor(wa, wb):
            return False
        a, b = a.value, b.value
    if a.dtype != b.dtype or a.shape != b.shape:
        return False
    if a.is_floating_point():
        # bit-for-bit up to the NaN payload; distinguishes -0.0 from 0.0 only through 1/x, which no node computes
        return bool(((a == b) | (a.isnan() & b.isnan())).all())
    return bool(torch.equal(a, b))


def probe_of(st):
    """A harness-made copy of a state (same DAG object, same tensors, own dictionaries): reading it does not disturb
    the state under test and does not go through State.clone / deepcopy."""
    from leaspy.variables.state import State
    p = State(st.dag, auto_fork_type=st.auto_fork_type)
    p._values = dict(st._values)
    p._last_fork = None if st._last_fork is None else dict(st._last_fork)
    return p


ALIAS_HOWS = ("same", "view", "bcast", "expand")


def op_extra(op):
    """optional trailing dict of a `set` (op[4]) / `put` (op[6]) operation:
      {"alias": [src_state, src_name, how]}   (set only) the value assigned is NOT a fresh tensor but the tensor object another independent
                                              variable currently holds (`same`), a view of it (`view`: `t[...]`; `bcast`: what
                                              `torch.broadcast_tensors(t, scalar)[0]` returns — the prior-mode initialisation of leaspy's latent
                                              variables; `expand`: a 0-d source expanded to the individual axis); op[3] is (re)written with the
                                              value of the source when the operation is executed.  Value semantics (the model's): exactly
                                              `set name := <that value>`;
      {"dtype": "float32"|"float64"|"int64"}  the assigned / added tensor is built with this dtype instead of the graph's."""
    i = {"set": 4, "put": 6}.get(op[0])
    if i is not None and len(op) > i and isinstance(op[i], dict):
        return op[i]
    return {}


def op_rb(op):
    """`right_broadcasting` of a `["revmask", k, mask, {"rb": bool}]` operation (default True, the default of State.revert)"""
    return bool(op[3].get("rb", True)) if len(op) > 3 and isinstance(op[3], dict) else True


def mask_fits(old, cur, mask, rb):
    """the contract of `revert(subset, right_broadcasting=rb)` on one doubly cached value, as the n-d Coq instance decides it
    (`nselect ... <> None`): same kind of value (plain / weighted / weighted without weight), same shapes, at least one axis, and exactly
    one mask entry per index of the axis the mask is aligned on (first axis: right-broadcasting; last axis otherwise)"""
    wo, wc = hasattr(old, "weighted_value"), hasattr(cur, "weighted_value")
    if wo != wc:
        return False
    if wo and ((old.weight is None) != (cur.weight is None)):
        return False
    so, sc = tuple(old.shape), tuple(cur.shape)
    if so != sc or not so:
        return False
    return so[0 if rb else -1] == len(mask)


class BadHandle(Exception):
    """the harness's handle names no state (model: Err Crash)"""


def mode_coq(m):
    return "None" if m is None else f"(Some {m})"


def reference_scope(st, mode):
    """The documented contract of `State.auto_fork`, written out: the body runs with `auto_fork_type = mode`, and the previous
    mode is put back whatever happens in the body."""
    from contextlib import contextmanager

    @contextmanager
    def cm():
        previous = st.auto_fork_type
        st.auto_fork_type = mode
        try:
            yield
        finally:
            st.auto_fork_type = previous
    return cm()


def shared_storage(a, b):
    """names of what state `b` (a clone) shares with state `a`: the dictionaries themselves, or tensor objects"""
    out = []
    if b._values is a._values:
        out.append("_values (same dict)")
    if b._last_fork is not None and b._last_fork is a._last_fork:
        out.append("_last_fork (same dict)")
    ids = {id(v): n for n, v in a._values.items() if v is not None}
    ids.update({id(v): n for n, v in (a._last_fork or {}).items() if v is not None})
    for where, d in (("_values", b._values), ("_last_fork", b._last_fork or {})):
        for n, v in d.items():
            if v is not None and id(v) in ids:
                out.append(f"{where}[{n}] (same tensor object)")
    return out


class Session:
    """Real states of one graph + bookkeeping.  `fx` says which model the discipline flags are computed for
    (True: the code since 27ac519, an un-forked assignment drops the pending fork; False: the code before, finding F1;
    `detect_setitem_variant()` tells which one the tree under test has)."""

    def __init__(self, G: ToyGraph, fx=False, oracle=True, scope="real"):
        from leaspy.variables.state import State
        if G.dag is None:
            G.build()
        self.G = G
        self.fx = fx
        self.oracle = oracle
        # how a scoped block is executed: "real" = `with st.auto_fork(mode)` (the context manager under test),
        # "reference" = the documented contract written out by the harness (set the mode; finally: put the previous one back)
        self.scope = scope
        self.event_steps = []         # index of the top-level operation each event belongs to
        self.block_entries = []       # per executed block: was a fork pending on entry, what was the mode before
        self.events = []              # (obs, ok) per primitive event: ("out", op, out) | ("seen", k, mode, fork) | ("bad", k)
        self.has_scoped = False
        self.scope_violations = []    # a block that did not leave auto_fork_type as it found it
        self.alias_violations = []    # a clone that shares mutable storage (dicts / tensors) with its source
        self._raised = None           # the exception on its way out of the enclosing blocks
        self._last_exc = None
        self._step = 0
        self.dtype_strict = True      # the from-scratch oracle compares dtypes too (False: same numbers in another dtype are only counted)
        self.dtype_only_diffs = 0
        self.alias_sets = 0           # assignments of a tensor object (or a view of one) that another independent variable holds
        self.alias_puts = {}          # (indexed|full, mode) -> puts executed on a variable that shared storage with another one
        self.alias_effects = []       # an independent value that changed although the operation did not assign it
        self.states = [State(G.dag)]
        self.taint = [set()]          # per state: 'unforked' (F1 precondition met), 'mask' (misuse of partial revert)
        self.records = []             # (op, out, ok_flag)
        self.mismatches = []          # oracle failures: dict(step, state, node, expected, observed, taint)
        # histories of the F1 shape, measured on the real state whatever the variant: per state, "an assignment was made
        # with auto-fork off while a fork was pending and no forked assignment / clear happened since"
        self.nonfinite_masks = 0      # partial reverts applied while a doubly cached forked entry was inf / NaN
        self.weighted_masks = 0       # doubly cached WeightedTensor entries met by partial reverts
        self.weight_flipping_masks = 0   # ... whose weights differ between the forked and the current side
        self.after_unforked = [False]
        self.f1_events = []           # dict(kind: unforked-set-over-pending-fork | revert-after | read-after-revert, step, state, out)
        self._reverted_after = [False]

    # -- discipline of an operation, evaluated on the real state before it runs
    def op_ok(self, op):
        kind, k = op[0], op[1]
        if k >= len(self.states):
            return True
        st = self.states[k]
        G = self.G
        if kind in ("set", "put"):
            name = op[2]
            if name not in G.by_name or G.by_name[name]["kind"] not in ("pop", "ind"):
                return True
            return bool(self.fx or st.auto_fork_type is not None or st._last_fork is None)
        if kind == "revmask":
            if st._last_fork is None:
                return True
            if G.nd:
                rb = op_rb(op)
                return all(G.axis(c) and mask_fits(old, st._values[c], op[2], rb)
                           for c, old in st._last_fork.items() if old is not None and st._values[c] is not None)
            return all(G.axis(c) for c, old in st._last_fork.items() if old is not None and st._values[c] is not None)
        return True

    def execute(self, op):
        """Run one operation on the real state; returns the canonical outcome."""
        import torch
        from leaspy.exceptions import LeaspyInputError
        from leaspy.variables.state import StateForkType
        kind, k = op[0], op[1]
        self._last_exc = None
        if k >= len(self.states):
            self._last_exc = BadHandle(k)
            return ("err", "crash")
        st = self.states[k]
        G = self.G
        try:
            if kind == "get":
                return ("ok", val_json(st[op[2]]))
            if kind == "isset":
                return ("okb", bool(st.is_variable_set(op[2])))
            if kind == "set":
                ex = op_extra(op)
                alias = self._alias_tensor(op) if ex.get("alias") else None
                if alias is not None:
                    op[3] = val_json(alias)          # the value the model is given: the source's value at this point of the history
                    self.alias_sets += 1
                    st[op[2]] = alias
                else:
                    st[op[2]] = None if op[3] is None else G.tensor(op[3], ex.get("dtype"))
                return ("done",)
            if kind == "put":
                name, idx, v, acc = op[2:6]
                st.put(name, G.tensor(v, op_extra(op).get("dtype")), indices=() if idx is None else (idx,), accumulate=bool(acc))
                return ("done",)
            if kind == "revert":
                st.revert()
                return ("done",)
            if kind == "revmask":
                if len(op) > 3:
                    st.revert(torch.tensor(op[2], dtype=torch.bool), right_broadcasting=op_rb(op))
                else:
                    st.revert(torch.tensor(op[2], dtype=torch.bool))
                return ("done",)
            if kind == "clone":
                self.states.append(st.clone(disable_auto_fork=bool(op[2]), keep_last_fork=bool(op[3])))
                shared = shared_storage(st, self.states[-1])
                if shared:
                    self.alias_violations.append(dict(step=self._step, source=k, clone=len(self.states) - 1, shared=shared))
                self.taint.append(set(self.taint[k]))
                self.after_unforked.append(self.after_unforked[k])
                self._reverted_after.append(self._reverted_after[k])
                return ("done",)
            if kind == "mode":
                st.auto_fork_type = None if op[2] is None else StateForkType[op[2]]
                return ("done",)
            if kind == "precompute":
                st.precompute_all()
                return ("done",)
            if kind == "clear":
                st.clear()
                self.taint[k] = set()
                return ("done",)
            raise ValueError(f"unknown op {op}")
        except LeaspyInputError as e:
            self._last_exc = e
            return ("err", "input")
        except Exception as e:  # noqa: any other exception class
            self._last_exc = e
            return ("err", "crash")

    # -- aliasing: two independent variables holding the same tensor object / views of one storage
    def _alias_tensor(self, op):
        """the tensor a `set` with {"alias": [src_state, src_name, how]} assigns: the object the source holds, or a view of it
        (None: source absent / unset / of another shape -> the operation is the plain assignment of op[3])"""
        import torch
        sk, sn, how = op_extra(op)["alias"]
        if sk >= len(self.states) or sn not in self.G.by_name:
            return None
        t = self.states[sk]._values.get(sn)
        if t is None or hasattr(t, "weighted_value"):
            return None
        want_ind = self.G.by_name.get(op[2], {}).get("kind") == "ind"
        if how == "expand":
            return t.expand(self.G.n_ind) if (t.ndim == 0 and want_ind) else None
        if (t.ndim == 1) != want_ind:
            return None
        if how == "same":
            return t
        if how == "view":
            return t[...]
        return torch.broadcast_tensors(t, torch.ones((), dtype=t.dtype))[0]      # what Normal.mode does with (loc, scale)

    def indep_names(self):
        return [n for n in self.G.order if self.G.by_name[n]["kind"] in ("pop", "ind", "hyper")]

    def _snapshot(self):
        """independent values of every state, BY VALUE (clones): what value semantics says they still are after an operation that
        does not assign them"""
        return [{n: (None if st._values[n] is None else st._values[n].clone()) for n in self.indep_names()} for st in self.states]

    def _shares_storage(self, k, name):
        t = self.states[k]._values.get(name)
        if t is None or hasattr(t, "weighted_value"):
            return False
        ptr = t.untyped_storage().data_ptr()
        for j, st in enumerate(self.states):
            for n in self.indep_names():
                if (j, n) != (k, name):
                    u = st._values[n]
                    if u is not None and not hasattr(u, "weighted_value") and u.untyped_storage().data_ptr() == ptr:
                        return True
        return False

    def _check_kept(self, snap, allowed, op):
        """every independent value the operation did not assign is bit-identical (dtype and shape included) to its snapshot; returns
        per state the values that value semantics prescribes for the ones that are not"""
        prescribed = {}
        for j, vals in enumerate(snap):
            st = self.states[j]
            for n, old in vals.items():
                if (j, n) in allowed:
                    continue
                cur = st._values[n]
                if not same_tensor(old, cur):
                    prescribed.setdefault(j, {})[n] = old
                    e = dict(step=self._step, state=j, node=n, taint=sorted(self.taint[j] | {"alias-effect"}),
                             expected=val_json(old), observed=val_json(cur), by=list(op[:3]))
                    self.alias_effects.append(e)
                    self.mismatches.append(e)
        return prescribed

    # -- histories with scoped blocks
    def apply(self, op):
        """One top-level element of a history: whatever it raises is caught here (the caller's try/except)."""
        self._step = len(self.records)
        rec = self._apply(op)
        self._raised = None
        self.records.append(rec)
        return rec[1]

    def _apply(self, op):
        if op[0] == "scoped":
            return self._scoped(op)
        if op[0] == "look":
            return self._look(op)
        return self._prim(op)

    def _seen(self, k):
        st = self.states[k]
        mode = None if st.auto_fork_type is None else st.auto_fork_type.name
        fork = None if st._last_fork is None else [[n, val_json(v)] for n, v in st._last_fork.items()]
        self._event((("seen", k, mode, fork), True))
        return mode, fork

    def _event(self, e):
        self.events.append(e)
        self.event_steps.append(self._step)

    def _look(self, op):
        k = op[1]
        if k >= len(self.states):
            self._event((("bad", k), True))
            self._raised = BadHandle(k)
            return (op, ("err", "crash"), True)
        self._raised = None
        mode, fork = self._seen(k)
        return (op, ("seen", mode, fork), True)

    def _scope_cm(self, st, mode):
        if self.scope == "real":
            return st.auto_fork(mode)
        return reference_scope(st, mode)

    def _scoped(self, op):
        """`with states[k].auto_fork(mode): body` — the real exception of the first failing operation travels through the
        real context manager(s); recorded: the bookkeeping just inside the block and just after it."""
        from leaspy.variables.state import StateForkType
        _, k, m, body = op
        self.has_scoped = True
        if k >= len(self.states):
            self._event((("bad", k), True))
            self._raised = BadHandle(k)
            return (op, ("block", True, []), True)
        st = self.states[k]
        before = st.auto_fork_type
        self.block_entries.append(dict(step=self._step, state=k, fork_pending=st._last_fork is not None,
                                       previous=None if before is None else before.name))
        inner = []
        exc = None
        self._raised = None
        try:
            with self._scope_cm(st, None if m is None else StateForkType[m]):
                self._seen(k)
                for o in body:
                    inner.append(self._apply(o))
                    if self._raised is not None:
                        raise self._raised
        except Exception as e:  # noqa: the exception that left the block
            exc = e
        self._seen(k)
        if st.auto_fork_type is not before:
            self.scope_violations.append(dict(step=self._step, state=k, block_mode=m, raised=exc is not None,
                                              expected=None if before is None else before.name,
                                              observed=None if st.auto_fork_type is None else st.auto_fork_type.name))
        self._raised = exc
        return (op, ("block", exc is not None, inner), True)

    def _prim(self, op):
        ok = self.op_ok(op)
        k = op[1]
        n_before = len(self.states)
        if not ok and k < len(self.states):
            self.taint[k].add("unforked" if op[0] in ("set", "put") else "mask")
        if k < n_before and op[0] == "revmask" and self.states[k]._last_fork is not None:
            # a per-individual revert applied while a doubly cached entry of the fork is not finite: where the blend
            # old*mask + cur*~mask (before fe0cadd) and the selection differ
            stk = self.states[k]
            fin = lambda x: bool((x.value if hasattr(x, "weighted_value") else x).isfinite().all())
            for c, old in stk._last_fork.items():
                cur = stk._values[c]
                if old is not None and cur is not None and (hasattr(old, "weighted_value") or hasattr(cur, "weighted_value")):
                    # a per-individual revert applied while a doubly cached entry of the fork is a WeightedTensor: `_select` has
                    # to select the weight row by row too
                    if "weighted-mask" not in self.taint[k]:
                        self.taint[k].add("weighted-mask")
                    self.weighted_masks += 1
                    if not same_tensor(getattr(old, "weight", None), getattr(cur, "weight", None)):
                        self.weight_flipping_masks += 1
            for c, old in stk._last_fork.items():
                cur = stk._values[c]
                if old is not None and cur is not None and not (fin(old) and fin(cur)):
                    self.taint[k].add("nonfinite-mask")
                    self.nonfinite_masks += 1
                    break
        over_pending = forked = False
        if k < n_before and op[0] in ("set", "put"):
            st = self.states[k]
            over_pending = st.auto_fork_type is None and st._last_fork is not None
            forked = st.auto_fork_type is not None
        snap = allowed = None
        if self.oracle:
            snap = self._snapshot()
            allowed = set()
            if k < n_before:
                if op[0] in ("set", "put"):
                    allowed.add((k, op[2]))
                    if op[0] == "put" and self._shares_storage(k, op[2]):
                        m = self.states[k].auto_fork_type
                        key = ("indexed" if op[3] is not None else "full") + " put, auto-fork " + ("off" if m is None else m.name)
                        self.alias_puts[key] = self.alias_puts.get(key, 0) + 1
                elif op[0] in ("revert", "revmask"):
                    allowed |= {(k, n) for n in (self.states[k]._last_fork or {})}
                elif op[0] == "clear":
                    allowed |= {(k, n) for n in self.indep_names()}
        out = self.execute(op)
        self._raised = self._last_exc if out[0] == "err" else None
        self._event((("out", op, out), ok))
        if k < n_before:
            step = self._step
            if op[0] in ("set", "put") and out == ("done",):
                if over_pending:
                    self.after_unforked[k] = True
                    self._reverted_after[k] = False
                    self.f1_events.append(dict(kind="unforked-set-over-pending-fork", step=step, state=k, out=list(out), op=op[0]))
                elif forked:
                    self.after_unforked[k] = self._reverted_after[k] = False
            elif op[0] in ("revert", "revmask") and self.after_unforked[k]:
                self._reverted_after[k] = True
                self.f1_events.append(dict(kind="revert-after", step=step, state=k, out=list(out), op=op[0]))
            elif op[0] == "get" and self._reverted_after[k]:
                self.f1_events.append(dict(kind="read-after-revert", step=step, state=k, out=[out[0]], op=op[0]))
            elif op[0] == "clear":
                self.after_unforked[k] = self._reverted_after[k] = False
        if self.oracle:
            prescribed = self._check_kept(snap, allowed, op)
            touched = [k] if k < n_before else []
            if len(self.states) > n_before:
                touched.append(len(self.states) - 1)
            if self.alias_sets:
                touched = list(range(len(self.states)))      # storage may be shared across states: read all of them
            for j in touched:
                self.check_fresh(j, self._step, prescribed.get(j))
        return (op, out, ok)

    # -- the oracle: every read of (a deep copy of) the state equals the read of a fresh state holding the same
    #    independent values, bit for bit
    def read(self, st, name):
        from leaspy.exceptions import LeaspyInputError
        try:
            return ("ok", st[name])
        except LeaspyInputError:
            return ("err", "input")
        except Exception as e:  # noqa
            return ("err", "crash:" + type(e).__name__)

    def fresh_like(self, st, prescribed=None):
        """a brand new state holding the independent values of `st` — for the variables of `prescribed`, the value they had (by value)
        before an operation that did not assign them"""
        from leaspy.variables.state import State
        fresh = State(self.G.dag)
        for name in self.G.settable():
            v = st._values[name]
            if prescribed and name in prescribed:
                v = prescribed[name]
            if v is not None:
                fresh[name] = v.clone()
        return fresh

    def check_fresh(self, j, step, prescribed=None):
        st = self.states[j]
        fresh = self.fresh_like(st, prescribed)
        probe = probe_of(st)
        for name in self.G.order:
            a = self.read(probe, name)
            b = self.read(fresh, name)
            same = (a[0] == b[0]) and (same_tensor(a[1], b[1]) if a[0] == "ok" else a[1] == b[1])
            if not same and not self.dtype_strict and a[0] == b[0] == "ok" and not hasattr(a[1], "weighted_value") and not hasattr(b[1], "weighted_value") \
                    and a[1].shape == b[1].shape and a[1].dtype != b[1].dtype and same_tensor(a[1].double(), b[1].double()):
                # mixed-dtype histories: same numbers, another dtype (torch's promotion with 0-d operands is not associative, so the dtype of a
                # value selected between two sides and of its from-scratch evaluation may differ on any tree): counted, not judged
                self.dtype_only_diffs += 1
                same = True
            if not same:
                self.mismatches.append(dict(step=step, state=j, node=name, taint=sorted(self.taint[j] | ({"alias-effect"} if prescribed else set())),
                                            expected=val_json(b[1]) if b[0] == "ok" else b[1],
                                            observed=val_json(a[1]) if a[0] == "ok" else a[1]))
                return

    # -- Coq literal of the recorded history
    def op_coq(self, op):
        G = self.G
        W = G.inst
        val_coq = lambda v: globals()["val_coq"](v, W)
        kind, k = op[0], op[1]
        b = lambda x: "true" if x else "false"
        if kind == "get":
            return f"Get {k} {G.ix(op[2])}"
        if kind == "isset":
            return f"IsSet {k} {G.ix(op[2])}"
        if kind == "set":
            return f"Set_ {k} {G.ix(op[2])} {'None' if op[3] is None else '(Some ' + val_coq(op[3]) + ')'}"
        if kind == "put":
            return f"Put {k} {G.ix(op[2])} {'None' if op[3] is None else '(Some ' + str(op[3]) + ')'} {val_coq(op[4])} {b(op[5])}"
        if kind == "revert":
            return f"Revert {k}"
        if kind == "revmask":
            if W == "n":
                return f"RevertMask {k} {nmask_coq(op[2], op_rb(op))}"
            return f"RevertMask {k} [{'; '.join(b(x) for x in op[2])}]"
        if kind == "clone":
            return f"Clone {k} {b(op[2])} {b(op[3])}"
        if kind == "mode":
            return f"SetMode {k} {'None' if op[2] is None else '(Some ' + op[2] + ')'}"
        if kind == "precompute":
            return f"Precompute {k}"
        if kind == "clear":
            return f"Clear {k}"
        raise ValueError(op)

    def coq_case(self):
        """plain histories only (no scoped block, no look): the case of `StateExec.check_case_with` (of
        `StateWExec.check_wcase_with` when the graph uses the weighted vocabulary)"""
        assert not any(op[0] in ("scoped", "look") for op, _, _ in self.records)
        W = self.G.inst
        h = ";\n    ".join(f"({self.op_coq(op)}, {out_coq(out, W)}, {'true' if ok else 'false'})" for op, out, ok in self.records)
        return f"({self.G.coq()},\n   [{h}])"

    def sop_coq(self, op):
        if op[0] == "scoped":
            blk = {"n": "nblk", True: "wblk", False: "blk"}[self.G.inst]
            return f"SScoped {op[1]} {mode_coq(op[2])} ({blk} [{'; '.join(self.sop_coq(o) for o in op[3])}])"
        if op[0] == "look":
            return f"SLook {op[1]}"
        return f"SPlain ({self.op_coq(op)})"

    def obs_coq(self, obs):
        W = self.G.inst
        con = ("XOut", "XSeen", "XBad") if W is False else ("GOut", "GSeen", "GBadH")      # StateScopedExec.xobs / StateScopedGExec.gobs
        if obs[0] == "out":
            return f"{con[0]} {out_coq(obs[2], W)}"
        if obs[0] == "bad":
            return f"{con[2]} {obs[1]}"
        _, k, mode, fork = obs
        if fork is None:
            fk = "None"
        else:
            fk = "(Some [" + "; ".join(f"({self.G.ix(n)}, {'None' if v is None else '(Some ' + val_coq(v, W) + ')'})" for n, v in fork) + "])"
        return f"{con[1]} {k} {mode_coq(mode)} {fk}"

    def coq_scase(self):
        """the case of `StateScopedExec.check_scase_with`: graph, history with scoped blocks, one entry per primitive event"""
        h = ";\n    ".join(self.sop_coq(op) for op, _, _ in self.records)
        ev = ";\n    ".join(f"({self.obs_coq(obs)}, {'true' if ok else 'false'})" for obs, ok in self.events)
        return f"({self.G.coq()},\n   [{h}],\n   [{ev}])"

    def events_json(self):
        return [[list(obs) if obs[0] != "out" else ["out", obs[1], list(obs[2])], ok] for obs, ok in self.events]


def run_ops(G, ops, fx=False, oracle=True, scope="real"):
    s = Session(G, fx=fx, oracle=oracle, scope=scope)
    for op in ops:
        s.apply(op)
    return s


def flat_ops(ops):
    """every operation of a history, the bodies of scoped blocks included (a block itself comes before its body)"""
    for op in ops:
        yield op
        if op[0] == "scoped":
            yield from flat_ops(op[3])


def flat_records(records):
    """every primitive record (op, out, ok), bodies of scoped blocks included; blocks are yielded as ("scoped", ..) too"""
    for op, out, ok in records:
        yield op, out, ok
        if op[0] == "scoped":
            yield from flat_records(out[2])


# ----------------------------------------------------------------------------- history grammar


def rand_value(rng, G, name, small=False):
    """small integers; on float64 graphs that ask for it (`G.nonfinite`), now and then +-inf (sums, products by the non-zero
    coefficients and differences of those stay in the exact vocabulary: finite integers, +-inf, NaN)"""
    lo, hi = (-3, 3) if small else (-9, 9)
    nf = getattr(G, "nonfinite", False) and G.dtype == "float64"

    def one():
        if nf and rng.random() < 0.12:
            return rng.choice(["inf", "-inf", "inf"])
        return rng.randint(lo, hi)
    if G.by_name.get(name, {}).get("kind") == "ind":
        def nest(shape):
            return one() if not shape else [nest(shape[1:]) for _ in range(shape[0])]
        return nest((G.n_ind,) + tuple(getattr(G, "trail", ())))
    return one() if (nf and rng.random() < 0.3) else rng.randint(lo, hi)


def gen_history(rng, G, malformed=False, length=None, max_states=3, fx=False, scoped=True, alias=0.05):
    """Generate (and execute) one history against live states.  Returns the Session.  `fx`: see Session.
    `scoped`: 7% of the steps are `with auto_fork(m)` blocks (nested up to 3 deep, 60% of them left by an exception)
    followed by an assignment, reads, a revert and reads.
    `alias`: that share of the steps has the shape "an independent variable is assigned the tensor OBJECT (or a view of the tensor) another
    independent variable holds; then indexed / accumulating puts on either of them in every fork mode (assigned, or scoped); reads of both
    and of their descendants; sometimes a revert; reads"."""
    s = Session(G, fx=fx)
    length = length or rng.randint(1, 40)
    sett = G.settable()
    names = list(G.order)
    non_sett = [n for n in names if n not in sett]

    def pick_state():
        return rng.randrange(len(s.states))

    def revmask(k):
        """a per-individual revert.  Graphs of the n-d instance: 30% with `right_broadcasting=False` and a mask over the LAST axis; a call
        outside the exact-fit contract (e.g. the pending fork is that of a population scalar: torch would change the shape of the value) is
        replaced by a full revert — inside histories the n-d instance models the contract only, the shape-changing broadcasts are
        compared by the directed revert calls (`directed_select`)"""
        op = ["revmask", k, [rng.random() < 0.5 for _ in range(G.n_ind)]]
        if G.nd:
            c = rng.random()
            if c < 0.3:
                last = G.trail[-1] if G.trail else G.n_ind
                op = ["revmask", k, [rng.random() < 0.5 for _ in range(last)], {"rb": False}]
            elif c < 0.5:
                op.append({"rb": True})
            if k < len(s.states) and not s.op_ok(op):
                s.apply(["revert", k])
                return
        s.apply(op)

    def fork_pending(k):
        return s.states[k]._last_fork is not None

    if rng.random() < (0.5 if malformed else 0.8):
        s.apply(["mode", 0, rng.choice(["REF", "REF", "COPY", None])])
    p_init = 0.4 if malformed else 0.92
    for n in sett:
        if rng.random() < p_init:
            s.apply(["set", 0, n, rand_value(rng, G, n)])
    def raiser(k):
        """one operation that raises: unknown name, non-settable assignment, read of a variable whose ancestor is unset,
        accumulating put on an unset variable, revert without fork, index out of range (IndexError: the crash class)"""
        st = s.states[k]
        cands = [[["get", k, UNKNOWN]], [["set", k, UNKNOWN, 1]], [["isset", k, UNKNOWN]]]
        if non_sett:
            n = rng.choice(non_sett)
            cands.append([["set", k, n, rand_value(rng, G, n)]])
        if sett:
            n = rng.choice(sett)
            kids = [c for c in G.dag.sorted_children[n]]
            if kids:
                cands.append([["set", k, n, None], ["get", k, rng.choice(kids)]])
            cands.append([["set", k, n, None], ["put", k, n, None, rand_value(rng, G, n, True), True]])
            cands.append([["put", k, n, rng.choice([G.n_ind, G.n_ind + 2]), rng.randint(-3, 3), rng.random() < 0.5]])
            # an un-forked assignment drops the fork, the revert that follows is refused (only inside auto_fork(None))
            cands.append([["mode", k, None], ["set", k, n, rand_value(rng, G, n)], ["revert", k]])
        if st._last_fork is None:
            cands.append([["revert", k]])
        return rng.choice(cands)

    def gen_body(k, depth):
        body = []
        cloned = False
        for _ in range(rng.randint(0, 4)):
            kk = k if rng.random() < 0.85 else pick_state()
            c = rng.random()
            if c < 0.25:
                body.append(["get", kk, rng.choice(names)])
            elif c < 0.47 and sett:
                n = rng.choice(sett)
                body.append(["set", kk, n, rand_value(rng, G, n)])
            elif c < 0.58 and sett:
                n = rng.choice(sett)
                if s.states[kk]._values[n] is not None:
                    body.append(["put", kk, n, None, rand_value(rng, G, n, True), True])
            elif c < 0.66:
                body.append(["revert", kk])
            elif c < 0.74:
                body.append(["look", kk])
            elif c < 0.84 and depth < 2:
                body.append(["scoped", kk, rng.choice([None, "REF", "COPY", None]), gen_body(kk, depth + 1)])
            elif c < 0.89:
                body.append(["mode", kk, rng.choice(["REF", "COPY", None])])     # overwritten when the block is left
            elif c < 0.93 and not cloned and len(s.states) < max_states and depth == 0:
                body.append(["clone", kk, rng.random() < 0.3, rng.random() < 0.5])
                cloned = True
            elif c < 0.96:
                body.append(["precompute", kk])
        if rng.random() < (0.6 if depth == 0 else 0.3):
            pos = len(body) if rng.random() < 0.6 else rng.randint(0, len(body))
            body[pos:pos] = raiser(k)
        return body

    def scoped_shape(k):
        """a fork is pending; `with auto_fork(m)` whose body (often) raises; then — the exception caught — an assignment,
        reads, the decision (full or per-individual revert), reads: what a sampler does after a failed block"""
        st = s.states[k]
        if sett and st.auto_fork_type is not None and rng.random() < 0.7:
            n = rng.choice(sett)
            if st._values[n] is not None:
                s.apply(["put", k, n, None, rand_value(rng, G, n, True), True])
            else:
                s.apply(["set", k, n, rand_value(rng, G, n)])
        s.apply(["scoped", k, rng.choice([None, None, None, "REF", "COPY"]), gen_body(k, 0)])
        if rng.random() < 0.4:
            s.apply(["look", k])
        if not sett:
            return
        n = rng.choice(sett)
        ind = G.by_name[n]["kind"] == "ind"
        if st._values[n] is None or rng.random() < 0.4:
            s.apply(["set", k, n, rand_value(rng, G, n)])
        else:
            s.apply(["put", k, n, None, rand_value(rng, G, n, True), True])
        readable = [m for m in names if G.axis(m)] if ind else names
        for _ in range(rng.randint(0, 2)):
            if readable:
                s.apply(["get", k, rng.choice(readable)])
        d = rng.random()
        if d < 0.5 or (d < 0.6 and not fork_pending(k)):
            s.apply(["revert", k])
        elif d < 0.8 and ind and fork_pending(k):
            revmask(k)
        for _ in range(rng.randint(1, 2)):
            s.apply(["get", k, rng.choice(names)])

    def alias_shape(k):
        """`tgt` is assigned the tensor object `src` holds (or a view of it): same state, or the same / another variable of another state;
        a population scalar expanded along the individual axis.  Then 1-3 puts on either side — indexed (assign / accumulate) or full
        accumulate — with auto-fork off / REF / COPY (mode assigned, or `with auto_fork(m)`), reads of both variables and of descendants
        after each, sometimes the decision (revert) and reads again."""
        st = s.states[k]
        cands = []
        for tgt in sett:
            for sk in range(len(s.states)):
                for src in sett:
                    if (sk, src) == (k, tgt) or s.states[sk]._values[src] is None:
                        continue
                    ti, si = G.by_name[tgt]["kind"] == "ind", G.by_name[src]["kind"] == "ind"
                    if ti == si:
                        cands += [(tgt, sk, src, h) for h in ("same", "view", "bcast")]
                    elif ti:
                        cands.append((tgt, sk, src, "expand"))
        if not cands:
            return False
        ind_c = [c for c in cands if G.by_name[c[0]]["kind"] == "ind" and c[3] != "expand"]
        tgt, sk, src, how = rng.choice(ind_c if (ind_c and rng.random() < 0.8) else cands)
        m0 = rng.choice([None, None, "REF", "COPY"])
        s.apply(["mode", k, m0])
        if rng.random() < 0.5:
            for n in rng.sample(names, min(len(names), 2)):
                s.apply(["get", k, n])
        s.apply(["set", k, tgt, val_json(s.states[sk]._values[src]), {"alias": [sk, src, how]}])
        related = [tgt] + list(G.dag.sorted_children[tgt]) + ([src] + list(G.dag.sorted_children[src]) if src != tgt else [])
        for n in rng.sample(related, min(len(related), rng.randint(1, 3))):
            s.apply(["get", rng.choice([k, sk]), n])
        for _ in range(rng.randint(1, 3)):
            kk, n = rng.choice([(k, tgt), (k, tgt), (sk, src)])
            if s.states[kk]._values[n] is None:
                continue
            if G.by_name[n]["kind"] == "ind" and rng.random() < 0.8:
                put = ["put", kk, n, rng.randrange(G.n_ind), rng.randint(-3, 3) or 2, rng.random() < 0.6]
            else:
                put = ["put", kk, n, None, rand_value(rng, G, n, True), True]
            m = rng.choice([None, None, None, "REF", "COPY"])
            c = rng.random()
            if c < 0.35 and scoped:
                s.apply(["scoped", kk, m, [put] + ([["get", kk, rng.choice(related)]] if rng.random() < 0.5 else [])])
            elif c < 0.7:
                s.apply(["mode", kk, m])
                s.apply(put)
            else:
                s.apply(put)
            for n2 in rng.sample(related, min(len(related), rng.randint(1, 3))):
                s.apply(["get", rng.choice([k, sk]), n2])
            if fork_pending(kk) and rng.random() < 0.3:
                s.apply(["revert", kk])
                s.apply(["get", k, rng.choice(related)])
        if len(s.states) < max_states and rng.random() < 0.3:
            # State.clone keeps the sharing INSIDE the clone (one deepcopy): the same puts on the clone, auto-fork disabled
            s.apply(["clone", k, True, False])
            kc = len(s.states) - 1
            if s.states[kc]._values[tgt] is not None and G.by_name[tgt]["kind"] == "ind":
                s.apply(["put", kc, tgt, rng.randrange(G.n_ind), rng.randint(1, 3), rng.random() < 0.6])
                for n2 in related:
                    s.apply(["get", kc, n2])
        return True

    while len(s.records) < length:
        k = pick_state()
        st = s.states[k]
        if alias and rng.random() < alias and alias_shape(k):
            continue
        if scoped and rng.random() < 0.07:
            scoped_shape(k)
            continue
        r = rng.random()
        if malformed and r < 0.22:
            c = rng.randrange(8)
            if c == 0:
                s.apply(["get", k, UNKNOWN])
            elif c == 1 and non_sett:
                n = rng.choice(non_sett)
                s.apply(["set", k, n, rand_value(rng, G, n)])
            elif c == 2:
                s.apply(["set", k, UNKNOWN, 1])
            elif c == 3:
                s.apply(["revert", k])
            elif c == 4 and sett:
                n = rng.choice(sett)
                s.apply(["put", k, n, rng.choice([G.n_ind, G.n_ind + 2, 0]), rng.randint(-3, 3), rng.random() < 0.5])
            elif c == 5 and names:
                n = rng.choice(names)
                s.apply(["put", k, n, None, rand_value(rng, G, n, True), True])
            elif c == 6:
                s.apply(["isset", k, UNKNOWN])
            elif c == 7 and sett:
                revmask(k)
            continue
        if r < 0.30:
            s.apply(["get", k, rng.choice(names)])
        elif r < 0.48 and sett:
            # sampler-shaped step: proposal, reads, decision
            n = rng.choice(sett)
            ind = G.by_name[n]["kind"] == "ind"
            if st._values[n] is None:
                s.apply(["set", k, n, rand_value(rng, G, n)])
                continue
            if G.weighted and ind and rng.random() < 0.75:
                # weighted graphs: cache per-individual descendants (the weighted nodes among them) BEFORE the proposal too, so that the
                # decision meets doubly cached WeightedTensor nodes
                below = [m for m in G.dag.sorted_children[n] if G.axis(m)]
                for m in rng.sample(below, min(len(below), rng.randint(1, 3))):
                    s.apply(["get", k, m])
            if ind and rng.random() < 0.3:
                s.apply(["put", k, n, rng.randrange(G.n_ind), rng.randint(-3, 3), rng.random() < 0.8])
            else:
                s.apply(["put", k, n, None, rand_value(rng, G, n, not G.weighted), True])     # weighted graphs: moves that cross thresholds
            readable = [m for m in names if G.axis(m)] if (ind and rng.random() < 0.85) else names
            if G.weighted and ind and rng.random() < 0.75:
                below = [m for m in G.dag.sorted_children[n] if G.axis(m)]
                for m in rng.sample(below, min(len(below), rng.randint(1, 3))):
                    s.apply(["get", k, m])
            for _ in range(rng.randint(0, 3)):
                if readable:
                    s.apply(["get", k, rng.choice(readable)])
            d = rng.random()
            if G.weighted and ind and d < 0.35 and rng.random() < 0.6:
                d = 0.5                 # weighted graphs: more per-individual decisions
            if fork_pending(k):
                if d < 0.35:
                    s.apply(["revert", k])
                elif d < 0.75 and ind:
                    revmask(k)
        elif r < 0.58 and sett:
            n = rng.choice(sett)
            s.apply(["set", k, n, None if rng.random() < 0.06 else rand_value(rng, G, n)])
        elif r < 0.64 and sett:
            n = rng.choice(sett)
            if G.by_name[n]["kind"] == "ind" and rng.random() < 0.5:
                s.apply(["put", k, n, rng.randrange(G.n_ind), rng.randint(-3, 3), rng.random() < 0.5])
            else:
                s.apply(["put", k, n, None, rand_value(rng, G, n, True), rng.random() < 0.6])
        elif r < 0.70:
            s.apply(["revert", k]) if (fork_pending(k) or rng.random() < 0.1) else s.apply(["get", k, rng.choice(names)])
        elif r < 0.74:
            if fork_pending(k):
                revmask(k)
            else:
                s.apply(["isset", k, rng.choice(names)])
        elif r < 0.80:
            if len(s.states) < max_states:
                s.apply(["clone", k, rng.random() < 0.3, rng.random() < 0.4])
            else:
                s.apply(["get", k, rng.choice(names)])
        elif r < 0.86:
            s.apply(["mode", k, rng.choice(["REF", "COPY", None, "REF"])])
        elif r < 0.90:
            s.apply(["precompute", k])
        elif r < 0.935 and sett and fork_pending(k):
            # the shape of finding F1: auto-fork switched off while a fork is pending, an assignment, then a revert
            # (refused with "no fork to revert from" since 27ac519; restored a stale undo log before) and reads
            s.apply(["mode", k, None])
            n = rng.choice(sett)
            if st._values[n] is None or rng.random() < 0.5:
                s.apply(["set", k, n, rand_value(rng, G, n)])
            elif G.by_name[n]["kind"] == "ind" and rng.random() < 0.4:
                s.apply(["put", k, n, rng.randrange(G.n_ind), rng.randint(-3, 3), rng.random() < 0.7])
            else:
                s.apply(["put", k, n, None, rand_value(rng, G, n, True), True])
            for _ in range(rng.randint(0, 2)):
                s.apply(["get", k, rng.choice(names)])
            if G.by_name[n]["kind"] == "ind" and rng.random() < 0.35:
                revmask(k)
            else:
                s.apply(["revert", k])
            for _ in range(rng.randint(1, 2)):
                s.apply(["get", k, rng.choice(names)])
            if rng.random() < 0.7:
                s.apply(["mode", k, rng.choice(["REF", "COPY"])])
        elif r < 0.985:
            s.apply(["isset", k, rng.choice(names)])
        else:
            s.apply(["clear", k])
    # final sweep: the cache contents themselves (is_variable_set on every node of every state)
    for k in range(len(s.states)):
        for n in names:
            s.apply(["isset", k, n])
    return s


def nontrivial(ops):
    """a read after a second assignment to the same state, a revert or a clone"""
    sets = {}
    seen = False
    for op in flat_ops(ops):
        if op[0] in ("set", "put"):
            sets[op[1]] = sets.get(op[1], 0) + 1
        if op[0] in ("revert", "revmask", "clone"):
            seen = True
        if op[0] == "get" and (seen or sets.get(op[1], 0) >= 2):
            return True
    return False


def _variants(op):
    """smaller versions of one operation: a scoped block with one operation of its body removed / shrunk"""
    if op[0] != "scoped":
        return
    body = op[3]
    for j in range(len(body) - 1, -1, -1):
        yield [op[0], op[1], op[2], body[:j] + body[j + 1:]]
        for v in _variants(body[j]):
            yield [op[0], op[1], op[2], body[:j] + [v] + body[j + 1:]]


def shrink(G, ops, still_fails, max_rounds=6):
    """Delete operations one at a time (also inside scoped blocks) while `still_fails(ops)` holds."""
    ops = list(ops)
    for _ in range(max_rounds):
        changed = False
        i = len(ops) - 1
        while i >= 0:
            cands = [ops[:i] + ops[i + 1:]] + [ops[:i] + [v] + ops[i + 1:] for v in _variants(ops[i])]
            for cand in cands:
                try:
                    if cand and still_fails(cand):
                        ops = cand
                        changed = True
                        break
                except Exception:  # noqa
                    pass
            i -= 1
        if not changed:
            break
    return ops


# ----------------------------------------------------------------------------- n-d values (State/StateNdExec.v)
#
# Values with a trailing shape: nested lists of exact atoms.  Coq: `tens` (T0 atom | TL rows), `nval` (NP | NW value weight | NBad).


def is_off(a):
    return isinstance(a, list) and len(a) == 2 and a[0] == "off"


def nest_json(x):
    """nested python list of numbers (tensor.tolist()) -> nested list of exact atoms"""
    if isinstance(x, list):
        return [nest_json(y) for y in x]
    return atom_json(x)


def nest_py(v):
    if isinstance(v, list) and not is_off(v):
        return [nest_py(y) for y in v]
    return atom_py(v)


def tens_coq(v):
    if isinstance(v, list) and not is_off(v):
        return "(TL [" + "; ".join(tens_coq(y) for y in v) + "])"
    return f"(T0 {atom_coq(v)})"


def nval_json(t):
    """tensor -> {"t": nested}; WeightedTensor -> {"v": nested, "w": nested | None, "wdt": dtype of the weight}; None -> None"""
    if t is None:
        return None
    if hasattr(t, "weighted_value"):
        w = t.weight
        return {"v": nest_json(t.value.tolist()), "w": None if w is None else nest_json(w.tolist()),
                "wdt": None if w is None else str(w.dtype).replace("torch.", "")}
    return {"t": nest_json(t.tolist())}


def nval_coq(j):
    if not isinstance(j, dict):
        return "NBad"
    if "t" in j:
        return f"(NP {tens_coq(j['t'])})"
    if "v" in j:
        return f"(NW {tens_coq(j['v'])} {'None' if j.get('w') is None else '(Some ' + tens_coq(j['w']) + ')'})"
    return "NBad"


def nval_tensor(j, dtype="int64"):
    """the real value described by {"t": ..} / {"v": .., "w": .., "wdt": ..}"""
    import torch
    from leaspy.utils.weighted_tensor import WeightedTensor
    dt = {"int64": torch.int64, "float64": torch.float64, "float32": torch.float32, "bool": torch.bool}
    if "t" in j:
        return torch.tensor(nest_py(j["t"]), dtype=dt[dtype])
    v = torch.tensor(nest_py(j["v"]), dtype=dt[dtype])
    if j.get("w") is None:
        return WeightedTensor(v)
    return WeightedTensor(v, torch.tensor(nest_py(j["w"]), dtype=dt[j.get("wdt") or "bool"]))


def nest_shape(v):
    s = []
    while isinstance(v, list) and not is_off(v):
        s.append(len(v))
        v = v[0] if v else None
    return s


def nmask_coq(mask, rb=True):
    return f"({'true' if rb else 'false'}, [{'; '.join('true' if b else 'false' for b in mask)}])"


def _rand_nest(rng, shape, lo, hi):
    if not shape:
        return rng.randint(lo, hi)
    return [_rand_nest(rng, shape[1:], lo, hi) for _ in range(shape[0])]


def nest_kind(j):
    return "plain" if "t" in j else ("weighted:none" if j.get("w") is None else "weighted")


def select_contract(old, cur, mask, rb, fill="ones"):
    """is the call inside the documented contract of `revert(subset)` — computed from the shapes alone: same shapes, at least one
    axis, exactly one mask entry per index of the axis the mask is aligned on.  With the old rule of `_select` (`fill="other"`) the two sides
    also had to be of the same kind (a side without weight took the other side's weight: not a selection)."""
    so, sc = nest_shape(old.get("t", old.get("v"))), nest_shape(cur.get("t", cur.get("v")))
    if so != sc or not so or (fill != "ones" and nest_kind(old) != nest_kind(cur)):
        return False
    return so[0 if rb else -1] == len(mask)


def _ones_like(w):
    return [_ones_like(x) for x in w] if isinstance(w, list) else 1


def select_reference(old, cur, mask, rb):
    """the documented result inside the contract, computed on nested lists: right-broadcasting -> row i from the forked side where
    mask[i]; right_broadcasting=False -> entry i of every innermost vector; a side without weights counts as fully weighted (weight 1
    everywhere) as soon as the other side has weights.  Returned in the form of `nval_json` ({"t"} | {"v", "w"})."""
    def sel(o, c, depth):
        if depth == 0:
            return [o[i] if mask[i] else c[i] for i in range(len(mask))]
        return [sel(a, b, depth - 1) for a, b in zip(o, c)]
    ov, cv = old.get("t", old.get("v")), cur.get("t", cur.get("v"))
    d = 0 if rb else len(nest_shape(ov)) - 1
    if "t" in old and "t" in cur:
        return {"t": sel(ov, cv, d)}
    ow, cw = old.get("w"), cur.get("w")
    if ow is None and cw is None:
        return {"v": sel(ov, cv, d), "w": None}
    ow = _ones_like(cw) if ow is None else ow
    cw = _ones_like(ow) if cw is None else cw
    return {"v": sel(ov, cv, d), "w": sel(ow, cw, d)}


def select_cases(rng):
    """Directed `revert(subset, right_broadcasting=rb)` calls on a value held on both sides: shapes (), (3,), (3,1), (3,2), (2,3,2), (1,2),
    (2,2) x masks of length 1, 2, 3 (ALL masks) x both alignments x kinds of value (plain; boolean weights; NON-boolean weights;
    weight=None; weighted on one side only, both ways; weight=None against weights) + the two sides with different shapes."""
    import itertools
    shapes = [[], [3], [3, 1], [3, 2], [2, 3, 2], [1, 2], [2, 2]]
    kinds = [("plain", "plain"), ("wbool", "wbool"), ("wint", "wint"), ("wnone", "wnone"), ("plain", "wint"), ("wbool", "plain"),
             ("wnone", "wint"), ("wbool", "wnone")]

    def mk(kind, shape):
        v = _rand_nest(rng, shape, -9, 9)
        if kind == "plain":
            return {"t": v}
        if kind == "wnone":
            return {"v": v, "w": None, "wdt": None}
        if kind == "wbool":
            return {"v": v, "w": _rand_nest(rng, shape, 0, 1), "wdt": "bool"}
        return {"v": v, "w": _rand_nest(rng, shape, 0, 4), "wdt": "int64"}
    cases = []
    for shape in shapes:
        for ko, kc in kinds:
            old, cur = mk(ko, shape), mk(kc, shape)
            for k in (1, 2, 3):
                for mask in itertools.product([True, False], repeat=k):
                    for rb in (True, False):
                        cases.append(dict(old=old, cur=cur, mask=list(mask), rb=rb))
    for so, sc in (([2, 2], [2]), ([3], [3, 1]), ([2, 3], [3, 2]), ([], [1]), ([2, 2], [2, 2, 1])):
        for ko, kc in (("plain", "plain"), ("wbool", "wbool")):
            for rb in (True, False):
                cases.append(dict(old=mk(ko, so), cur=mk(kc, sc), mask=[True, False], rb=rb))
    return cases


SELECT_DAG = None


def exec_select(case):
    """run one case on a real State: x := old (forked), x := cur, revert(mask, right_broadcasting=rb); returns
    (observed value of x | None when the call raised, exception class, is _last_fork None afterwards)"""
    import torch
    from leaspy.variables.dag import VariablesDAG
    from leaspy.variables.specs import DataVariable, LinkedVariable
    from leaspy.variables.state import State, StateForkType
    global SELECT_DAG
    if SELECT_DAG is None:
        SELECT_DAG = VariablesDAG.from_dict({"x": DataVariable(), "y": LinkedVariable(lambda *, x: x)})
    st = State(SELECT_DAG, auto_fork_type=StateForkType.REF)
    st["x"] = nval_tensor(case["old"])
    st["x"] = nval_tensor(case["cur"])
    try:
        st.revert(torch.tensor(case["mask"], dtype=torch.bool), right_broadcasting=bool(case["rb"]))
    except Exception as e:  # noqa: the refusals are part of the model (AssertionError of revert, RuntimeError of torch)
        return None, type(e).__name__, st._last_fork is None
    return nval_json(st._values["x"]), None, st._last_fork is None


SELECT_HEADER = ("From Coq Require Import ZArith List Bool.\nFrom Leaspy Require Import State.StateModel State.StateExec State.StateWExec "
                 "State.StateNdExec.\nImport ListNotations.\nOpen Scope Z_scope.\nOpen Scope nat_scope.\n")
SELECT_CASE_TYPE = "nmask * nval * nval * option nval * bool"
SELECT_SIG = "partial-revert:nd-selection-differs-from-documented-rows"
# finding: `_select` gives the rows of a side that has NO weight (plain tensor / WeightedTensor(weight=None)) the OTHER side's weight
ONE_SIDED_SIG = "partial-revert:side-without-weight-takes-the-other-sides-weight"


def detect_select_fill_variant():
    """What does `_select` (state.py) give a side WITHOUT weights when the other side has some?

    Returns `(fill, detail)`: `"ones"`  — all ones of the other side's weight (`torch.ones_like(...)`: "a side that carries no weights is fully
                                          weighted"; the code since the repair; Coq: nselect / nselect_torch),
                              `"other"` — the OTHER side's weight (the code before; finding `ONE_SIDED_SIG`; Coq: nselect_old / nselect_torch_old),
                              `None`    — not recognised (fail closed).
    Two independent views that have to agree:
      (a) the source of `_select`: exactly two conditional assignments `X = A.weight if A.weight is not None else E`; in both `E` is
          `torch.ones_like(B.weight)`, or in both `E` is `B.weight` (B the other side);
      (b) probes on a real State: x = WeightedTensor([5,7]) -> WeightedTensor([1,2],[F,T]), individual 0 rejected: weight [T,T] or [F,T];
          x = [1,2] (plain) -> WeightedTensor([10,20],[0,3]), individual 1 rejected: weight [0,1] or [0,3]."""
    import ast
    import inspect
    import textwrap
    detail = dict(source=None, probe_none=None, probe_plain=None)
    try:
        from leaspy.variables import state as state_mod
        fn = ast.parse(textwrap.dedent(inspect.getsource(state_mod._select))).body[0]
        kinds = []
        for n in ast.walk(fn):
            if isinstance(n, ast.Assign) and isinstance(n.value, ast.IfExp):
                e = n.value
                body, test, other = ast.unparse(e.body), ast.unparse(e.test), e.orelse
                if not body.endswith(".weight"):
                    continue                # `old_w = old_v if isinstance(old_v, WeightedTensor) else WeightedTensor(old_v)`: not about weights
                if test != f"{body} is not None":
                    kinds.append("?")
                    continue
                side = body[:-len(".weight")]
                o = ast.unparse(other)
                if isinstance(other, ast.Call) and ast.unparse(other.func) == "torch.ones_like" and len(other.args) == 1 and not other.keywords \
                        and ast.unparse(other.args[0]).endswith(".weight") and ast.unparse(other.args[0]) != body:
                    kinds.append("ones")
                elif o.endswith(".weight") and o != body and isinstance(other, ast.Attribute):
                    kinds.append("other")
                else:
                    kinds.append("?")
        detail["source_assignments"] = kinds
        if len(kinds) == 2 and kinds[0] == kinds[1] and kinds[0] in ("ones", "other"):
            detail["source"] = kinds[0]
    except Exception as e:  # noqa
        detail["source_error"] = f"{type(e).__name__}: {e}"
    try:
        c1 = dict(old={"v": [5, 7], "w": None, "wdt": None}, cur={"v": [1, 2], "w": [0, 1], "wdt": "bool"}, mask=[True, False], rb=True)
        o1, _, _ = exec_select(c1)
        detail["probe_none_value"] = o1
        if o1 is not None and o1.get("v") == [5, 2]:
            detail["probe_none"] = {(1, 1): "ones", (0, 1): "other"}.get(tuple(o1.get("w") or ()))
        c2 = dict(old={"t": [1, 2]}, cur={"v": [10, 20], "w": [0, 3], "wdt": "int64"}, mask=[False, True], rb=True)
        o2, _, _ = exec_select(c2)
        detail["probe_plain_value"] = o2
        if o2 is not None and o2.get("v") == [10, 2]:
            detail["probe_plain"] = {(0, 1): "ones", (0, 3): "other"}.get(tuple(o2.get("w") or ()))
    except Exception as e:  # noqa
        detail["probe_error"] = f"{type(e).__name__}: {e}"
    views = (detail["source"], detail["probe_none"], detail["probe_plain"])
    fill = views[0] if (views[0] is not None and views[0] == views[1] == views[2]) else None
    detail["fill"] = fill
    return fill, detail


CLAIMED_FILL = "ones"       # the rule the theorems of Props/C01.v / Props/C02.v on n-d values (nselect, nsem) are about


def one_sided_trace(case, observed):
    """a call torch accepts in which one side has weights and the other has none, shapes and mask otherwise inside the contract: the entries
    taken from the side WITHOUT weight (all of them valid there) whose weight in the result is 0 — they are masked by the weight of the
    side they were NOT taken from.  Returns the list of such index paths (empty: nothing to report)."""
    ko, kc = nest_kind(case["old"]), nest_kind(case["cur"])
    if (ko == "weighted") == (kc == "weighted") or observed is None or observed.get("w") is None:
        return []
    so, sc = nest_shape(case["old"].get("t", case["old"].get("v"))), nest_shape(case["cur"].get("t", case["cur"].get("v")))
    if so != sc or not so or so[0 if case["rb"] else -1] != len(case["mask"]):
        return []
    from_old_has_none = ko != "weighted"
    out = []

    def walk(w, path):
        if isinstance(w, list):
            for i, x in enumerate(w):
                walk(x, path + [i])
            return
        pos = path[0] if case["rb"] else path[-1]
        taken_from_old = bool(case["mask"][pos])
        if taken_from_old == from_old_has_none and w == 0:
            out.append(path)
    walk(observed["w"], [])
    return out


def select_case_coq(case, observed, fill="ones"):
    obs = "None" if observed is None else f"(Some {nval_coq(observed)})"
    return (f"({nmask_coq(case['mask'], case['rb'])}, {nval_coq(case['old'])}, {nval_coq(case['cur'])}, {obs}, "
            f"{'true' if select_contract(case['old'], case['cur'], case['mask'], case['rb'], fill) else 'false'})")


SELECT_CHECKER = {"ones": "check_nselect", "other": "check_nselect_old"}


def settle_select_variant(run, report_tie=True):
    """recognise the rule of `_select` for a side without weights (fail closed); returns the variant the tie is made with"""
    fill, detail = detect_select_fill_variant()
    run.extra["select_fill_variant"] = detail
    run.count("select_fill_variant", {"ones": "a side without weights is fully weighted: torch.ones_like (since the repair)",
                                      "other": "a side without weights takes the OTHER side's weight (before the repair)", None: "not recognised"}[fill])
    if fill is None:
        run.broken("translate:_select", "the rule `_select` applies to a side WITHOUT weights was not recognised (source shape and probes on a real State "
                   f"must agree): {json_key(detail)}", kind="broken-translation")
        return CLAIMED_FILL
    if fill != CLAIMED_FILL and report_tie:
        run.broken("tie:_select", "`_select` of the tree under test gives a side without weights the OTHER side's weight (the rule before the repair): that is "
                   "not a selection, F_mix does not hold for pairs of different kinds and the theorems of Props/C02.v on n-d values (nselect, nsem: a side "
                   "without weights is fully weighted) do not describe this code.  The tie of this run is made against nselect_torch_old / nselect_old so "
                   "that the search reports the changed row itself.", kind="broken-correspondence")
    return fill


def directed_select(run):
    """the tie of `nselect_torch` / `nselect` (State/StateNdExec.v; `nselect_torch_old` / `nselect_old` when the tree under test still has the
    old rule for a side without weights) with `State.revert` + `_select`, and the implementation-side oracle for the calls inside the contract
    (rows / last-axis entries computed on nested lists; a side without weights is fully weighted)"""
    fill = settle_select_variant(run)
    cases = select_cases(run.rng("directed-select"))
    coq, stats = [], {}
    reported = False
    for c in cases:
        observed, exc, fork_none = exec_select(c)
        inside = select_contract(c["old"], c["cur"], c["mask"], c["rb"], "ones")
        shape = nest_shape(c["old"].get("t", c["old"].get("v")))
        key = (f"{'inside' if inside else 'outside'} the contract; {'refused: ' + exc if observed is None else 'accepted'}")
        stats[key] = stats.get(key, 0) + 1
        run.count("nd_select", f"shape {tuple(shape)}, right_broadcasting={c['rb']}: {key}")
        if inside and nest_kind(c["old"]) != nest_kind(c["cur"]):
            run.count("nd_select", "inside the contract, the two sides of different kinds (plain / weighted / weighted without weights)")
        run.case(("nd-select", json_key(c)), nontrivial=len(shape) >= 2 or nest_kind(c["old"]) != "plain")
        coq.append(select_case_coq(c, observed, fill))
        masked = one_sided_trace(c, observed)
        if masked:
            run.count("nd_select", "one side without weight: valid entries masked by the other side's weight")
            run.fail(ONE_SIDED_SIG, "revert(subset) on a value that is a WeightedTensor WITH weights on one side and has no weight on the other "
                     "(plain tensor or WeightedTensor(weight=None): every entry valid): `_select` gives the rows taken from the side "
                     "without weight the weight of the OTHER side, so a reverted (or kept) row is not what it was: entries that were valid now have "
                     "weight 0, `weighted_value` and every cached value derived from it differ from the from-scratch evaluation "
                     "(Coq witness on the model of that rule: C02_one_sided_weight_old_refuted)", dict(select=c),
                     expected="the entries taken from the side without weight stay valid (weight 1 / True)",
                     observed=dict(value=observed, entries_masked_by_the_other_sides_weight=masked[:6]))
            reported = True
        if inside:
            ref = select_reference(c["old"], c["cur"], c["mask"], c["rb"])
            got = None if observed is None else {k: observed.get(k) for k in ref}
            if (got != ref or not fork_none) and not masked:
                # two sides of different kinds whose weights are wrong without a valid entry being masked (e.g. weight 3 instead of 1): the
                # same defect as ONE_SIDED_SIG (the side without weights took the other side's weight)
                one_sided = nest_kind(c["old"]) != nest_kind(c["cur"]) and fork_none and observed is not None
                run.fail(ONE_SIDED_SIG if one_sided else SELECT_SIG, ("revert(subset) on a value that has weights on one side and none on the other (plain tensor or "
                         "WeightedTensor(weight=None): every entry valid): the rows taken from the side without weights do not have weight 1 — `_select` gave them the "
                         "OTHER side's weight (Coq witness on the model of that rule: C02_one_sided_weight_old_refuted).  " if one_sided else "") +
                         "revert(subset, right_broadcasting) on a value with a trailing shape held on both sides: the value left in the "
                         "state is not 'the forked row where the subset says revert, the current row elsewhere' (right-broadcasting) / 'entry i of every "
                         "innermost vector from the forked side where subset[i]' (right_broadcasting=False), for the value or for the WEIGHT of a "
                         "WeightedTensor (a side without weights counting as weight 1 everywhere); or the call was refused / left _last_fork in place",
                         dict(select=c), expected=ref, observed=dict(value=observed, raised=exc, last_fork_cleared=fork_none))
    bad = run.vm_bad_indices("nd_select", SELECT_HEADER, SELECT_CASE_TYPE, coq, SELECT_CHECKER[fill], shard=400)
    for i in (bad or [])[:3]:
        c = cases[i]
        observed, exc, _ = exec_select(c)
        run.fail("model-vs-code:nselect", "State.revert(subset, right_broadcasting) and the Coq model of `_select` on n-d values (nselect_torch: "
                 "broadcasting and refusals included; nselect: its restriction to the contract) disagree: the theorems on n-d values no longer "
                 "speak about this code", dict(select=c), expected=f"{SELECT_CHECKER[fill]} (coq/tmp/cases_*_nd_select_*.v)",
                 observed=dict(value=observed, raised=exc), kind="broken-correspondence")
    run.extra["nd_select_cases"] = dict(n=len(cases), by_outcome=stats, model_variant=fill)
    if fill == "other" and not reported:
        run.broken("generator:nd-select-shape", "the tree under test has the old rule of `_select` but no directed call shows a valid entry masked by the "
                   "other side's weight", kind="broken-correspondence")
    if not any(k.startswith("inside") and "accepted" in k for k in stats) or not any("refused: AssertionError" in k for k in stats) \
            or not any("refused: RuntimeError" in k for k in stats) or not any(k.startswith("outside") and "accepted" in k for k in stats):
        run.broken("generator:nd-select-shape", f"the directed revert calls no longer reach every outcome class: {stats}", kind="broken-correspondence")
    return bad


def json_key(o):
    import json
    return json.dumps(o, sort_keys=True, default=str)
