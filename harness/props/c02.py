"""C02 — a rejected proposal leaves no trace in the state."""
from __future__ import annotations

import itertools
import json

INF = float("inf")

from harness.common import Run
from harness.props import state_toy as T

META = dict(
    technique="Coq theorems on C01's line-by-line model of state.py (full revert restores every cached value and every read; partial "
              "revert = entry-wise mix of the forked sub-graph, cache invariant kept, aggregated descendants unset; simulation over "
              "ALL state operations: states with the same independent values answer every later history identically) and on the "
              "sampler steps written as scripts over that model; the model's step function is run inside Coq (vm_compute) on the "
              "sampler-shaped histories executed by the real State, for every rejection mask; reference-state oracle on the real "
              "State and on real Gibbs sampler steps of fitted shipped models, with directed non-finite proposals; directed real-sampler steps around "
              "the NaN acceptance ratio (one individual with a non-evaluable proposal, every other one a null move: one-individual states and forced "
              "normal draws, also population blocks) incl. the undo log being consumed by the decision; sampler-shaped toy histories on graphs with "
              "WeightedTensor nodes whose weight is computed from the sampled variable (State/StateWExec.v: value AND weight selected row by row)",
    level_text="For every value type, well-formed graph, forked proposal, set of reads and later history: after revert() every value "
               "cached before the proposal is exactly back and every later operation answers as if the proposal had never been made; "
               "after revert(mask) under the documented preconditions (per-individual variable, reads of per-individual nodes only, "
               "consistent shapes, row-wise node functions) each doubly cached node of the forked sub-graph is the entry-wise mix, "
               "aggregated nodes are unset, the cache is consistent and the state is equivalent to one where the mixed value was "
               "assigned directly; population / individual sampler steps leave exactly the accepted proposals, for every decision "
               "rule. With mix = torch.where (proposed repair) this holds for all values incl. inf/NaN; for the code's "
               "old*mask+cur*~mask it is proved on finite values only and refuted otherwise (finding F2, witness replayed).",
    level_note="Trusted: Coq kernel (all theorems closed under the global context); the hand-written State model's tie is the executed "
               "correspondence (toy graphs as real LinkedVariables, exact integers/inf/NaN); WF g is a hypothesis of the generic theorems, PROVED from C15's theorems for every graph built by the "
               "modelled DAG constructor (C02_full_revert_built, C02_pop_step_built) and recomputed by wf_b on every graph of the tie; "
               "F_mix (row-wise node functions) is PROVED from C07's op-kind semantics for every op-kind and any number of parents "
               "(C02_F_mix_opkinds), for one-parent entry-wise toy functions and, on n-d values (per-individual values with a trailing shape, plain or weighted, "
               "right_broadcasting both ways: State/StateNdExec.v), for the whole entry-wise toy vocabulary incl. multi-parent functions of weighted parents "
               "(C02_partial_revert_nd); what revert(subset, right_broadcasting) does to such a value — rows, last-axis entries, refusals, the shape-changing "
               "calls torch accepts outside the contract — is proved (C02_nd_*) and compared with 1 588 directed calls on real states inside Coq; "
               "former finding, fixed in /repo: a side without weight took the other side's weight (C02_one_sided_weight_old_refuted on the old model instance; "
               "the rule of the tree under test is recognised on every run, an old-rule tree is reported as a violation); and the closure condition on the reads follows from the "
               "well_typed checker (C02_partial_revert_well_typed, C02_ind_step_well_typed: docs/Compose.md); for other node functions "
               "F_mix stays a hypothesis, validated by execution on multi-parent toy graphs and, bit-for-bit, on the real model graphs; "
               "is_variable_set on a derived variable is exempt from 'as if never proposed' (it reports cache content); the "
               "one-level undo log of an EARLIER assignment is consumed by a rejection (by design of revert); torch kernels, "
               "deepcopy and REF aliasing under in-place mutation are outside the model (covered by the snapshot oracle only).",
    design_ref="DESIGN.md section 4 C02, section 6 F2",
)

OBLIGATIONS = [
    "C02_full_revert", "C02_full_revert_then_any_history", "C02_later_history", "C02_later_history_equal",
    "C02_partial_revert", "C02_partial_revert_as_if", "C02_where_is_row_selection", "C02_F_mix_entrywise",
    "C02_partial_revert_finite_partial", "C02_nonfinite_refuted",
    "C02_pop_block_rejected", "C02_pop_block_accepted", "C02_pop_step", "C02_ind_step", "C02_examples",
    # composition with C15 (graph hypothesis WF discharged for every graph the modelled DAG constructor builds) and with C07
    # (F_mix proved from the op-kind semantics; axis_read_ok from the well_typed checker): coq/theories/Compose, docs/Compose.md
    "C02_full_revert_built", "C02_pop_step_built", "C02_full_revert_from_definitions", "C02_pop_step_from_definitions", "C02_opkind_functions_commute_with_selection", "C02_F_mix_opkinds",
    "C02_axis_closed_well_typed", "C02_partial_revert_well_typed", "C02_partial_revert_as_if_well_typed",
    "C02_ind_step_well_typed", "C02_later_history_opkinds", "C02_compose_examples",
    # weighted values (State/StateWExec.v): mix = _select = row-wise selection of value AND weight
    "C02_partial_revert_weighted", "C02_weighted_select_rows",
    # n-d values (State/StateNdExec.v): per-individual values with a trailing shape, right_broadcasting both ways, refusals
    "C02_nd_select_rows", "C02_nd_weighted_select_rows", "C02_nd_last_axis", "C02_nd_refused_bad_shapes", "C02_nd_refused_by_torch",
    "C02_nd_contract_needs_fit", "C02_nd_contract_is_torch", "C02_nd_contract_keeps_shape", "C02_nd_select_examples",
    # F_mix proved for the n-d toy vocabulary (multi-parent entry-wise functions, weighted parents): no hypothesis on node functions
    "C02_partial_revert_nd", "C02_partial_revert_nd_rows", "C02_one_sided_weight_old_refuted", "C02_one_sided_weight_now",
    "C02_nd_repair_same_kind_unchanged", "C02_nd_old_contract_is_old_torch",
]

HEADER = ("From Coq Require Import ZArith List Bool.\n"
          "From Leaspy Require Import State.StateModel State.StateExec State.RevertExec.\n"
          "Import ListNotations.\nOpen Scope Z_scope.\nOpen Scope nat_scope.\n")
CASE_TYPE = "list nspec * list (xop * out xval * bool)"
ASIF_TYPE = "list nspec * list xop * list xop * list nat"

WHEADER = ("From Coq Require Import ZArith List Bool.\n"
           "From Leaspy Require Import State.StateModel State.StateExec State.StateWExec.\n"
           "Import ListNotations.\nOpen Scope Z_scope.\nOpen Scope nat_scope.\n")
WCASE_TYPE = "list wspec * list (wop * out wval * bool)"
WASIF_TYPE = "list wspec * list wop * list wop * list nat"

SIG_F2 = "partial-revert:nonfinite-discarded-side-leaks"
WHAT_F2 = ("State.revert(mask) computes old*mask + cur*~mask: a non-finite value on the DISCARDED side (inf*0, nan*0) turns the kept "
           "entry into NaN, so a rejected individual whose proposal evaluated to inf/NaN keeps NaN in the cached derived values "
           "(and an accepted one inherits NaN from a non-finite previous value)")


# ----------------------------------------------------------------------------- small helpers


def where_rows(mask, old, new):
    return [o if m else n for m, o, n in zip(mask, old, new)]


def json_eq(a, b):
    """exact equality of two val_json values (NaN equals NaN)"""
    return json.dumps(a) == json.dumps(b)


def nonfinite_discard(mask, fork_json, cur_json):
    """is there a doubly cached entry of the forked sub-graph whose DISCARDED side is non-finite?"""
    for k, old in fork_json.items():
        cur = cur_json.get(k)
        if old is None or cur is None:
            continue
        if T.is_weighted_json(old) and T.is_weighted_json(cur):
            old, cur = old["wv"], cur["wv"]
        o = old if isinstance(old, list) else [old] * len(mask)
        c = cur if isinstance(cur, list) else [cur] * len(mask)
        if len(o) != len(mask) or len(c) != len(mask):
            continue
        for m, x, y in zip(mask, o, c):
            d = y if m else x          # rejected row: the current (proposed) side is discarded
            if not isinstance(d, int):
                return True
    return False


def only_nan_where_differs(exp, obs):
    e = exp if isinstance(exp, list) else [exp]
    o = obs if isinstance(obs, list) else [obs]
    if len(e) != len(o):
        return False
    diff = [(x, y) for x, y in zip(e, o) if json.dumps(x) != json.dumps(y)]
    return bool(diff) and all(y == "nan" and x != "nan" for x, y in diff)


# ----------------------------------------------------------------------------- toy graphs for C02


BIG = 2 ** 24 + 1          # an integer float32 cannot hold (rounds to 2**24); exact in float64 and int64
DTYPES = ("float32", "float64", "int64")


def dt_name(dt):
    return str(dt).replace("torch.", "")


def gen_graph(rng, mixed=False):
    """ind variables (1-2), optional population scalar / hyper-parameter, per-individual derived nodes (log2 of an
    individual variable, affine maps of per-individual nodes and scalars), aggregating nodes (sum over individuals),
    scalar nodes on top.  Random names decide the topological order."""
    n_ind = rng.choice([1, 2, 2, 3, 3, 4, 4])
    with_log = rng.random() < 0.65 and not mixed
    dtype = "float64" if with_log else rng.choice(["int64", "float64"])
    if mixed:       # the dtype of the hyper-parameters and the default of the assignments; every assignment / proposal chooses its own
        dtype = rng.choice(["float32", "float32", "float64", "int64"])
    names = rng.sample(T.NAME_POOL, 12)
    coefs = [c for c in range(-4, 6) if c != 0]
    nodes, axis_nodes, scalar_nodes, logs = [], [], [], []

    def new(nd):
        nodes.append(nd)
        return nd["name"]
    inds = [new(dict(name=names.pop(), kind="ind", parents=[])) for _ in range(rng.choice([1, 1, 2]))]
    axis_nodes += inds
    if rng.random() < 0.6:
        scalar_nodes.append(new(dict(name=names.pop(), kind="pop", parents=[])))
    if rng.random() < 0.4:
        scalar_nodes.append(new(dict(name=names.pop(), kind="hyper", parents=[], value=rng.randint(-3, 4))))
    if with_log:
        for v in rng.sample(inds, rng.randint(1, len(inds))):
            n = new(dict(name=names.pop(), kind="linked", parents=[v], fun=["log2", 0, []]))
            axis_nodes.append(n)
            logs.append(v)
    for _ in range(rng.randint(1, 3)):
        k = rng.randint(1, 3)
        ps = [rng.choice(axis_nodes)]
        pool = [x for x in axis_nodes + scalar_nodes if x not in ps]
        ps += rng.sample(pool, min(k - 1, len(pool)))
        rng.shuffle(ps)
        n = new(dict(name=names.pop(), kind="linked", parents=ps, fun=["affine", rng.randint(-3, 3), rng.sample(coefs, len(ps))]))
        axis_nodes.append(n)
    aggs = []
    for _ in range(rng.randint(1, 2)):
        k = rng.randint(1, 2)
        ps = rng.sample(axis_nodes, min(k, len(axis_nodes)))
        if scalar_nodes and rng.random() < 0.4:
            ps.append(rng.choice(scalar_nodes))
        aggs.append(new(dict(name=names.pop(), kind="linked", parents=ps, fun=["sum", rng.randint(-2, 2), rng.sample(coefs, len(ps))])))
    if rng.random() < 0.5:
        ps = [rng.choice(aggs)] + ([rng.choice(scalar_nodes)] if scalar_nodes and rng.random() < 0.5 else [])
        new(dict(name=names.pop(), kind="linked", parents=ps, fun=["affine", rng.randint(-2, 2), rng.sample(coefs, len(ps))]))
    used = {p for nd in nodes for p in nd["parents"]}
    last_agg = next(nd for nd in nodes if nd["name"] == aggs[-1])
    for nd in nodes:
        if nd["kind"] != "linked" and nd["name"] not in used:
            last_agg["parents"].append(nd["name"])
            last_agg["fun"][2].append(rng.choice([c for c in coefs if c not in last_agg["fun"][2]]))
    G = T.ToyGraph(nodes, n_ind, dtype)
    G.log_vars = set(logs)
    G.mixed = mixed
    return G


def gen_wgraph(rng):
    """a C02 toy graph + nodes of the weighted vocabulary of state_toy (WeightedTensor whose weight is computed from a per-individual
    parent, its per-individual and aggregated consumers)"""
    G = gen_graph(rng)
    used = {nd["name"] for nd in G.nodes}
    left = [n for n in T.NAME_POOL if n not in used]
    rng.shuffle(left)
    nodes = [dict(nd) for nd in G.nodes]
    T.add_weighted_nodes(rng, nodes, G.n_ind, G.dtype, left)
    W = T.ToyGraph(nodes, G.n_ind, G.dtype)
    W.log_vars = G.log_vars
    return W


LOG_VALUES = [1, 2, 4, 8, 16]
LOG_TARGETS = [1, 2, 4, 8, 32, 0, 0, -1, -2, "inf"]


def init_value(rng, G, name):
    nd = G.by_name[name]
    if nd["kind"] == "ind":
        if name in G.log_vars:
            return [rng.choice(LOG_VALUES) for _ in range(G.n_ind)]
        return [rng.randint(-6, 6) for _ in range(G.n_ind)]
    return rng.randint(-5, 5)


def target_value(rng, G, name, cur):
    """value the proposal moves to (the put adds target - current)"""
    nd = G.by_name[name]
    if nd["kind"] == "ind":
        if name in G.log_vars:
            return [rng.choice(LOG_TARGETS) if rng.random() < 0.8 else c for c in cur]
        if G.dtype == "float64" and rng.random() < 0.15:
            return [rng.choice(["inf", "-inf", c + 1]) for c in cur]
        return [c + rng.randint(-3, 3) for c in cur]
    if G.dtype == "float64" and rng.random() < 0.1:
        return rng.choice(["inf", "-inf"])
    return cur + rng.randint(-3, 3)


def delta_of(target, cur):
    def d(t, c):
        if isinstance(t, str):
            return t
        if isinstance(c, str):      # already non-finite: stay there
            return 0
        return t - c
    if isinstance(target, list):
        return [d(t, c) for t, c in zip(target, cur)]
    return d(target, cur)


def allowed_reads(G, v):
    """variables the documented contract allows to read between a proposal of `v` and a per-individual decision"""
    below = set(G.dag.sorted_children[v])
    out = []
    for r in G.order:
        if not G.axis(r):
            continue
        touched = set(G.dag.sorted_ancestors[r]) | {r}
        if all(G.axis(a) for a in touched & below):
            out.append(r)
    return out


def gen_template(rng, G):
    """A sampler-shaped history with ONE individual step whose mask is left open (enumerated by the caller).
    Mixed-dtype graphs (`G.mixed`): every initial assignment and every proposal has its own dtype (float32 / float64 / int64); a proposal is
    `put(v, delta, accumulate=True)` or the assignment `put(v, value)`; some rows of a proposal that float64 / int64 can hold get BIG = 2**24 + 1
    added (not representable in float32) — decided when the step is executed, from the dtypes the state really holds (see StepRun.mixed_put)."""
    sett = G.settable()
    names = list(G.order)
    mixed = getattr(G, "mixed", False)
    ops = [["mode", 0, rng.choice(["REF", "REF", "COPY"])]]
    cur = {}
    for n in sett:
        cur[n] = init_value(rng, G, n)
        ops.append(["set", 0, n, cur[n]] + ([{"dtype": rng.choice(DTYPES + (G.dtype,))}] if mixed else []))
    for _ in range(rng.randint(0, 3)):
        ops.append(["get", 0, rng.choice(names)])
    steps = []
    inds = [n for n in sett if G.by_name[n]["kind"] == "ind"]
    n_steps = rng.randint(1, 3)
    enum_at = rng.randrange(n_steps)
    for s in range(n_steps):
        v = rng.choice(inds) if (s == enum_at or rng.random() < 0.5) else rng.choice(sett)
        is_ind = G.by_name[v]["kind"] == "ind"
        if s == enum_at or (is_ind and rng.random() < 0.6):
            allowed = allowed_reads(G, v)
            pre = [rng.choice(names) for _ in range(rng.randint(0, 3))]          # before the proposal: anything
            tgt = target_value(rng, G, v, cur[v])
            mid = [rng.choice(allowed) for _ in range(rng.randint(0, 4))] if allowed else []
            if G.weighted and is_ind:
                # weighted graphs: per-individual descendants (the WeightedTensor nodes among them) cached BEFORE and AFTER the proposal,
                # so that the decision meets doubly cached weighted nodes
                below = [r for r in G.dag.sorted_children[v] if r in allowed]
                if below:
                    pre = pre + rng.sample(below, min(len(below), rng.randint(1, 2)))
                    mid = mid + rng.sample(below, min(len(below), rng.randint(1, 3)))
            mask = None if s == enum_at else [rng.random() < 0.5 for _ in range(G.n_ind)]
            steps.append(dict(kind="ind", var=v, pre=pre, target=tgt, mid=mid, mask=mask))
            if mixed:
                steps[-1].update(pdtype=rng.choice(DTYPES + ("float64",)), how=rng.choice(["add", "add", "assign"]),
                                 big=[rng.random() < 0.6 for _ in range(G.n_ind)], small=[rng.randint(-6, 6) for _ in range(G.n_ind)])
        else:
            idx = rng.randrange(G.n_ind) if (is_ind and rng.random() < 0.6) else None
            if idx is None:
                tgt = target_value(rng, G, v, cur[v])
            else:
                tgt = rng.choice(LOG_TARGETS) if v in G.log_vars else rng.randint(-4, 4)
            mid = [rng.choice(names) for _ in range(rng.randint(0, 3))]         # before a FULL rejection: anything
            steps.append(dict(kind="block", var=v, idx=idx, target=tgt, mid=mid, pre=[rng.choice(names) for _ in range(rng.randint(0, 2))],
                              reject=rng.random() < 0.6))
            if mixed:
                steps[-1].update(pdtype=rng.choice(DTYPES + ("float64",)), big=([rng.random() < 0.5 for _ in range(G.n_ind)] if (is_ind and idx is None) else rng.random() < 0.5),
                                 small=[rng.randint(-6, 6) for _ in range(G.n_ind)])
        # between the proposal and its decision, an assignment the State REFUSES (a derived variable is not settable: LeaspyInputError,
        # caught by the caller) — the pending proposal must still be revertible, entirely
        derived = [n for n in names if n not in sett]
        if derived and rng.random() < 0.3:
            steps[-1]["refused_set"] = rng.choice(derived)
        # the template does not know the outcome yet: `cur` is advanced when the history is instantiated
    later = list(names)
    rng.shuffle(later)
    return dict(prefix=ops, init=cur, steps=steps, later=later)


class StepRun:
    """Instantiate a template with a mask on a real State, running the reference-state oracle after every step."""

    def __init__(self, run, G, tpl, mask):
        self.run, self.G, self.tpl, self.mask = run, G, tpl, mask
        self.mixed = getattr(G, "mixed", False)
        # mixed dtypes: the from-scratch oracle of C01 (every read bit for bit, DTYPE included, against a brand new state holding clones of the
        # current independent values) runs after every operation
        self.s = T.Session(G, oracle=self.mixed, fx=True)
        self.s.dtype_strict = False
        self.mixed_stats = {}
        self.cur = dict(tpl["init"])
        self.failures = []          # (signature, what, expected, observed, node, step)
        self.nonfinite_steps = 0
        self.step_ops_index = []

    def refused_set(self, st, v):
        """the refused assignment of the template (if any): the value offered is the current value of the sampled variable"""
        name = st.get("refused_set")
        if name is None:
            return
        out = self.s.apply(["set", 0, name, self.cur[v] if not self.mixed else 1])
        self.refused_sets = getattr(self, "refused_sets", 0) + 1
        if out and out[0] != "err":
            self.failures.append(dict(sig="set:derived-variable-accepted", what=f"an assignment to the derived variable '{name}' was not refused",
                                      node=name, step=None, expected="LeaspyInputError", observed=list(out)))

    def tensor_add(self, cur, delta):
        def a(c, d):
            return T.atom_json(T.atom_py(c) + T.atom_py(d))
        if isinstance(cur, list):
            return [a(c, d) for c, d in zip(cur, delta)]
        return a(cur, delta)

    def mixed_put(self, st, v, old, idx=None):
        """the proposal of a mixed-dtype step, decided on the dtypes the state really holds: returns (op, new value).  Every tensor the harness
        builds holds its JSON value exactly (BIG only in float64 / int64 tensors), no arithmetic of the State may round (a float32 result never
        meets a BIG operand), and a per-individual selection between the two sides promotes to a dtype that holds both exactly."""
        import torch
        TD = {"float32": torch.float32, "float64": torch.float64, "int64": torch.int64}
        wide = (torch.float64,)          # BIG lives in float64 tensors only: int64 + float32 (a node function) is float32 arithmetic
        old_dt = self.s.states[0]._values[v].dtype
        is_big = lambda x: isinstance(x, int) and abs(x) >= 2 ** 23
        has_big = any(is_big(c) for c in (old if isinstance(old, list) else [old]))
        fin = lambda x, alt: x if isinstance(x, int) else alt          # mixed steps stay finite (an int64 tensor cannot hold inf)
        target = [fin(x, s_) for x, s_ in zip(st["target"], st["small"])] if isinstance(st["target"], list) else fin(st["target"], 1)
        st = dict(st, target=target)
        if idx is not None:         # index_put needs the dtype of the variable
            d = delta_of(st["target"], old[idx]) + (BIG if (st["big"] is True and old_dt in wide) else 0)
            new = list(old)
            new[idx] = self.tensor_add(old[idx], d)
            self.count_mixed("block, indexed put (same dtype)", old_dt, old_dt, d)
            return ["put", 0, v, idx, d, True, {"dtype": dt_name(old_dt)}], new
        p = TD[st["pdtype"]]
        how = st.get("how", "add")
        new_dt = torch.promote_types(old_dt, p) if how == "add" else p
        res_dt = torch.promote_types(old_dt, new_dt) if st["kind"] == "ind" else new_dt
        if has_big and (new_dt not in wide or res_dt not in wide):
            p = torch.float64       # the state holds BIG: keep every result wide
            new_dt = torch.promote_types(old_dt, p) if how == "add" else p
            res_dt = torch.promote_types(old_dt, new_dt) if st["kind"] == "ind" else new_dt
        big_ok = p in wide and new_dt in wide and res_dt in wide
        rows = isinstance(old, list)
        # BIG only in per-individual (1-d) tensors: `1-d float32 + 0-d float64` is float32 arithmetic in torch (a node function would round)
        bigs = st["big"] if (rows and big_ok) else [False] * (len(old) if rows else 1)
        if how == "assign":
            base = st["target"] if (new_dt in wide or not has_big) else st["small"]
            base = base if new_dt in wide else [b if not is_big(b) else s_ for b, s_ in zip(base, st["small"])]
            new = [b + (BIG if g and isinstance(b, int) else 0) for b, g in zip(base, bigs)]
            self.count_mixed(f"{st['kind']} step, assignment", old_dt, new_dt, new)
            return ["put", 0, v, None, new, False, {"dtype": dt_name(p)}], new
        d = delta_of(st["target"], old)
        if any(is_big(x) for x in (d if rows else [d])) and p is not torch.float64:
            # the template's target was drawn before BIG entered the state: the step itself is big, its tensor must be float64
            p = new_dt = torch.float64
            bigs = [False] * len(bigs)
        if rows:
            d = [x + (BIG if g and isinstance(x, int) else 0) for x, g in zip(d, bigs)]
        elif bigs[0] and isinstance(d, int):
            d += BIG
        self.count_mixed(f"{st['kind']} step, accumulating put", old_dt, new_dt, d)
        return ["put", 0, v, None, d, True, {"dtype": dt_name(p)}], self.tensor_add(old, d)

    def count_mixed(self, what, old_dt, new_dt, val):
        big = any(isinstance(x, int) and abs(x) >= 2 ** 23 for x in (val if isinstance(val, list) else [val]))
        key = f"{what}: state {dt_name(old_dt)}, proposal {dt_name(new_dt)}" + (", values float32 cannot hold" if big else "")
        self.mixed_stats[key] = self.mixed_stats.get(key, 0) + 1

    def stored_rows(self, v, mask, t_old, t_new, what_step, step_no):
        """mixed dtypes: the STORED tensor of the sampled variable after the per-individual decision — each rejected row is exactly the old
        number, each accepted row exactly the proposed number (compared as exact Python numbers, so a rounding to a narrower dtype shows)"""
        t = self.s.states[0]._values[v]
        exp = [o if m else n for m, o, n in zip(mask, t_old.tolist(), t_new.tolist())]
        obs = t.tolist()
        same = len(exp) == len(obs) and all((e == o) or (e != e and o != o) for e, o in zip(exp, obs))
        if not same:
            acc_bad = any((not m) and not (n == o or (n != n and o != o)) for m, n, o in zip(mask, t_new.tolist(), obs))
            self.failures.append(dict(sig="revert:accepted-rows-not-the-proposed-value" if acc_bad else "revert:rejected-rows-not-the-old-value",
                                      what=f"after {what_step} the stored tensor does not hold exactly the proposed value on the accepted rows and the "
                                           "previous value on the rejected rows",
                                      node=v, step=step_no,
                                      expected=dict(rows=[T.atom_json(x) for x in exp], old_dtype=dt_name(t_old.dtype), proposal_dtype=dt_name(t_new.dtype)),
                                      observed=dict(rows=[T.atom_json(x) for x in obs], dtype=dt_name(t.dtype))))
        return same

    def reference_reads(self):
        from leaspy.variables.state import State
        ref = State(self.G.dag)
        for n in self.G.settable():
            ref[n] = self.G.tensor(self.cur[n], "float64" if self.mixed else None)      # mixed dtypes: exact values, compared as numbers
        out = {}
        for n in self.G.order:
            try:
                out[n] = ("ok", T.val_json(ref[n]))
            except Exception as e:  # noqa
                out[n] = ("err", type(e).__name__)
        return out

    def state_reads(self):
        probe = T.probe_of(self.s.states[0])
        out = {}
        for n in self.G.order:
            try:
                out[n] = ("ok", T.val_json(probe[n]))
            except Exception as e:  # noqa
                out[n] = ("err", type(e).__name__)
        return out

    def check(self, step_no, what_step, leak_possible):
        exp, obs = self.reference_reads(), self.state_reads()
        for n in self.G.order:
            if json_eq(exp[n], obs[n]):
                continue
            known = (leak_possible and exp[n][0] == "ok" and obs[n][0] == "ok" and only_nan_where_differs(exp[n][1], obs[n][1]))
            if known:
                sig, what = SIG_F2, WHAT_F2
            elif n in self.G.settable():
                sig = "revert:sampled-variable-wrong"
                what = f"after {what_step} the sampled variable is neither the previous value on the rejected part nor the proposal on the accepted part"
            else:
                sig = "revert:trace-left-in-derived-value"
                what = (f"after {what_step} a derived variable differs from its value on a fresh state holding the previous values on the "
                        "rejected part and the proposal on the accepted part")
            self.failures.append(dict(sig=sig, what=what, node=n, step=step_no, expected=exp[n], observed=obs[n]))
            return False
        return True

    def go(self):
        G, s = self.G, self.s
        for op in self.tpl["prefix"]:
            s.apply(op)
        for k, st in enumerate(self.tpl["steps"]):
            v = st["var"]
            for r in st["pre"]:
                s.apply(["get", 0, r])
            old = self.cur[v]
            if st["kind"] == "ind":
                new = st["target"]
                t_old = s.states[0]._values[v]
                if self.mixed:
                    op, new = self.mixed_put(st, v, old)
                    s.apply(op)
                else:
                    s.apply(["put", 0, v, None, delta_of(new, old), True])
                    new = self.tensor_add(old, delta_of(new, old))
                t_new = s.states[0]._values[v]
                for r in st["mid"]:
                    s.apply(["get", 0, r])
                self.refused_set(st, v)
                mask = self.mask if st["mask"] is None else st["mask"]
                real = s.states[0]
                fork_json = {c: T.val_json(o) for c, o in (real._last_fork or {}).items()}
                cur_json = {c: T.val_json(real._values[c]) for c in fork_json}
                leak = nonfinite_discard(mask, fork_json, cur_json)
                self.nonfinite_steps += leak
                s.apply(["revmask", 0, list(mask)])
                self.cur[v] = where_rows(mask, old, new)
                what_step = f"revert(mask={[int(m) for m in mask]}) of a proposal on '{v}'"
                ok = (not self.mixed or self.stored_rows(v, mask, t_old, t_new, what_step, k)) and self.check(k, what_step, leak or self.nonfinite_steps > 0)
            else:
                if self.mixed:
                    op, new = self.mixed_put(st, v, old, st["idx"])
                    s.apply(op)
                elif st["idx"] is None:
                    d = delta_of(st["target"], old)
                    s.apply(["put", 0, v, None, d, True])
                    new = self.tensor_add(old, d)
                else:
                    j = st["idx"]
                    d = delta_of(st["target"], old[j])
                    s.apply(["put", 0, v, j, d, True])
                    new = list(old)
                    new[j] = self.tensor_add(old[j], d)
                for r in st["mid"]:
                    s.apply(["get", 0, r])
                self.refused_set(st, v)
                if st["reject"]:
                    s.apply(["revert", 0])
                    what = f"revert() of a proposal on '{v}'"
                else:
                    self.cur[v] = new
                    what = f"an accepted proposal on '{v}'"
                ok = self.check(k, what, self.nonfinite_steps > 0)
            if self.mixed and ok and s.mismatches:
                m = s.mismatches[0]
                self.failures.append(dict(sig="revert:read-differs-from-scratch-evaluation(value-or-dtype)",
                                          what="a read (value AND dtype, bit for bit) differs from the read of a brand new state holding clones of the current "
                                               "independent values of the state", node=m["node"], step=k, expected=m["expected"], observed=m["observed"]))
                ok = False
            self.step_ops_index.append(len(s.records))
            if not ok:
                break
        for r in self.tpl["later"]:
            s.apply(["get", 0, r])
        return self

    def ops(self):
        return [r[0] for r in self.s.records]

    def asif_case(self):
        """(nodes, history, reference history, probes): the reference assigns the expected final values directly"""
        s = self.s
        hist = self.ops()[: self.step_ops_index[-1]] if self.step_ops_index else self.ops()
        ref = [["mode", 0, "REF"]] + [["set", 0, n, self.cur[n]] for n in self.G.settable()]
        lst = lambda l: "[" + ";\n     ".join(l) + "]"
        return (f"({self.G.coq()},\n   {lst([s.op_coq(o) for o in hist])},\n   {lst([s.op_coq(o) for o in ref])},\n"
                f"   [{'; '.join(str(i) for i in range(len(self.G.order)))}])")


def report_failures(run: Run, G, sr: StepRun, meta):
    for f in sr.failures[:1]:
        run.count("oracle", f["sig"])
        run.fail(f["sig"], f["what"], dict(graph=G.to_json(), template=sr.tpl, node=f["node"], step=f["step"], **{**meta, "mask": list(sr.mask)}),
                 expected=f["expected"], observed=f["observed"])


def correspond(run: Run, name, runs, metas):
    """every recorded history against the model of the code as it is (and, where both must agree, against the repaired mix)"""
    cases = [r.s.coq_case() for r in runs]
    bad = run.vm_bad_indices(name + "_code", HEADER, CASE_TYPE, cases, "check_code", shard=120) or []
    finite_idx = [i for i, r in enumerate(runs) if r.nonfinite_steps == 0]
    bad_w = run.vm_bad_indices(name + "_where", HEADER, CASE_TYPE, [cases[i] for i in finite_idx], "check_where", shard=120) or []
    bad_w = [finite_idx[i] for i in bad_w]
    repaired = []
    if bad:
        # does the running code implement the selection (repair applied)?  then these histories agree with the where-model
        nf = [i for i in bad if runs[i].nonfinite_steps > 0]
        if nf:
            bw = run.vm_bad_indices(name + "_where_nf", HEADER, CASE_TYPE, [cases[i] for i in nf], "check_where", shard=120) or []
            repaired = [i for j, i in enumerate(nf) if j not in bw]
    run.extra.setdefault("partial_revert_semantics", {})[name] = dict(
        histories=len(cases), agree_with_code_model=len(cases) - len(bad), agree_only_with_where_model=len(repaired),
        finite_histories_checked_against_where=len(finite_idx))
    for i in sorted(set(bad) - set(repaired) | set(bad_w)):
        r = runs[i]
        run.fail("model-vs-code:sampler-step-history", "the State implementation and the Coq model of state.py disagree on the result of an "
                 "operation of a sampler-shaped history (or on the cache contents / the discipline flag): the theorems no longer speak about this code",
                 dict(graph=r.G.to_json(), ops=r.ops(), which="code-model" if i in bad else "where-model", **metas[i]),
                 expected="results computed by the model (coq/tmp)", observed=[list(x[1]) for x in r.s.records][-12:],
                 kind="broken-correspondence")
    return bad, repaired


def correspond_weighted(run: Run, name, runs, metas):
    """histories on graphs with weighted values: the model of `_select` (row-wise selection of value AND weight, wsem_where) only"""
    cases = [r.s.coq_case() for r in runs]
    bad = run.vm_bad_indices(name + "_wwhere", WHEADER, WCASE_TYPE, cases, "(check_wcase_with wsem_where false)", shard=120) or []
    run.extra.setdefault("partial_revert_semantics", {})[name] = dict(histories=len(cases), agree_with_weighted_selection_model=len(cases) - len(bad))
    for i in bad:
        r = runs[i]
        run.fail("model-vs-code:sampler-step-history", "the State implementation and the Coq model of state.py (weighted values: `_select` = row-wise "
                 "selection of value AND weight) disagree on the result of an operation of a sampler-shaped history: the theorems no longer speak about this code",
                 dict(graph=r.G.to_json(), ops=r.ops(), which="weighted-selection-model", **metas[i]),
                 expected="results computed by the model (coq/tmp)", observed=[list(x[1]) for x in r.s.records][-12:],
                 kind="broken-correspondence")
    return bad


def toy_steps(run: Run, n_templates, weighted=False, mixed=False):
    runs, metas, asif = [], [], []
    masks_seen = {}
    mstat = {}
    wstat = dict(histories=0, with_a_partial_revert_over_a_doubly_cached_weighted_node=0, of_which_the_weights_differ_between_the_sides=0)
    for t in range(n_templates):
        rng = run.rng("c02-wtoy" if weighted else "c02-mtoy" if mixed else "c02-toy", t)
        G = gen_wgraph(rng) if weighted else gen_graph(rng, mixed=mixed)
        if weighted and not G.weighted:
            continue
        try:
            G.build()
        except Exception as e:  # noqa
            run.count("graph", f"refused:{type(e).__name__}")
            continue
        tpl = gen_template(rng, G)
        run.count("graph_nodes", len(G.order))
        run.count("n_individuals", G.n_ind)
        run.count("dtype", G.dtype)
        for nd in G.nodes:
            run.count("node_kind", nd["kind"] if nd["kind"] != "linked" else "linked:" + nd["fun"][0])
        for st in tpl["steps"]:
            run.count("step_kind", st["kind"] if st["kind"] == "ind" else ("block-rejected" if st["reject"] else "block-accepted"))
            run.count("reads_between_proposal_and_decision", len(st["mid"]))
        for mask in itertools.product([True, False], repeat=G.n_ind):
            sr = StepRun(run, G, tpl, list(mask)).go()
            runs.append(sr)
            metas.append(dict(case=t, mask=[int(m) for m in mask]))
            masks_seen[G.n_ind] = masks_seen.get(G.n_ind, 0) + 1
            run.case(("wtoy" if weighted else "mtoy" if mixed else "toy", json.dumps(G.to_json(), sort_keys=True), json.dumps(sr.ops())), nontrivial=True)
            for key, n in sr.mixed_stats.items():
                mstat[key] = mstat.get(key, 0) + n
            if sr.s.dtype_only_diffs:
                run.count("mixed_dtype_reads_with_the_from_scratch_numbers_in_another_dtype (counted, not judged)", "reads", sr.s.dtype_only_diffs)
            if weighted:
                wstat["histories"] += 1
                wstat["with_a_partial_revert_over_a_doubly_cached_weighted_node"] += bool(sr.s.weighted_masks)
                wstat["of_which_the_weights_differ_between_the_sides"] += bool(sr.s.weight_flipping_masks)
            run.count("rejected_individuals", sum(mask))
            run.count("nonfinite_discarded_side", "yes" if sr.nonfinite_steps else "no")
            report_failures(run, G, sr, metas[-1])
            if not sr.failures or all(f["sig"] == SIG_F2 for f in sr.failures):
                asif.append(sr)
            if t in (1, 7) and sum(mask) == 1 and len(run.samples) < 4:
                run.sample(dict(kind="toy sampler-shaped history", graph=G.to_json(), mask=[int(m) for m in mask],
                                history=[dict(op=r[0], out=r[1]) for r in sr.s.records[:30]]))
    if weighted:
        run.extra["weighted_masks_enumerated"] = {f"n={k}": f"{v} histories = {v // (2 ** k)} templates x all {2 ** k} masks" for k, v in sorted(masks_seen.items())}
        run.extra["weighted_toy_steps"] = wstat
        if n_templates and wstat["of_which_the_weights_differ_between_the_sides"] < max(5, n_templates // 4):
            run.broken("generator:weighted-shape", f"too few sampler-shaped histories with a partial revert over a doubly cached weighted node whose weights "
                       f"differ between the two sides: {wstat}", kind="broken-correspondence")
        correspond_weighted(run, "wtoy", runs, metas)
        bad = run.vm_bad_indices("wasif", WHEADER, WASIF_TYPE, [r.asif_case() for r in asif], "(check_was_if wsem_where)", shard=150) or []
    elif mixed:
        wide_over_narrow = sum(n for k, n in mstat.items() if k.startswith("ind step") and "state float32, proposal float64, values float32 cannot hold" in k)
        run.extra["mixed_dtype_toy_steps"] = dict(histories=len(runs), proposals=dict(sorted(mstat.items())),
                                                  per_individual_steps_with_a_float64_proposal_float32_cannot_hold_over_a_float32_state=wide_over_narrow,
                                                  note="every read compared by VALUE with the model inside Coq and with a float64 reference state, by value AND dtype "
                                                       "with a brand new state holding clones of the current independent values; the stored tensor of the sampled "
                                                       "variable compared row by row as exact numbers with the old / the proposed tensor")
        if n_templates and wide_over_narrow < max(5, n_templates // 4):
            run.broken("generator:mixed-dtype-shape", f"too few per-individual steps with a float64 proposal that float32 cannot hold over a float32 state: {mstat}",
                       kind="broken-correspondence")
        correspond(run, "mtoy", runs, metas)
        bad = run.vm_bad_indices("masif", HEADER, ASIF_TYPE, [r.asif_case() for r in asif], "(check_as_if xsem_where)", shard=150) or []
    else:
        run.extra["masks_enumerated"] = {f"n={k}": f"{v} histories = {v // (2 ** k)} templates x all {2 ** k} masks" for k, v in sorted(masks_seen.items())}
        correspond(run, "toy", runs, metas)
        # the model's own "as if": after the history, all reads equal the reads after assigning the expected values directly (selection mix)
        bad = run.vm_bad_indices("asif", HEADER, ASIF_TYPE, [r.asif_case() for r in asif], "(check_as_if xsem_where)", shard=150) or []
    for i in bad:
        r = asif[i]
        run.fail("model:as-if-reference", "in the Coq model (selection mix) the reads after a sampler-shaped history differ from the reads after "
                 "assigning the expected values directly: the reference used by the oracle and the model's partial revert disagree",
                 dict(graph=r.G.to_json(), ops=r.ops()), kind="broken-correspondence")
    run.extra["weighted_as_if_cases_in_model" if weighted else "mixed_dtype_as_if_cases_in_model" if mixed else "as_if_cases_in_model"] = len(asif)


# ----------------------------------------------------------------------------- the witness of F2 on the real State


F2_GRAPH = T.ToyGraph([
    dict(name="x", kind="ind", parents=[]),
    dict(name="y", kind="linked", parents=["x"], fun=["log2", 0, []]),
], 2, "float64")
F2_OPS = [["mode", 0, "REF"], ["set", 0, "x", [1, 2]], ["get", 0, "y"], ["put", 0, "x", None, [-2, 2], True], ["get", 0, "y"],
          ["revmask", 0, [True, False]], ["get", 0, "x"], ["get", 0, "y"]]


def directed_f2(run: Run):
    G = F2_GRAPH
    G.build()
    s = T.run_ops(G, F2_OPS, oracle=False)
    outs = [r[1] for r in s.records]
    x_after, y_after = outs[-2], outs[-1]
    run.case(("directed", "F2"), nontrivial=True)
    run.extra["F2_witness"] = dict(x_after=x_after, y_after=y_after, y_before_proposal=outs[2])
    run.sample(dict(kind="F2 witness on the real State", ops=F2_OPS, reads=[list(o) for o in outs]))
    leaked = y_after == ("ok", ["nan", 2])
    if y_after != ("ok", [0, 2]) or x_after != ("ok", [1, 4]):
        run.fail(SIG_F2 if leaked else "revert:trace-left-in-derived-value", WHAT_F2 if leaked else "the F2 history does not read [0, 2] after the partial revert",
                 dict(graph=G.to_json(), ops=F2_OPS, node="y"), expected=[0, 2], observed=y_after)
    # the model of the code reproduces exactly what the code did; the where-model what the repaired code would do
    b1 = run.vm_bad_indices("f2_code", HEADER, CASE_TYPE, [s.coq_case()], "check_code")
    b2 = run.vm_bad_indices("f2_where", HEADER, CASE_TYPE, [s.coq_case()], "check_where")
    run.extra["F2_witness"]["agrees_with_code_model"] = (b1 == [])
    run.extra["F2_witness"]["agrees_with_where_model"] = (b2 == [])
    if b1 != [] and b2 != []:
        run.fail("model-vs-code:F2-witness", "the real State agrees with neither the model of the code nor the model of the repair on the F2 history",
                 dict(graph=G.to_json(), ops=F2_OPS), observed=[list(o) for o in outs], kind="broken-correspondence")


# ----------------------------------------------------------------------------- partial revert on (n, d1, ..) shaped values


def shape_case(shape, mask):
    """x -> y = 2x+1 -> z = sum(y) with per-individual values of `shape`; returns None or (signature, what, expected, observed)"""
    import torch
    from leaspy.variables.dag import VariablesDAG
    from leaspy.variables.specs import DataVariable, LinkedVariable
    from leaspy.variables.state import State, StateForkType
    dag = VariablesDAG.from_dict({"x": DataVariable(), "y": LinkedVariable(lambda *, x: 2 * x + 1), "z": LinkedVariable(lambda *, y: y.sum())})
    shape, n = tuple(shape), shape[0]
    numel = 1
    for d in shape:
        numel *= d
    old = torch.arange(numel, dtype=torch.float64).reshape(shape)
    new = old * 10 + 7
    st = State(dag, auto_fork_type=StateForkType.REF)
    try:
        st["x"] = old
        st["y"], st["z"]
        st["x"] = new
        st["y"]
        st.revert(torch.tensor([bool(m) for m in mask]))
        got = dict(x=st["x"], y=st["y"], z=st["z"])
    except Exception as e:  # noqa
        return ("partial-revert:raises-on-nd-values", f"State.revert(mask) raised {type(e).__name__} on per-individual values of shape {shape}: {e}", None, None)
    m = torch.tensor([bool(x) for x in mask]).reshape((n,) + (1,) * (len(shape) - 1))
    exp_x = torch.where(m, old, new)
    exp = dict(x=exp_x, y=2 * exp_x + 1, z=(2 * exp_x + 1).sum())
    for k in ("x", "y", "z"):
        if not T.same_tensor(got[k], exp[k]):
            return ("partial-revert:wrong-rows-on-nd-values", f"after State.revert(mask) on values of shape {shape}, '{k}' is not (previous rows where "
                    "rejected, proposed rows where accepted) / its value derived from that", str(exp[k])[:300], str(got[k])[:300])
    return None


def directed_shapes(run: Run):
    """Per-individual values of the shapes the shipped models use ((n,), (n,1), (n,2), (n,2,3)), every mask for n = 3 with the default
    right-broadcast.  Outside the Coq vocabulary (1-d values): implementation-side oracle only."""
    n = 3
    for shape in [(n,), (n, 1), (n, 2), (n, 2, 3)]:
        for mask in itertools.product([True, False], repeat=n):
            run.case(("shapes", shape, mask), nontrivial=True, validated=False)
            run.count("directed_shapes", str(shape))
            r = shape_case(shape, mask)
            if r is not None:
                run.fail(r[0], r[1], dict(shape=list(shape), mask=[int(m) for m in mask], graph="x -> y = 2x+1 -> z = sum(y)"), expected=r[2], observed=r[3])
                return


# ----------------------------------------------------------------------------- real sampler steps on real model states


def tv(v):
    return v.weighted_value if hasattr(v, "weighted_value") else v


def clone_val(v):
    if v is None:
        return None
    if hasattr(v, "weighted_value"):
        return type(v)(v.value.detach().clone(), None if v.weight is None else v.weight.detach().clone())
    return v.detach().clone()


def rows_equal(a, b, rows):
    """bit-for-bit equality of the given rows (first axis) of two state values"""
    import torch
    if hasattr(a, "weighted_value") != hasattr(b, "weighted_value"):
        return False
    pairs = [(a, b)]
    if hasattr(a, "weighted_value"):
        pairs = [(a.value, b.value)]
        if (a.weight is None) != (b.weight is None):
            return False
        if a.weight is not None:
            pairs.append((a.weight, b.weight))
    idx = torch.as_tensor(rows, dtype=torch.long)
    for x, y in pairs:
        if x.shape != y.shape or x.dtype != y.dtype:
            return False
        if x.ndim == 0 or len(rows) == 0:
            continue
        xs, ys = x[idx], y[idx]
        same = (xs == ys) | (xs.isnan() & ys.isnan()) if xs.is_floating_point() else (xs == ys)
        if not bool(same.all()):
            return False
    return True


def has_nonfinite(v):
    import torch
    t = tv(v)
    return bool((~torch.isfinite(t)).any()) if t.is_floating_point() else False


class Watch:
    """Wraps (never replaces) State.put / State.revert and the two Metropolis decisions while one sampler runs."""

    def __init__(self, state):
        self.state = state
        self.events = []

    def __enter__(self):
        from leaspy.samplers.base import AbstractSampler
        from leaspy.variables.state import State
        self.State, self.AS = State, AbstractSampler
        self.o_put, self.o_rev = State.put, State.revert
        self.o_ms, self.o_gms = AbstractSampler._metropolis_step, AbstractSampler._group_metropolis_step
        w = self

        def put(st, name, value, **k):
            if st is w.state:
                w.events.append(("put", name, {n: clone_val(v) for n, v in st._values.items()}, k.get("indices", ())))
            r = w.o_put(st, name, value, **k)
            if st is w.state:
                w.events.append(("proposed", name, clone_val(st._values[name])))
            return r

        def revert(st, subset=None, **k):
            if st is w.state:
                w.events.append(("before-revert", None if subset is None else subset.detach().clone(),
                                 {n: clone_val(v) for n, v in st._values.items()},
                                 None if st._last_fork is None else {n: clone_val(v) for n, v in st._last_fork.items()}))
            return w.o_rev(st, subset, **k)

        def ms(s_, alpha):
            r = w.o_ms(s_, alpha)
            w.events.append(("decision", bool(r), float(alpha)))
            return r

        def gms(s_, alpha):
            r = w.o_gms(s_, alpha)
            w.events.append(("decisions", r.detach().clone(), alpha.detach().clone()))
            return r
        State.put, State.revert = put, revert
        AbstractSampler._metropolis_step, AbstractSampler._group_metropolis_step = ms, gms
        return self

    def __exit__(self, *exc):
        self.State.put, self.State.revert = self.o_put, self.o_rev
        self.AS._metropolis_step, self.AS._group_metropolis_step = self.o_ms, self.o_gms
        return False


def fresh_from(state, settable):
    from leaspy.variables.state import State
    f = State(state.dag)
    for n in settable:
        v = state._values[n]
        if v is not None:
            f[n] = v
    return f


def read_all(st, names):
    out = {}
    for n in names:
        try:
            out[n] = ("ok", st[n])
        except Exception as e:  # noqa
            out[n] = ("err", type(e).__name__)
    return out


def same_read(a, b):
    return a[0] == b[0] and (T.same_tensor(a[1], b[1]) if a[0] == "ok" else a[1] == b[1])


def describe(v):
    t = tv(v) if v is not None and not isinstance(v, str) else v
    return str(t)[:300]


class SamplerOracle:
    def __init__(self, run, label, algo, state):
        from leaspy.variables.specs import IndividualLatentVariable
        self.run, self.label, self.algo, self.state = run, label, algo, state
        self.dag = state.dag
        self.names = list(self.dag.sorted_variables_names)
        self.settable = [n for n in self.names if self.dag[n].is_settable]
        self.ind_vars = set(self.dag.sorted_variables_by_type.get(IndividualLatentVariable, {}))
        st = state
        n_ind = st[sorted(self.ind_vars)[0]].shape[0]
        self.n_ind = n_ind
        # which nodes carry the individual axis: probe the shapes of everything readable
        self.axis = {}
        probe = T.probe_of(st)
        for n in self.names:
            try:
                v = probe[n]
                self.axis[n] = (tv(v).ndim >= 1 and tv(v).shape[0] == n_ind and n not in ("t", "y")
                                and any(a in self.ind_vars for a in list(self.dag.sorted_ancestors[n]) + [n]))
            except Exception:  # noqa
                self.axis[n] = False

    def fail(self, sig, what, meta, expected=None, observed=None):
        self.run.count("sampler_oracle", sig)
        self.run.fail(sig, what, dict(config=self.label, **meta), expected=expected, observed=observed)

    def raised(self, meta, directed, e):
        """A node function refusing an extreme DIRECTED proposal is not a rejection (outside the property: counted).  A sampler call
        with its own proposals on the live state of a fit must complete: the steps before it left the state unusable."""
        self.run.count("sampler_raised", f"{meta['sampler']}({'directed' if directed is not None else 'natural'}): {type(e).__name__}")
        if directed is None:
            self.fail("sampler:natural-step-raises", f"{meta['sampler']}.sample on '{meta['variable']}' raised {type(e).__name__}: {str(e)[:200]} "
                      "on the live state of a fit (own proposals): an earlier accepted / rejected proposal left the state inconsistent", meta)

    def end_of_step_fresh(self, meta, leak_possible):
        """all reads of the state equal the reads of a fresh state holding the same independent values"""
        st = self.state
        a = read_all(T.probe_of(st), self.names)
        b = read_all(fresh_from(st, self.settable), self.names)
        for n in self.names:
            if same_read(a[n], b[n]):
                continue
            nan_only = False
            if a[n][0] == "ok" and b[n][0] == "ok" and tv(a[n][1]).shape == tv(b[n][1]).shape and tv(a[n][1]).is_floating_point():
                x, y = tv(a[n][1]), tv(b[n][1])
                diff = ~((x == y) | (x.isnan() & y.isnan()))
                nan_only = bool(diff.any()) and bool(x[diff].isnan().all())
            if leak_possible and nan_only:
                self.fail(SIG_F2, WHAT_F2 + f" [{meta['sampler']} on '{meta['variable']}', node '{n}']", dict(node=n, **meta),
                          expected=describe(b[n][1]), observed=describe(a[n][1]))
            else:
                self.fail("sampler:stale-or-leaked-derived-value", f"after {meta['sampler']}.sample on '{meta['variable']}' the read of '{n}' differs from a "
                          "fresh state holding the same latent values: the rejected / accepted proposals left a trace in the cache",
                          dict(node=n, **meta), expected=describe(b[n][1]), observed=describe(a[n][1]))
            return False
        return True

    # -- population sampler: one call = a sequence of blocks
    def population(self, name, T_inv, rep, directed=None, force_z=None, label=None):
        """`force_z(k, natural)`: value the k-th torch.randn call of this `sample` returns (c03.Recorder: the natural draw is still
        drawn; the property fixes the proposal GIVEN the normal draw).  Returns the list of blocks (alpha, accepted) or None."""
        import torch
        from harness.props import c03
        st, sampler = self.state, self.algo.samplers[name]
        meta = dict(sampler=type(sampler).__name__, variable=name, temperature_inv=T_inv, rep=rep, directed=directed if label is None else label)
        orig_change = sampler._proposed_change_idx
        if directed is not None:
            def change(idx, _d=directed, _o=orig_change):
                c = _o(idx)
                return torch.full_like(c, _d)
            sampler._proposed_change_idx = change
        try:
            with Watch(st) as w, c03.Recorder(force_z=force_z):
                sampler.sample(st, temperature_inv=T_inv)
        except Exception as e:  # noqa
            self.raised(meta, directed if label is None else label, e)
            return
        finally:
            if directed is not None:
                del sampler._proposed_change_idx
        # split the events into blocks
        blocks, cur = [], None
        for ev in w.events:
            if ev[0] == "put":
                cur = dict(pre=ev[2], idx=ev[3], reverted=False)
                blocks.append(cur)
            elif cur is not None and ev[0] == "proposed":
                cur["proposed"] = ev[2]
            elif cur is not None and ev[0] == "decision":
                cur["accepted"], cur["alpha"] = ev[1], ev[2]
            elif cur is not None and ev[0] == "before-revert":
                cur["reverted"], cur["mask"], cur["at_revert"] = True, ev[1], ev[2]
        self.last_blocks = [dict(alpha=b.get("alpha"), accepted=b.get("accepted")) for b in blocks]
        # the value of the variable after block k = its value before block k+1 (or now)
        leak = False
        for k, b in enumerate(blocks):
            after = blocks[k + 1]["pre"] if k + 1 < len(blocks) else {n: v for n, v in st._values.items()}
            self.run.case(("pop", self.label, name, T_inv, rep, k, str(directed if label is None else label)), nontrivial=True, validated=False)
            self.run.count("pop_block", "accepted" if b.get("accepted") else "rejected")
            if "accepted" not in b:
                self.fail("sampler:no-decision-recorded", "a proposal was made without a Metropolis decision", dict(block=k, **meta))
                return
            if any(v is not None and has_nonfinite(v) for v in (b.get("at_revert") or {}).values()):
                self.run.count("pop_block", "non-finite evaluation before the decision")
            if not b["accepted"]:
                # every value cached before the proposal — independent or derived — is exactly back
                for n, old in b["pre"].items():
                    if old is None:
                        continue
                    new = after.get(n)
                    if new is None or not T.same_tensor(old, new):
                        self.fail("pop-sampler:rejected-block-not-restored", f"{meta['sampler']} on '{name}': after a REJECTED block the value of '{n}' "
                                  "is not the value it had before the proposal", dict(block=k, idx=list(b["idx"]), node=n, alpha=b["alpha"], **meta),
                                  expected=describe(old), observed=describe(new))
                        return
            else:
                if not T.same_tensor(after[name], b["proposed"]):
                    self.fail("pop-sampler:accepted-block-not-kept", f"{meta['sampler']} on '{name}': after an ACCEPTED block the variable is not the proposed value",
                              dict(block=k, idx=list(b["idx"]), **meta), expected=describe(b["proposed"]), observed=describe(after[name]))
                    return
        self.end_of_step_fresh(meta, leak)
        return [dict(alpha=b.get("alpha"), accepted=b.get("accepted")) for b in blocks]

    # -- individual sampler: one call = one proposal for all individuals
    def individual(self, name, T_inv, rep, directed=None, force_z=None, sampler=None):
        """`directed = (label, delta)` replaces the proposal; `directed = (label, None)` + `force_z(k, natural)` forces the normal draw of
        the real `_proposed_change` instead (c03.Recorder).  `sampler`: the sampler object to run (default: the fit's own).
        Returns dict(alpha, accepted) of the step, or None."""
        import torch
        from harness.props import c03
        st = self.state
        self.last_info = None
        sampler = self.algo.samplers[name] if sampler is None else sampler
        meta = dict(sampler=type(sampler).__name__, variable=name, temperature_inv=T_inv, rep=rep, directed=None if directed is None else directed[0],
                    n_individuals=self.n_ind)
        replace = directed is not None and directed[1] is not None
        if replace:
            delta = directed[1]
            sampler._proposed_change = lambda _d=delta: _d.clone()
        try:
            with Watch(st) as w, c03.Recorder(force_z=force_z):
                sampler.sample(st, temperature_inv=T_inv)
        except Exception as e:  # noqa
            self.raised(meta, directed, e)
            return
        finally:
            if replace:
                del sampler._proposed_change
        ev = {e[0]: e for e in w.events}
        if "put" not in ev or "decisions" not in ev:
            self.fail("sampler:no-decision-recorded", "the individual sampler made no proposal / decision", meta)
            return
        pre, proposed = ev["put"][2], ev["proposed"][2]
        accepted = ev["decisions"][1].to(torch.bool)
        info = dict(alpha=ev["decisions"][2], accepted=accepted)
        self.last_info = info
        rej = [j for j in range(self.n_ind) if not bool(accepted[j])]
        acc = [j for j in range(self.n_ind) if bool(accepted[j])]
        # the decision consumes the undo log: `state.revert(~accepted)` is what gibbs.py:758 does after EVERY decision (model: ind_step ends
        # with RevertMask; theorem C02_ind_step: fork st' = None).  A fork still pending when `sample` returns means no reversion took place.
        if st._last_fork is not None:
            alpha_l = [repr(float(a)) for a in ev["decisions"][2].flatten().tolist()]
            if rej:
                self.fail("ind-sampler:rejected-proposal-not-reverted", f"IndividualGibbsSampler on '{name}': individuals {rej} were rejected "
                          f"(acceptance ratios {alpha_l}; a ratio that cannot be evaluated — NaN — is a rejection) but `sample` returned without reverting: "
                          "the undo log of the proposal is still pending and the rejected individuals keep the proposed value",
                          dict(rejected=rej, alpha=alpha_l, **meta), expected="state._last_fork is None (state.revert(~accepted) consumed it)",
                          observed=f"state._last_fork still holds {sorted(st._last_fork)[:6]}")
            else:
                self.run.count("sampler_oracle", "ind-sampler:fork-left-pending-after-all-accepted-step")
                self.run.fail("ind-sampler:fork-left-pending", f"IndividualGibbsSampler on '{name}': every individual was accepted and `sample` returned with the undo log "
                              "of the proposal still pending: the step is not the modelled script (put; reads; decide; revert(~accepted): C02_ind_step has "
                              "fork = None afterwards) — a later `state.revert()` by any caller silently undoes the ACCEPTED proposal instead of being refused",
                              dict(config=self.label, alpha=alpha_l, **meta), expected="state._last_fork is None", observed=f"pending fork on {sorted(st._last_fork)[:6]}",
                              kind="broken-correspondence")
        self.run.case(("ind", self.label, name, T_inv, rep, str(meta["directed"])), nontrivial=bool(rej) and bool(acc), validated=False)
        self.run.count("ind_step_rejected_fraction", f"{round(10 * len(rej) / self.n_ind) * 10}%")
        at_rev = ev["before-revert"][2] if "before-revert" in ev else {}
        fork = (ev["before-revert"][3] or {}) if "before-revert" in ev else {}
        # was something non-finite on a discarded side?  (cached on both sides, rejected row & current non-finite / accepted row & old non-finite)
        leak = False
        for n, old in fork.items():
            cur = at_rev.get(n)
            if old is None or cur is None:
                continue
            to, tc = tv(old), tv(cur)
            if to.is_floating_point() and to.ndim >= 1 and to.shape[0] == self.n_ind:
                bad_c = (~torch.isfinite(tc)).reshape(self.n_ind, -1).any(dim=1)
                bad_o = (~torch.isfinite(to)).reshape(self.n_ind, -1).any(dim=1)
                if bool((bad_c & ~accepted).any()) or bool((bad_o & accepted).any()):
                    leak = True
        if leak:
            self.run.count("ind_step", "non-finite value on a discarded side")
        if any(v is not None and has_nonfinite(v) for n, v in at_rev.items() if n in fork):
            self.run.count("ind_step", "non-finite evaluation before the decision")
        # the sampled variable: rejected rows = previous rows, accepted rows = proposed rows, bit for bit
        now = st._values[name]
        ridx, aidx = torch.as_tensor(rej, dtype=torch.long), torch.as_tensor(acc, dtype=torch.long)
        if now is None or not rows_equal(now, pre[name], rej):
            # the variable itself: a non-finite PROPOSED value of a rejected individual is a discarded side too
            nan_only = (now is not None and bool((~torch.isfinite(tv(proposed)[ridx])).any())
                        and bool((tv(now)[ridx].isnan() | (tv(now)[ridx] == tv(pre[name])[ridx])).all()))
            self.fail(SIG_F2 if nan_only else "ind-sampler:rejected-rows-not-restored",
                      (WHAT_F2 + f" [IndividualGibbsSampler on '{name}', the variable itself]") if nan_only else
                      f"IndividualGibbsSampler on '{name}': rows of REJECTED individuals are not the previous values",
                      dict(rejected=rej, **meta), expected=describe(pre[name]), observed=describe(now))
            if not nan_only:
                return
            leak = True
        elif not rows_equal(now, proposed, acc):
            nan_only = (bool((~torch.isfinite(tv(pre[name])[aidx])).any())
                        and bool((tv(now)[aidx].isnan() | (tv(now)[aidx] == tv(proposed)[aidx])).all()))
            self.fail(SIG_F2 if nan_only else "ind-sampler:accepted-rows-not-kept",
                      (WHAT_F2 + f" [IndividualGibbsSampler on '{name}', the variable itself]") if nan_only else
                      f"IndividualGibbsSampler on '{name}': rows of ACCEPTED individuals are not the proposed values",
                      dict(accepted=acc, **meta), expected=describe(proposed), observed=describe(now))
            if not nan_only:
                return
            leak = True
        # other independent variables untouched; derived per-individual values cached before AND now: rejected rows bit-identical
        for n, old in pre.items():
            cur = st._values[n]
            if old is None or n == name:
                continue
            if n in self.settable or n not in self.dag.sorted_children[name]:
                if cur is None or not T.same_tensor(old, cur):
                    self.fail("ind-sampler:unrelated-value-changed", f"IndividualGibbsSampler on '{name}': the value of '{n}', which does not depend on it, changed",
                              dict(node=n, **meta), expected=describe(old), observed=describe(cur))
                    return
            elif cur is not None and self.axis.get(n):
                if not rows_equal(cur, old, rej):
                    nan_only = leak and tv(cur).is_floating_point() and bool(tv(cur)[torch.as_tensor(rej, dtype=torch.long)].isnan().any())
                    self.fail(SIG_F2 if nan_only else "ind-sampler:rejected-rows-of-derived-value-changed",
                              (WHAT_F2 + f" [IndividualGibbsSampler on '{name}', node '{n}']") if nan_only else
                              f"IndividualGibbsSampler on '{name}': rows of REJECTED individuals of the derived variable '{n}' are not what they were before the proposal",
                              dict(node=n, rejected=rej, **meta), expected=describe(old), observed=describe(cur))
                    return info
        self.end_of_step_fresh(meta, leak)
        return info


def directed_changes(oracle: SamplerOracle, name, rng):
    """extreme proposals for an individual variable: (label, delta tensor)"""
    import torch
    st = oracle.state
    cur = st[name]
    n = oracle.n_ind
    some = [j for j in range(n) if rng.random() < 0.5] or [0]
    out = []
    if name == "xi":
        d = torch.zeros_like(cur)
        d[some] = 100.0
        out.append(("xi += 100", d))
        d = torch.zeros_like(cur)
        d[some] = 1000.0
        out.append(("xi += 1000", d))
    if name == "tau":
        t = tv(st["t"])
        d = torch.zeros_like(cur)
        for j in some:
            d[j, 0] = t[j, 0].to(cur.dtype) - cur[j, 0]
        out.append(("tau = first observed age", d))
        d2 = torch.zeros_like(cur)
        d2[some] = float("inf")
        out.append(("tau = +inf", d2))
        d3 = torch.zeros_like(cur)
        d3[some] = 3e38
        out.append(("tau += 3e38", d3))
    if name == "sources":
        d = torch.zeros_like(cur)
        d[some] = cur[some] * 1e20
        out.append(("sources *= 1e20", d))
        d = torch.zeros_like(cur)
        d[some] = 3e38
        out.append(("sources += 3e38", d))
    return out


def one_individual_state(base, j):
    """A harness-made state of ONE individual (what a 1-subject personalisation works on): same DAG, same population values, data variables and
    individual latent variables restricted to individual `j` (rows j:j+1), auto-fork as in `base`, nothing forked."""
    from leaspy.variables.specs import DataVariable, IndividualLatentVariable
    from leaspy.variables.state import State
    dag = base.dag
    ind = list(dag.sorted_variables_by_type.get(IndividualLatentVariable, {}))
    n = base[ind[0]].shape[0]
    st = State(dag, auto_fork_type=base.auto_fork_type)
    with st.auto_fork(None):
        for name in dag:
            v = base._values[name]
            if not dag[name].is_settable or v is None:
                continue
            if isinstance(dag[name], (DataVariable, IndividualLatentVariable)) and tv(v).ndim >= 1 and tv(v).shape[0] == n:
                v = clone_val(v[j:j + 1])
            st[name] = v
    return st


def z_candidates(shape, std):
    """normal draws (for ONE individual) whose proposal `previous + std * z` cannot be evaluated, or is huge"""
    import torch
    numel = 1
    for d in shape:
        numel *= d
    alt = torch.tensor([INF if i % 2 == 0 else -INF for i in range(numel)]).reshape(shape)
    huge = 3e38 / max(float(std), 1.0)          # std * z <= 3e38 stays a float32
    out = [("z = +inf", torch.full(shape, INF)), ("z = -inf", torch.full(shape, -INF)), ("z = 3e38 / max(std, 1)", torch.full(shape, huge)),
           ("z = 0 (null move for everybody: every alpha = 1, all accepted)", torch.zeros(shape))]
    if numel >= 2:
        out.insert(0, ("z = (+inf, -inf, ..)", alt))
        half = torch.tensor([huge if i % 2 == 0 else -huge for i in range(numel)]).reshape(shape)
        out.append(("z = (3e38, -3e38, ..) / max(std, 1)", half))
    return out


def nan_alpha_steps(run: Run, orc: SamplerOracle, algo, base, rng, stats):
    """Directed real-sampler steps around the NaN acceptance ratio (the seeded defect "revert only `if (alpha < 1).any()`"): one individual gets a
    normal draw whose proposal cannot be evaluated (+-inf / huge: alpha is NaN when inf - inf or inf * 0 appears; `rand < nan` is a rejection), every
    other individual of the batch gets the draw 0 (null move: alpha = 1 exactly, accepted) — (a) on a ONE-individual state (no other individual at
    all), (b) on the full cohort with the normal draws of all other individuals FORCED to 0 (c03.Recorder wraps torch.randn for that call; the real
    `_proposed_change` runs).  For `xi` also after `tau := first observed age` of the target (exp(xi) * (t - tau) = inf * 0).  All individual-sampler
    variables of the configuration.  The oracle of `SamplerOracle.individual` then requires: rejected rows of the variable and of every doubly cached
    per-individual derived value bit-identical to the snapshot taken before the proposal, every read equal to a from-scratch evaluation, and
    `state._last_fork is None`.  Population samplers: one block gets the non-finite draw, the other blocks the draw 0."""
    import copy
    import torch
    from leaspy.samplers import IndividualGibbsSampler
    label = orc.label
    n = orc.n_ind
    for name in [v for v in algo.samplers if v in orc.ind_vars]:
        sampler = algo.samplers[name]
        shape = tuple(sampler.shape)
        preps = [None] + (["tau := first observed age"] if (name == "xi" and "tau" in orc.ind_vars and "t" in orc.names) else [])
        for prep in preps:
            for scen in ("single individual", "others forced to a null move"):
                j0 = rng.randrange(n)
                for lab, zrow in z_candidates(shape, float(sampler.std.flatten()[j0 if scen != "single individual" else 0])):
                    if scen == "single individual":
                        st = one_individual_state(base, j0)
                        smp = IndividualGibbsSampler(name, shape, n_patients=1, scale=float(sampler.scale))
                        target, n_here = 0, 1
                    else:
                        st = base.clone()
                        st.auto_fork_type = base.auto_fork_type
                        smp = copy.deepcopy(sampler)
                        target, n_here = j0, n
                    if prep is not None:
                        with st.auto_fork(None):
                            tau = st["tau"].clone()
                            tau[target, 0] = tv(st["t"])[target, 0].to(tau.dtype)
                            st["tau"] = tau
                    z = torch.zeros((n_here, *shape))
                    z[target] = zrow
                    sub = SamplerOracle(run, label, algo, st)
                    full = f"{scen}; {lab}" + (f"; after {prep}" if prep else "")
                    done = sub.individual(name, 1.0, 0, directed=(full, None), force_z=lambda k, nat, _z=z: _z if k == 0 else None, sampler=smp)
                    info = sub.last_info
                    key = f"{name}: {scen}"
                    if done is None:
                        stats["individual"][key + ": a check failed or the step raised"] = stats["individual"].get(key + ": a check failed or the step raised", 0) + 1
                    if info is None:
                        continue
                    a = info["alpha"].flatten()
                    others = [i for i in range(n_here) if i != target]
                    reached = bool(a[target].isnan()) and all(float(a[i]) >= 1 for i in others) and not bool(info["accepted"][target])
                    if bool(info["accepted"].all()):
                        stats["reached"]["all accepted: " + scen] = stats["reached"].get("all accepted: " + scen, 0) + 1
                    kind = ("alpha[target] = NaN, every other alpha >= 1" if reached else
                            "alpha[target] = NaN, some other alpha < 1" if bool(a[target].isnan()) else
                            f"alpha[target] = {'0' if float(a[target]) == 0 else 'inf' if float(a[target]) == INF else 'finite'} (no NaN)")
                    stats["individual"][f"{key}: {kind}"] = stats["individual"].get(f"{key}: {kind}", 0) + 1
                    if reached:
                        stats["reached"][scen] = stats["reached"].get(scen, 0) + 1
                        stats["reached_configs"].add(f"{label}/{name}/{scen}")
    for name in [v for v in algo.samplers if v not in orc.ind_vars]:
        sampler = algo.samplers[name]
        for lab, val in (("z = +inf", INF), ("z = -inf", -INF), ("z = 3e38 / max(std, 1)", None)):
            st = base.clone()
            st.auto_fork_type = base.auto_fork_type
            sub = SamplerOracle(run, label, dict_algo(algo, name, copy.deepcopy(sampler)), st)
            kb = rng.randrange(4)

            def fz(k, nat, _kb=kb, _val=val, _std=float(sampler.std.flatten()[0])):
                v = (3e38 / max(_std, 1.0)) if _val is None else _val
                return torch.full_like(nat, v if k == _kb else 0.0)
            sub.last_blocks = []
            sub.population(name, 1.0, 0, force_z=fz, label=f"block #{kb}: {lab}; other blocks: null move")
            for b in sub.last_blocks:
                a = b["alpha"]
                kind = "NaN" if (a is not None and a != a) else "other"
                stats["population"][f"{name}: alpha {kind}, {'accepted' if b['accepted'] else 'rejected'}"] = \
                    stats["population"].get(f"{name}: alpha {kind}, {'accepted' if b['accepted'] else 'rejected'}", 0) + 1
                if kind == "NaN":
                    stats["reached"]["population block"] = stats["reached"].get("population block", 0) + 1


class dict_algo:
    """the fit's algorithm object with ONE sampler replaced (a deep copy: directed steps must not adapt the fit's own sampler)"""

    def __init__(self, algo, name, sampler):
        self.samplers = dict(algo.samplers)
        self.samplers[name] = sampler


NAN_STATS = dict(individual={}, population={}, reached={}, reached_configs=set())


def real_samplers(run: Run, cfgs, reps):
    import torch
    from harness.props import c03
    NAN_STATS.update(individual={}, population={}, reached={}, reached_configs=set())
    for label, kind, kw, pop in cfgs:
        try:
            algo, state = c03.fitted(run, label, kind, kw, pop)
        except Exception as e:  # noqa
            run.count("shipped", f"{label}: fit failed {type(e).__name__}")
            run.fail("sampler:fit-raises", f"a 3-iteration fit of the shipped kind '{kind}' ({label}) raised {type(e).__name__}: {str(e)[:300]} — the sampler "
                     "steps cannot be observed", dict(config=label, kind=kind, options={k: v for k, v in kw.items()}, sampler_pop=pop))
            continue
        orc = SamplerOracle(run, label, algo, state)
        rng = run.rng("c02-real", label)
        seed = rng.randrange(1, 10 ** 6)
        torch.manual_seed(seed)
        names = list(algo.samplers)
        for rep in range(reps):
            for name in names:
                T_inv = rng.choice([1.0, 0.5, 0.2])
                if name in orc.ind_vars:
                    orc.individual(name, T_inv, rep)
                else:
                    orc.population(name, T_inv, rep)
        # directed extreme proposals (each on a clone of the live state so that one non-finite state does not poison the next)
        base = state
        for name in names:
            if name in orc.ind_vars:
                for lab, delta in directed_changes(orc, name, rng):
                    orc.state = base.clone()
                    orc.state.auto_fork_type = base.auto_fork_type
                    orc.individual(name, 1.0, 0, directed=(lab, delta))
            else:
                for d in (50.0, 100.0):
                    orc.state = base.clone()
                    orc.state.auto_fork_type = base.auto_fork_type
                    orc.population(name, 1.0, 0, directed=d)
        orc.state = base
        try:
            nan_alpha_steps(run, orc, algo, base, rng, NAN_STATS)
        except Exception as e:  # noqa
            import traceback
            run.broken("real-sampler-oracle:nan-alpha-steps", f"{label}: {type(e).__name__}: {e}\n{traceback.format_exc()[-1500:]}")
        run.count("shipped", f"{label}: {len(names)} samplers on a {len(orc.names)}-node graph, {orc.n_ind} individuals, torch seed {seed}")


# ----------------------------------------------------------------------------- entry points


def main(run: Run):
    thorough = run.tier == "thorough"
    run.prove("C02", OBLIGATIONS)
    from harness.common import use_impl
    use_impl()
    import torch
    torch.set_num_threads(2)
    run.rule = ("(i) toy DAGs (1-2 per-individual variables, optional population scalar / hyper-parameter, per-individual nodes: log2 of a "
                "variable, integer affine maps of 1-3 parents; aggregating nodes summing over individuals; scalar nodes on top; 1-4 "
                "individuals; int64 or float64 with +-inf / NaN produced by log2 of 0 / negative values and by inf-inf) built as real "
                "LinkedVariables; sampler-shaped histories: fork REF/COPY, initial assignments, reads, then 1-3 steps (individual step: any "
                "reads, put(+delta), reads allowed by the documented contract, revert(mask); block step: put on the whole variable or one "
                "index, ANY reads, revert() or not), then a read of every variable; one individual step per template is instantiated with "
                "EVERY mask of {rejected, accepted}^n (exhaustive over masks, n <= 4); every result compared with the model inside Coq and "
                "every read after each step compared with a fresh State holding previous values on the rejected part / proposals on the "
                "accepted part. (ii) real Gibbs sampler calls (every population kind configured, individual sampler) on the live states of "
                "short fits of shipped model kinds, draws from a recorded torch seed, plus directed extreme proposals. Non-trivial = every "
                "toy history (it contains a rejection or an acceptance followed by reads); a real individual step with both rejected and "
                "accepted individuals; every real population block.")
    run.exhaustive = False
    run.explanation = ("The theorems quantify over all graphs / values / reads / masks / later histories of the model; the tie runs the model's "
                       "step function inside Coq on the sampler-shaped histories executed by the real State for every mask; the oracle "
                       "rebuilds, outside State, the independent values a trace-free rejection must leave and compares every read bit for bit; "
                       "on real models it snapshots all cached values before each proposal and compares rejected blocks / rows bit for bit, "
                       "accepted ones against the proposal and a from-scratch evaluation.")
    run.assumptions += [
        "WF g (C15), recomputed by wf_b on every toy graph",
        "F_mix: node functions of per-individual nodes act row by row (C07); proved for one-parent entry-wise toy functions, executed otherwise",
        "documented preconditions of revert(mask): sampled variable per individual, reads of per-individual nodes only between proposal and decision, shapes consistent with the mask",
        "model of the code as it is: mix = old*mask + cur*~mask (xsem); proposed repair: torch.where (xsem_where)",
    ]
    run.trusted += ["harness/props/state_toy.py: toy-graph builder, executor, canonicalisation (exact integers / inf / nan)",
                    "harness/props/c02.py: reference values computed in Python (IEEE arithmetic on exact integers), recording wrappers of State.put/revert and of the Metropolis decisions",
                    "torch element-wise kernels, index_put, deepcopy (modelled, not verified)"]
    try:
        directed_f2(run)
    except Exception as e:  # noqa
        run.broken("directed-F2", f"{type(e).__name__}: {e}")
    try:
        directed_shapes(run)
    except Exception as e:  # noqa
        run.broken("directed-shapes", f"{type(e).__name__}: {e}")
    try:
        T.directed_select(run)
    except Exception as e:  # noqa
        import traceback
        run.broken("directed-nd-select", f"{type(e).__name__}: {e}\n{traceback.format_exc()[-1500:]}")
    try:
        toy_steps(run, 400 if thorough else 120)
    except Exception as e:  # noqa
        import traceback
        run.broken("toy-steps", f"{type(e).__name__}: {e}\n{traceback.format_exc()[-1500:]}")
    try:
        toy_steps(run, 160 if thorough else 50, weighted=True)
    except Exception as e:  # noqa
        import traceback
        run.broken("toy-steps-weighted", f"{type(e).__name__}: {e}\n{traceback.format_exc()[-1500:]}")
    try:
        toy_steps(run, 200 if thorough else 60, mixed=True)
    except Exception as e:  # noqa
        import traceback
        run.broken("toy-steps-mixed-dtypes", f"{type(e).__name__}: {e}\n{traceback.format_exc()[-1500:]}")
    from harness.props import c03
    cfgs = c03.configs(thorough)
    if not thorough:
        keep = {"logistic-gibbs", "logistic-fastgibbs", "logistic-mh", "linear-gibbs", "joint-gibbs", "mixture-gibbs"}
        cfgs = [c for c in cfgs if c[0] in keep]
    try:
        real_samplers(run, cfgs, reps=6 if thorough else 3)
    except Exception as e:  # noqa
        import traceback
        run.broken("real-sampler-oracle", f"{type(e).__name__}: {e}\n{traceback.format_exc()[-1500:]}")
    st = dict(NAN_STATS)
    st["reached_configs"] = sorted(st["reached_configs"])
    st["note"] = ("directed real IndividualGibbsSampler steps in which ONE individual gets a normal draw whose proposal cannot be evaluated and every other "
                  "individual of the batch a null move (draw forced to 0), on a one-individual state and on the full cohort; 'reached' = the recorded "
                  "acceptance ratios are NaN for the target and >= 1 for everybody else (the step in which a reversion guarded by `(alpha < 1).any()` "
                  "is skipped); population samplers: one block with the non-finite draw, the others with the draw 0")
    run.extra["nan_alpha_steps"] = st
    for scen in ("single individual", "others forced to a null move", "population block", "all accepted: single individual",
                 "all accepted: others forced to a null move"):
        if cfgs and not NAN_STATS["reached"].get(scen):
            run.broken("generator:nan-alpha-shape", f"no directed sampler step reached the shape '{scen}' with a NaN acceptance ratio for the target and "
                       f"alpha >= 1 for everybody else: {json.dumps(st, default=str)[:1500]}", kind="broken-correspondence")
    return run.finish()


def replay(run: Run, path: str):
    from harness.common import use_impl
    use_impl()
    import torch
    torch.set_num_threads(2)
    d = json.load(open(path))
    inp = d.get("input") or {}
    if "select" in inp:
        c = inp["select"]
        observed, exc, fork_none = T.exec_select(c)
        print(f"x := {c['old']} (forked); x := {c['cur']}; revert({c['mask']}, right_broadcasting={c['rb']})")
        print(f"  -> x = {observed}" + (f"   raised {exc}" if exc else "") + f"   _last_fork cleared: {fork_none}")
        wrong = False
        fill, _ = T.detect_select_fill_variant()
        print(f"  rule of `_select` for a side without weights on this tree: {fill} ('ones' = fully weighted, the repaired rule; 'other' = the other side's weight)")
        if T.select_contract(c["old"], c["cur"], c["mask"], c["rb"], "ones"):
            ref = T.select_reference(c["old"], c["cur"], c["mask"], c["rb"])
            got = None if observed is None else {k: observed.get(k) for k in ref}
            print(f"  documented rows: {ref}")
            wrong = got != ref or not fork_none
        masked = T.one_sided_trace(c, observed)
        if masked:
            print(f"  entries taken from the side WITHOUT weight that now have weight 0 (index paths): {masked}")
            wrong = True
        r = run.vm_bad_indices("replay", T.SELECT_HEADER, T.SELECT_CASE_TYPE, [T.select_case_coq(c, observed, T.CLAIMED_FILL)], "check_nselect")
        print("model of the code as repaired (nselect_torch / nselect: a side without weights is fully weighted) agrees with the implementation on this call:", r == [])
        wrong = wrong or bool(r) or fill != T.CLAIMED_FILL
        print("REPLAY", "FAILS" if wrong else "passes")
        return 1 if wrong else 0
    if "shape" in inp:
        r = shape_case(inp["shape"], inp["mask"])
        print(f"x -> y = 2x+1 -> z = sum(y), values of shape {inp['shape']}, revert(mask={inp['mask']}):", "as expected" if r is None else f"{r[1]}\n expected {r[2]}\n observed {r[3]}")
        print("REPLAY", "FAILS" if r else "passes")
        return 1 if r else 0
    if not isinstance(inp.get("graph"), dict) and isinstance(inp.get("config"), str) and "directed" in inp and inp.get("sampler") == "IndividualGibbsSampler" \
            and isinstance(inp.get("directed"), str) and ("single individual" in inp["directed"] or "null move" in inp["directed"]):
        # a directed NaN-acceptance-ratio step: refit the configuration (same derived seed) and redo the directed steps of that configuration
        from harness.props import c03
        cfg = next((c for c in c03.configs(True) if c[0] == inp["config"]), None)
        if cfg is None:
            print(f"replay: unknown configuration {inp['config']}; re-running the check")
            return main(run)
        label, kind, kw, pop = cfg
        algo, state = c03.fitted(run, label, kind, kw, pop)
        orc = SamplerOracle(run, label, algo, state)
        NAN_STATS.update(individual={}, population={}, reached={}, reached_configs=set())
        nan_alpha_steps(run, orc, algo, state, run.rng("c02-replay", label), NAN_STATS)
        print(f"{label}: directed steps with a non-evaluable proposal for one individual and null moves for the others "
              f"(recorded: {inp.get('variable')}, {inp['directed']}, {inp.get('n_individuals')} individual(s)):")
        for k, v in sorted(NAN_STATS["individual"].items()):
            print(f"   {v:3d} x {k}")
        for f in run._fails[:6]:
            print(f"TRACE LEFT [{f['signature']}] {f['what'][:300]}\n   input {json.dumps(f['input'], default=str)[:400]}\n   expected {str(f['expected'])[:200]}\n   observed {str(f['observed'])[:200]}")
        print("REPLAY", "FAILS" if run._fails else "passes")
        return 1 if run._fails else 0
    if not isinstance(inp.get("graph"), dict):
        print("replay: no toy history in this file (real-sampler finding or broken obligation); re-running the check")
        return main(run)
    G = T.ToyGraph.from_json(inp["graph"])
    G.build()
    if "template" in inp:
        G.log_vars = {nd["parents"][0] for nd in G.nodes if nd["kind"] == "linked" and nd["fun"][0] == "log2"}
        G.mixed = any("pdtype" in st for st in inp["template"]["steps"])       # a mixed-dtype template (every proposal has its own dtype)
        sr = StepRun(run, G, inp["template"], inp["mask"]).go()
        for op, out, ok in sr.s.records:
            print(f"  {op}  ->  {out}")
        for f in sr.failures:
            print(f"TRACE LEFT after step {f['step']}: node {f['node']}: read {f['observed']} but the reference state gives {f['expected']}  [{f['sig']}]")
        if G.mixed:
            st0 = sr.s.states[0]
            print("  dtypes held by the state at the end:", {n: dt_name(st0._values[n].dtype) for n in G.settable() if st0._values[n] is not None})
        if G.weighted:
            r = rw = run.vm_bad_indices("replay", WHEADER, WCASE_TYPE, [sr.s.coq_case()], "(check_wcase_with wsem_where false)")
            print("implementation agrees with the model (weighted values: `_select` = row-wise selection of value AND weight):", r == [])
        else:
            r = run.vm_bad_indices("replay", HEADER, CASE_TYPE, [sr.s.coq_case()], "check_code")
            rw = run.vm_bad_indices("replay_w", HEADER, CASE_TYPE, [sr.s.coq_case()], "check_where")
            print("implementation agrees with the model of the code as it is:", r == [], "| with the model of the repair (torch.where):", rw == [])
        bad = bool(sr.failures) or (bool(r) and bool(rw))
    else:
        s = T.run_ops(G, inp["ops"], oracle=False)
        for op, out, ok in s.records:
            print(f"  {op}  ->  {out}")
        if G.weighted:
            r = rw = run.vm_bad_indices("replay", WHEADER, WCASE_TYPE, [s.coq_case()], "(check_wcase_with wsem_where false)")
            print("implementation agrees with the model (weighted values: `_select` = row-wise selection of value AND weight):", r == [])
            print("REPLAY", "FAILS" if r else "passes")
            return 1 if r else 0
        r = run.vm_bad_indices("replay", HEADER, CASE_TYPE, [s.coq_case()], "check_code")
        rw = run.vm_bad_indices("replay_w", HEADER, CASE_TYPE, [s.coq_case()], "check_where")
        print("implementation agrees with the model of the code as it is:", r == [], "| with the model of the repair (torch.where):", rw == [])
        last = s.records[-1][1]
        bad = (bool(r) and bool(rw)) or (inp.get("node") == "y" and last != ("ok", [0, 2]))
        if inp.get("node") == "y":
            print(f"read of y after the partial revert: {last}; the previous value of the rejected individual was 0")
    print("REPLAY", "FAILS" if bad else "passes")
    return 1 if bad else 0
