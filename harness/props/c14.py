"""C14 — data ingestion yields one canonical tensor form and rejects malformed input."""
from __future__ import annotations

import copy
import json
import math
from fractions import Fraction

from harness.common import Run, coq_Q, coq_bool, coq_list, coq_string, frac
from harness.translate import c14_readers

META = dict(
    technique="Coq theorems (structural induction over the row list, Permutation) on a line-by-line model of the dataframe readers, "
              "IndividualData.add_observations, Dataset tensor construction and Dataset.to_pandas; the model is executed inside Coq "
              "(vm_compute, exact rationals, executable float64/float32 rounding) on the same generated tables as the implementation "
              "and every output tensor / counter / error class is compared there; the decision logic of the four dataframe readers (ordered "
              "checks with their operators, constants, quantifiers, aggregates, exception classes) is regenerated from the source by a "
              "fail-closed python-ast translator and proved in Coq to be the table the model implements (interpreter of the table = model)",
    level_text="Unbounded theorems (every table, every row permutation, every missing pattern, every layout): ages strictly sorted, "
               "ages/values/mask aligned, mask = real visit and value present, visit and observation counts, individuals in order of first "
               "appearance, row-order invariance (per individual always; whole dataset when first appearances keep their order), every "
               "malformation class of the property text is refused with a data-input error, partial round trip; the full round trip is "
               "refuted twice on the faithful model (order by ID, float32 age collision) and both witnesses replay on the code.",
    level_note="Trusted: Coq kernel (no axiom: all theorems closed under the global context); the translator harness/translate/c14_readers.py "
               "(expected statement skeletons, statements declared without counterpart in the model); pandas semantics as modelled "
               "(groupby(sort=False) order, join, round, duplicated, infer_dtype), numpy/torch float casts (re-executed in Coq by Io/F32.v "
               "and compared exactly), the harness encoding of a generated table both as DataFrame and as Coq literal. Not covered: CSV "
               "parsing, cofactors, column labels other than the covariate names, float64 ties of round(x*1e6).",
    design_ref="DESIGN.md section 4 C14",
)

OBLIGATIONS = [
    "C14_sorted", "C14_aligned", "C14_mask_exact", "C14_counts_partial", "C14_order",
    "C14_row_order_invariant_data", "C14_row_order_invariant", "C14_row_order_invariant_whole",
    "C14_rejects", "C14_rejects_never_accepted",
    "C14_roundtrip_partial", "C14_roundtrip_order_refuted", "C14_roundtrip_collision_refuted", "C14_roundtrip_covariate_refuted",
    "C14_categorical_lost_individual_refuted", "C14_event_indicator_nan_refuted", "C14_categorical_id_refuted",
    # source-level tie (T1): the decision table regenerated from the readers' source
    "C14_src_table", "C14_src_is_model", "C14_src_rejects", "C14_src_rejects_never_accepted",
    "C14_src_rejects_event_before_max_age", "C14_src_row_order_invariant_data",
]

NAN = float("nan")
INF = float("inf")


def translate(run: Run) -> bool:
    """T1: regenerate coq/gen/GenC14.v (the ordered decision table of the four dataframe readers) from $VERIF_REPO/src/leaspy."""
    return c14_readers.translate(run)


# ----------------------------------------------------------------------------- table specs
# A spec is a JSON-serialisable description of the caller's table; floats are written with float.hex()
# so that a replay rebuilds the same bits.


def enc(x):
    if x is None:
        return None
    if isinstance(x, float):
        return x.hex() if math.isfinite(x) else repr(x)
    return x


def dec(x):
    if isinstance(x, str):
        if x in ("nan", "inf", "-inf"):
            return float(x)
        return float.fromhex(x)
    return x


def spec_json(spec):
    s = dict(spec)
    for k in ("time", "evt", "evb"):
        if s.get(k) is not None:
            s[k] = [enc(v) for v in s[k]]
    for k in ("vals", "cov"):
        if s.get(k) is not None:
            s[k] = [[enc(v) for v in r] for r in s[k]]
    return s


def spec_from_json(s):
    s = dict(s)
    for k in ("time", "evt", "evb"):
        if s.get(k) is not None:
            s[k] = [dec(v) for v in s[k]]
    for k in ("vals", "cov"):
        if s.get(k) is not None:
            s[k] = [[dec(v) for v in r] for r in s[k]]
    return s


def build_df(spec):
    """The caller's pandas table for a spec."""
    import numpy as np
    import pandas as pd
    n = len(spec["ids"])
    cols = {}
    it = spec["id_type"]
    ids = spec["ids"]
    if it in ("cat-str", "cat-int"):
        cols["ID"] = pd.Categorical(ids)
    elif it == "int":
        cols["ID"] = pd.Series(ids, dtype="int64") if all(i is not None for i in ids) else pd.Series(ids)
    elif it == "float":
        cols["ID"] = pd.Series([float(i) for i in ids], dtype="float64")
    else:  # str, mixed, bool
        cols["ID"] = pd.Series(ids, dtype=object) if it != "bool" else pd.Series([bool(i) for i in ids])
    L = spec["layout"]
    if L != "event":
        td = spec.get("time_dtype", "float")
        if td == "int":
            cols["TIME"] = pd.Series([int(t) for t in spec["time"]], dtype="int64")
        elif td == "object":
            cols["TIME"] = pd.Series([repr(t) for t in spec["time"]], dtype=object)
        else:
            cols["TIME"] = pd.Series(spec["time"], dtype="float64")
    nf = spec["nfeat"]
    for j in range(nf):
        col = [r[j] for r in spec["vals"]]
        vd = spec.get("val_dtypes", ["float"] * nf)[j]
        if vd == "object":
            cols[f"Y{j}"] = pd.Series([("x" if i == 0 else v) for i, v in enumerate(col)], dtype=object)
        elif vd == "int":
            cols[f"Y{j}"] = pd.Series([int(v) for v in col], dtype="int64")
        else:
            cols[f"Y{j}"] = pd.Series(col, dtype="float64")
    if L in ("event", "joint"):
        cols["EVENT_TIME"] = pd.Series(spec["evt"], dtype="float64")
        evb = spec["evb"]
        if spec.get("evb_dtype", "int") == "int" and all(math.isfinite(b) and b == int(b) for b in evb):
            cols["EVENT_BOOL"] = pd.Series([int(b) for b in evb], dtype="int64")
        else:
            cols["EVENT_BOOL"] = pd.Series(evb, dtype="float64")
    if L == "covariate":
        for j, name in enumerate(spec["cov_names"]):
            col = [r[j] for r in spec["cov"]]
            if all(math.isfinite(c) and c == int(c) for c in col) and spec.get("cov_dtype", "int") == "int":
                cols[name] = pd.Series([int(c) for c in col], dtype="int64")
            else:
                cols[name] = pd.Series(col, dtype="float64")
    df = pd.DataFrame(cols) if n or cols else pd.DataFrame({"ID": []})
    if spec.get("as_index") and n:
        df = df.set_index(["ID", "TIME"] if L != "event" else ["ID"])
    elif spec.get("odd_index") and n:
        df.index = [3 * i + 7 for i in range(n)]
    return df


def reader_kwargs(spec):
    kw = dict(data_type=spec["layout"], drop_full_nan=spec.get("drop_full_nan", True))
    fk = {}
    if spec["layout"] == "covariate":
        fk["covariate_names"] = list(spec["cov_names"])
    if spec["layout"] in ("event", "joint") and spec.get("nb_events") is not None:
        fk["nb_events"] = spec["nb_events"]
    if fk:
        kw["factory_kws"] = fk
    return kw


# ----------------------------------------------------------------------------- implementation side


def tolist_exact(t):
    """nested lists of exact Fractions from a tensor / array"""
    import numpy as np
    a = t.detach().cpu().numpy() if hasattr(t, "detach") else np.asarray(t)
    def rec(x):
        if isinstance(x, list):
            return [rec(y) for y in x]
        return x
    return rec(a.astype("float64").tolist())


def observe(spec, df=None):
    """Run the implementation; returns ('err', class, message) or ('ok', observation dict).  Also checks that
    the caller's table is left untouched.  Never raises."""
    import warnings
    import numpy as np
    from leaspy.exceptions import LeaspyDataInputError
    from leaspy.io.data.data import Data
    from leaspy.io.data.dataset import Dataset
    if df is None:
        df = build_df(spec)
    before = df.copy(deep=True)
    out = None
    with warnings.catch_warnings():
        warnings.simplefilter("ignore")
        try:
            kw = reader_kwargs(spec)
            data = Data.from_dataframe(df, **kw)
            ds = Dataset(data)
            hv = ds.values is not None
            o = dict(
                indices=list(ds.indices),
                data_times=[[float(x) for x in np.asarray(ind.timepoints).tolist()] for ind in data] if hv else [],
                times=tolist_exact(ds.timepoints) if hv else [],
                values=tolist_exact(ds.values) if hv else [],
                mask=[[[bool(b) for b in r] for r in m] for m in ds.mask.tolist()] if hv else [],
                nvis=list(ds.n_visits_per_individual) if hv else [],
                nvis_max=int(ds.n_visits_max) if hv else 0,
                nvis_total=int(ds.n_visits) if hv else 0,
                nobs_ind_ft=ds.n_observations_per_ind_per_ft.tolist() if hv else [],
                nobs_ft=ds.n_observations_per_ft.tolist() if hv else [],
                nobs=int(ds.n_observations) if hv else 0,
                event=None if ds.event_time is None else (tolist_exact(ds.event_time), [[bool(b) for b in r] for r in ds.event_bool.tolist()]),
                cov=None if ds.covariates is None else [[int(c) for c in r] for r in ds.covariates.tolist()],
                mask_is_01=bool(((ds.mask == 0) | (ds.mask == 1)).all()) if hv else True,
                values_finite=bool(np.isfinite(ds.values.numpy()).all() and np.isfinite(ds.timepoints.numpy()).all()) if hv else True,
            )
            out = ("ok", o, ds)
        except LeaspyDataInputError as e:
            out = ("err", "DataError", str(e)[:200])
        except Exception as e:  # noqa
            out = ("err", "OtherError", f"{type(e).__name__}: {str(e)[:200]}")
    untouched = True
    try:
        untouched = (df.equals(before) and list(df.dtypes) == list(before.dtypes) and df.index.equals(before.index)
                     and list(df.columns) == list(before.columns) and df.index.names == before.index.names
                     and all(str(a) == str(b) for a, b in zip(df.index.dtypes if hasattr(df.index, "dtypes") else [df.index.dtype],
                                                               before.index.dtypes if hasattr(before.index, "dtypes") else [before.index.dtype])))
    except Exception:
        untouched = False
    return out, untouched


# ----------------------------------------------------------------------------- Coq literals


def coq_ident(i):
    if isinstance(i, bool):
        return f"(IdZ ({int(i)}))"
    if isinstance(i, int):
        return f"(IdZ ({i}))"
    return f"(IdS {coq_string(str(i))})"


def coq_cell(x):
    if x is None:
        return "NaN"
    x = float(x)
    if math.isnan(x):
        return "NaN"
    if math.isinf(x):
        return "Inf"
    return f"(Fin {coq_Q(x)})"


def coq_opt(x, f):
    return "None" if x is None else f"(Some {f(x)})"


def coq_nat(n):
    return f"{int(n)}%nat"


def id_kind(spec):
    it = spec["id_type"]
    ids = [i for i in spec["ids"] if i is not None]
    if it in ("cat-str", "cat-int"):
        return "KCategorical"
    if it == "str" and all(isinstance(i, str) for i in ids) and ids:
        return "KString"
    if it == "int" and all(isinstance(i, int) and not isinstance(i, bool) for i in spec["ids"]) and ids:
        return "KInteger"
    return "KOther"


def coq_table(spec):
    L = spec["layout"]
    n = len(spec["ids"])
    rows = []
    for k in range(n):
        i = spec["ids"][k]
        rid = "None" if (i is None or (isinstance(i, float) and math.isnan(i))) else f"(Some {coq_ident(i)})"
        if spec["id_type"] in ("float", "mixed", "bool"):
            rid = f"(Some (IdZ 0))" if i is not None else "None"     # the column kind KOther already refuses the table
        tm = coq_cell(spec["time"][k]) if L != "event" else "NaN"
        vals = coq_list([coq_cell(v) for v in spec["vals"][k]]) if spec["nfeat"] else "[]"
        evt = coq_cell(spec["evt"][k]) if L in ("event", "joint") else "NaN"
        evb = coq_cell(spec["evb"][k]) if L in ("event", "joint") else "NaN"
        cov = coq_list([coq_cell(c) for c in spec["cov"][k]]) if L == "covariate" else "[]"
        rows.append(f"(Build_row {rid} {tm} {vals} {evt} {evb} {cov})")
    lay = dict(visit="LVisit", event="LEvent", joint="LJoint", covariate="LCov")[L]
    time_numeric = spec.get("time_dtype", "float") != "object"
    cols_numeric = all(d != "object" for d in spec.get("val_dtypes", []))
    nb = spec.get("nb_events")
    return (f"(Build_table {lay} {id_kind(spec)} {coq_bool(time_numeric)} {coq_bool(cols_numeric)} {coq_nat(spec['nfeat'])} "
            f"{coq_nat(len(spec.get('cov_names') or []))} {coq_bool(spec.get('drop_full_nan', True))} "
            f"{'None' if nb is None else f'(Some ({int(nb)})%Z)'} true {coq_list(rows)})")


def coq_observed(out):
    if out[0] == "err":
        return f"(ObsErr {out[1]})"
    o = out[1]
    ll = lambda xs, f: coq_list([coq_list([f(y) for y in x]) for x in xs])
    lll = lambda xs, f: coq_list([coq_list([coq_list([f(z) for z in y]) for y in x]) for x in xs])
    ev = "None" if o["event"] is None else f"(Some ({ll(o['event'][0], coq_Q)}, {ll(o['event'][1], coq_bool)}))"
    cv = "None" if o["cov"] is None else f"(Some {ll(o['cov'], lambda z: f'({z})%Z')})"
    return (f"(ObsOk {coq_list([coq_ident(i) for i in o['indices']])} {ll(o['data_times'], coq_Q)} {ll(o['times'], coq_Q)} "
            f"{lll(o['values'], coq_Q)} {lll(o['mask'], coq_bool)} {coq_list([coq_nat(v) for v in o['nvis']])} {coq_nat(o['nvis_max'])} "
            f"{coq_nat(o['nvis_total'])} {ll(o['nobs_ind_ft'], coq_nat)} {coq_list([coq_nat(v) for v in o['nobs_ft']])} {coq_nat(o['nobs'])} {ev} {cv})")


def impl_constants():
    """The two constants of the readers the model is parameterised by, read from the implementation."""
    from leaspy.io.data.abstract_dataframe_data_reader import AbstractDataframeDataReader
    from leaspy.io.data.joint_dataframe_data_reader import JointDataframeDataReader
    from leaspy.io.data.visit_dataframe_data_reader import VisitDataframeDataReader
    from leaspy.io.data.event_dataframe_data_reader import EventDataframeDataReader
    digs = {c.time_rounding_digits for c in (AbstractDataframeDataReader, JointDataframeDataReader, VisitDataframeDataReader, EventDataframeDataReader)}
    return digs, JointDataframeDataReader.tol_diff


TIE_HEADER = """From Coq Require Import ZArith QArith List Bool String.
From Leaspy Require Import Base.QAux Io.Ingest Io.F32 Io.IngestTie.
Import ListNotations.
Open Scope string_scope.
Definition PP : params := {{| scale := ({scale})%Z; tol := {tol}; store := store32 |}}.
"""

# ----------------------------------------------------------------------------- generator

ID_POOLS_STR = [
    ["b", "a", "d", "c", "f", "e", "h", "g"],
    ["10", "9", "100", "1", "2", "20", "3", "30"],
    ["sub-B", "sub-A", "Sub-a", "sub_c", "SUB", "s", "sub-10", "sub-2"],
    ["zeta", "alpha", "Beta", "beta", "gamma", "Alpha", " x", "x "],
    ["p1", "p0", "p3", "p2", "p5", "p4", "p7", "p6"],
]


def gen_times(rng, n, mode):
    """n distinct (after rounding to 6 digits) ages, in random order."""
    out, seen = [], set()
    while len(out) < n:
        base = rng.randrange(40 * 8, 100 * 8) / 8.0
        if mode == "dyadic":
            t = base
        elif mode == "perturbed":       # within 0.3e-6 of a dyadic age: rounds back to it
            t = base + rng.randrange(-4, 5) * 2.0 ** -24
        elif mode == "decimal":         # 6 significant decimals, neighbours 1e-6 .. 9e-6 apart
            t = float(Fraction(int(base * 8), 8) + Fraction(rng.randrange(0, 10), 10 ** 6))
        else:                            # coarse decimals
            t = round(rng.uniform(40, 100), rng.choice([1, 2, 3]))
        key = round(Fraction(*t.as_integer_ratio()) * 10 ** 6)
        if key in seen:
            continue
        seen.add(key)
        out.append(t)
    return out


def gen_valid(rng, layout=None, small=False):
    L = layout or rng.choices(["visit", "joint", "covariate", "event"], [55, 17, 16, 12])[0]
    nind = rng.randint(2 if L == "covariate" else 1, 3 if small else 8)
    it = rng.choice(["str", "str", "int", "cat-str", "cat-int"])
    if it in ("str", "cat-str"):
        pool = list(rng.choice(ID_POOLS_STR))
        rng.shuffle(pool)
        ids = pool[:nind]
    else:
        ids = rng.sample(range(0, 40), nind)
    nfeat = 0 if L == "event" else rng.randint(1, 4)
    tmode = rng.choices(["dyadic", "perturbed", "decimal", "coarse"], [40, 25, 25, 10])[0]
    pmiss = rng.choice([0.0, 0.15, 0.4, 0.7, 0.95])
    rows = []   # (id, time, vals, evt, evb, cov)
    ncov = rng.randint(1, 2) if L == "covariate" else 0
    covs = {}
    if L == "covariate":
        while True:
            covs = {i: [rng.randint(-1, 3) for _ in range(ncov)] for i in ids}
            if all(len({covs[i][j] for i in ids}) >= 2 for j in range(ncov)):
                break
    multi = L in ("event", "joint") and rng.random() < 0.2
    evs = {}
    for i in ids:
        nv = 1 if L == "event" else rng.randint(1, 3 if small else 6)
        times = gen_times(rng, nv, tmode) if L != "event" else [NAN]
        if L in ("event", "joint"):
            last = max(times) if L == "joint" else rng.randrange(400, 800) / 8.0
            code = rng.choice([0, 1, 1, 2] if multi else [0, 1, 1])
            r = rng.random()
            if L == "joint" and r < 0.15:
                evt = last - 0.000999 if rng.random() < 0.5 else last            # within the tolerance
            elif L == "joint" and r < 0.3 and code == 0:
                evt = last - rng.randrange(1, 40) / 8.0                          # censored before the last visit: accepted (warning)
                if evt <= 0:
                    evt = last
            else:
                evt = last + rng.randrange(0, 80) / 8.0 + (rng.choice([0.0, 1e-6, 2.5e-7]) if rng.random() < 0.3 else 0.0)
            evs[i] = (evt, float(code))
        for t in times:
            vals = [(NAN if rng.random() < pmiss else rng.randrange(-128, 192) / 64.0) for _ in range(nfeat)]
            rows.append((i, t, vals))
    if L in ("event", "joint") and all(evs[i][1] == 0 for i in ids):
        evs[ids[0]] = (evs[ids[0]][0] if L == "event" else max(t for (i, t, v) in rows if i == ids[0]) + 1.0, 1.0)
    if nfeat and rng.random() < 0.1:                      # a feature missing everywhere
        j = rng.randrange(nfeat)
        for r in rows:
            r[2][j] = NAN
    # row order
    order = rng.choice(["blocked-sorted", "blocked-shuffled", "shuffled", "shuffled", "reversed"])
    if order == "blocked-sorted":
        rows.sort(key=lambda r: (ids.index(r[0]), r[1] if r[1] == r[1] else 0))
    elif order == "blocked-shuffled":
        rng.shuffle(rows)
        rows.sort(key=lambda r: ids.index(r[0]))
    elif order == "shuffled":
        rng.shuffle(rows)
    else:
        rows.sort(key=lambda r: (ids.index(r[0]), r[1] if r[1] == r[1] else 0), reverse=True)
    spec = dict(layout=L, id_type=it, ids=[r[0] for r in rows], nfeat=nfeat, vals=[r[2] for r in rows],
                drop_full_nan=rng.random() < 0.8, row_order=order, time_mode=tmode)
    if L != "event":
        spec["time"] = [r[1] for r in rows]
        if tmode == "dyadic" and all(float(t).is_integer() for t in spec["time"]) and rng.random() < 0.5:
            spec["time_dtype"] = "int"
    if L in ("event", "joint"):
        spec["evt"] = [evs[r[0]][0] for r in rows]
        spec["evb"] = [evs[r[0]][1] for r in rows]
        spec["evb_dtype"] = rng.choice(["int", "int", "float"])
        mx = int(max(spec["evb"]))
        spec["nb_events"] = rng.choice([None, None, None, mx])
    if L == "covariate":
        spec["cov_names"] = [f"C{j}" for j in range(ncov)]
        spec["cov"] = [[float(c) for c in covs[r[0]]] for r in rows]
        spec["cov_dtype"] = rng.choice(["int", "int", "float"])
    if nfeat:
        spec["val_dtypes"] = ["float"] * nfeat
        for j in range(nfeat):
            col = [r[j] for r in spec["vals"]]
            if all(v == v and float(v).is_integer() for v in col) and rng.random() < 0.5:
                spec["val_dtypes"][j] = "int"
    r = rng.random()
    if r < 0.12:
        spec["as_index"] = True
    elif r < 0.3:
        spec["odd_index"] = True
    return spec


MALFORMATIONS = {
    # name -> (layouts it applies to, is it one of the classes the property text lists)
    "dup-visit": ("vjc", True), "dup-visit-after-rounding": ("vjc", True), "nan-age": ("vjc", True), "inf-age": ("vjc", True),
    "neg-inf-age": ("vjc", True), "inf-value": ("vjc", True),
    # +inf in one cell and -inf in another (a sum-based "is there an infinity" screen sees nan and lets both through)
    "inf-values-both-signs": ("vjc", True), "non-numeric-value": ("vjc", True), "non-numeric-age": ("vjc", True),
    "empty-id": ("vjce", True), "negative-id": ("vjce", True), "float-id": ("vjce", True), "missing-id": ("vjce", True),
    "mixed-id": ("vjce", True), "bool-id": ("vjce", True),
    "no-visit-left": ("v", False), "empty-table": ("vjce", False), "dup-id-event-table": ("e", True),
    "two-event-times": ("j", True), "two-event-indicators": ("j", True), "event-before-last-visit": ("j", True),
    # an observed event before the last visit of one individual, next to ANOTHER individual censored before its last visit (which alone
    # is accepted with a warning): whether the first one is refused must not depend on who else is in the table
    "event-before-last-visit-next-to-censored": ("j", True),
    "event-time-not-positive": ("je", True), "event-time-nan": ("je", True), "event-time-inf": ("je", True),
    # the event age is missing on ONE row of an individual that has it on another row (a NaN-unaware positivity test lets it through)
    "event-time-nan-one-row": ("j", True), "event-time-not-positive-one-row": ("j", True),
    "event-indicator-fractional": ("je", True), "event-indicator-nan": ("je", True), "no-observed-event": ("je", False),
    "nb-events-mismatch": ("je", False),
    "covariate-fractional": ("c", True), "covariate-varying": ("c", True), "covariate-nan": ("c", True),
    "covariate-one-level": ("c", True), "covariate-inf": ("c", True),
    # the same identifiers hidden in a categorical column: the reader does not look inside (finding)
    "empty-id-categorical": ("vjce", True), "negative-id-categorical": ("vjce", True),
}


def malform(rng, spec, kind):
    """Apply one malformation class to a valid spec (None when it cannot be applied to this table)."""
    s = copy.deepcopy(spec)
    L = s["layout"]
    n = len(s["ids"])
    code = dict(visit="v", joint="j", covariate="c", event="e")[L]
    if code not in MALFORMATIONS[kind][0] or n == 0:
        return None
    s.pop("as_index", None)
    k = rng.randrange(n)
    same = [i for i in range(n) if s["ids"][i] == s["ids"][k] and i != k]

    def dup_row(src, **changes):
        for key in ("ids", "time", "vals", "evt", "evb", "cov"):
            if s.get(key) is not None:
                s[key].insert(src + 1, copy.deepcopy(s[key][src]))
        for key, v in changes.items():
            s[key][src + 1] = v

    if kind == "dup-visit":
        dup_row(k)
        if s["nfeat"]:
            s["vals"][k + 1] = [0.5] * s["nfeat"]
        s["time_dtype"] = s.get("time_dtype", "float")
    elif kind == "dup-visit-after-rounding":
        t = float(s["time"][k])
        import numpy as _np
        # the second age must really collide with the first once rounded to 6 digits (whatever sub-microsecond perturbation `t` carries)
        cands = [t + j * 2.0 ** -23 for j in rng.sample([1, 2, 3, -2, -1, -3], 6)]
        cands = [c for c in cands if c != t and round(c, 6) == round(t, 6) and float(_np.round(c, 6)) == float(_np.round(t, 6))]
        if not cands:
            return None
        dup_row(k, time=cands[0])
        s["time_dtype"] = "float"
        s["vals"][k + 1] = [0.25] * s["nfeat"]
    elif kind in ("nan-age", "inf-age", "neg-inf-age"):
        s["time"][k] = dict([("nan-age", NAN), ("inf-age", INF), ("neg-inf-age", -INF)])[kind]
        s["time_dtype"] = "float"
    elif kind == "inf-value":
        s["vals"][k][rng.randrange(s["nfeat"])] = rng.choice([INF, -INF])
        s["val_dtypes"] = ["float"] * s["nfeat"]
    elif kind == "inf-values-both-signs":
        if len(s["vals"]) < 2:
            return None
        k2 = rng.choice([i for i in range(len(s["vals"])) if i != k])
        s["vals"][k][rng.randrange(s["nfeat"])] = INF
        s["vals"][k2][rng.randrange(s["nfeat"])] = -INF
        s["val_dtypes"] = ["float"] * s["nfeat"]
    elif kind == "non-numeric-value":
        s["val_dtypes"] = list(s.get("val_dtypes", ["float"] * s["nfeat"]))
        s["val_dtypes"][rng.randrange(s["nfeat"])] = "object"
    elif kind == "non-numeric-age":
        s["time_dtype"] = "object"
    elif kind == "empty-id":
        s["id_type"] = "str"
        old = s["ids"][k]
        s["ids"] = ["" if i == old else str(i) for i in s["ids"]]
    elif kind == "negative-id":
        if s["id_type"] not in ("int", "cat-int"):
            m = {v: j for j, v in enumerate(dict.fromkeys(s["ids"]))}
            s["ids"] = [m[i] for i in s["ids"]]
        s["id_type"] = "int"
        old = s["ids"][k]
        s["ids"] = [-1 - old if i == old else i for i in s["ids"]]
    elif kind == "empty-id-categorical":
        s["id_type"] = "cat-str"
        old = s["ids"][k]
        s["ids"] = ["" if i == old else str(i) for i in s["ids"]]
    elif kind == "negative-id-categorical":
        if s["id_type"] not in ("int", "cat-int"):
            m = {v: j for j, v in enumerate(dict.fromkeys(s["ids"]))}
            s["ids"] = [m[i] for i in s["ids"]]
        s["id_type"] = "cat-int"
        old = s["ids"][k]
        s["ids"] = [-1 - old if i == old else i for i in s["ids"]]
    elif kind == "float-id":
        m = {v: j for j, v in enumerate(dict.fromkeys(s["ids"]))}
        s["ids"] = [float(m[i]) + rng.choice([0.0, 0.5]) for i in s["ids"]]
        s["id_type"] = "float"
    elif kind == "missing-id":
        if s["id_type"] != "str":
            s["ids"] = [str(i) for i in s["ids"]]
            s["id_type"] = "str"
        s["ids"][k] = None
    elif kind == "mixed-id":
        if n < 2:
            return None
        s["ids"] = [str(i) for i in s["ids"]]
        old = s["ids"][k]
        s["ids"] = [7 if i == old else i for i in s["ids"]]
        if all(isinstance(i, int) for i in s["ids"]):
            return None
        s["id_type"] = "mixed"
    elif kind == "bool-id":
        m = {v: j for j, v in enumerate(dict.fromkeys(s["ids"]))}
        if len(m) > 2:
            return None
        s["ids"] = [bool(m[i]) for i in s["ids"]]
        s["id_type"] = "bool"
    elif kind == "no-visit-left":
        s["vals"] = [[NAN] * s["nfeat"] for _ in range(n)]
        s["val_dtypes"] = ["float"] * s["nfeat"]
        s["drop_full_nan"] = True
    elif kind == "empty-table":
        for key in ("ids", "time", "vals", "evt", "evb", "cov"):
            if s.get(key) is not None:
                s[key] = []
        s.pop("odd_index", None)
    elif kind == "dup-id-event-table":
        dup_row(k)
    elif kind == "two-event-times":
        if not same:
            return None
        s["evt"][k] = float(s["evt"][k]) + rng.choice([1.0, 0.125, 2e-6])
    elif kind == "two-event-indicators":
        if not same:
            return None
        s["evb"][k] = 1.0 - s["evb"][k] if s["evb"][k] in (0.0, 1.0) else 1.0
    elif kind == "event-before-last-visit":
        i0 = s["ids"][k]
        idx = [i for i in range(n) if s["ids"][i] == i0]
        last = max(float(s["time"][i]) for i in idx)
        evt = last - rng.choice([0.001001, 0.002, 0.125, 1.0, 5.0])
        if evt <= 0:
            return None
        for i in idx:
            s["evt"][i] = evt
            s["evb"][i] = max(1.0, s["evb"][i])
    elif kind == "event-before-last-visit-next-to-censored":
        i0 = s["ids"][k]
        others = [x for x in dict.fromkeys(map(repr, s["ids"])) if x != repr(i0)]
        if not others:
            return None
        j0 = rng.choice(others)
        for ident, observed in ((repr(i0), True), (j0, False)):
            idx = [i for i in range(n) if repr(s["ids"][i]) == ident]
            last = max(float(s["time"][i]) for i in idx)
            evt = last - rng.choice([0.002, 0.125, 1.0, 5.0])
            if evt <= 0:
                return None
            for i in idx:
                s["evt"][i] = evt
                s["evb"][i] = max(1.0, s["evb"][i]) if observed else 0.0
    elif kind in ("event-time-not-positive", "event-time-nan", "event-time-inf"):
        v = dict([("event-time-not-positive", rng.choice([0.0, -1.0, -70.5, 4e-7])), ("event-time-nan", NAN), ("event-time-inf", rng.choice([INF, -INF]))])[kind]
        i0 = s["ids"][k]
        for i in range(n):
            if s["ids"][i] == i0:
                s["evt"][i] = v
        if kind == "event-time-nan" and L == "event" and s.get("drop_full_nan", True):
            pass
    elif kind in ("event-time-nan-one-row", "event-time-not-positive-one-row"):
        if not same:
            return None
        s["evt"][k] = NAN if kind == "event-time-nan-one-row" else rng.choice([0.0, -1.0])
    elif kind == "event-indicator-fractional":
        i0 = s["ids"][k]
        for i in range(n):
            if s["ids"][i] == i0:
                s["evb"][i] = 0.5
    elif kind == "event-indicator-nan":
        i0 = s["ids"][k]
        for i in range(n):
            if s["ids"][i] == i0:
                s["evb"][i] = NAN
    elif kind == "no-observed-event":
        s["evb"] = [0.0] * n
        s["nb_events"] = None
    elif kind == "nb-events-mismatch":
        s["nb_events"] = int(max(s["evb"])) + 1
    elif kind == "covariate-fractional":
        i0 = s["ids"][k]
        j = rng.randrange(len(s["cov_names"]))
        for i in range(n):
            if s["ids"][i] == i0:
                s["cov"][i][j] = 0.5
    elif kind == "covariate-varying":
        if not same:
            return None
        j = rng.randrange(len(s["cov_names"]))
        s["cov"][k][j] = s["cov"][k][j] + 1.0
    elif kind == "covariate-nan":
        s["cov"][k][rng.randrange(len(s["cov_names"]))] = NAN
        s["vals"][k][0] = 0.5
        s["val_dtypes"] = ["float"] * s["nfeat"]
    elif kind == "covariate-inf":
        s["cov"][k][rng.randrange(len(s["cov_names"]))] = INF
    elif kind == "covariate-one-level":
        j = rng.randrange(len(s["cov_names"]))
        for i in range(n):
            s["cov"][i][j] = 2.0
    s["malformation"] = kind
    return s


# ----------------------------------------------------------------------------- property oracle (python, from the spec)


def py_round6(x, digits):
    """exact decimal rounding, half to even, as an integer number of 10^-digits"""
    q = Fraction(*float(x).as_integer_ratio()) * 10 ** digits
    fl = q.numerator // q.denominator
    r = q - fl
    if r > Fraction(1, 2) or (r == Fraction(1, 2) and fl % 2 == 1):
        fl += 1
    return fl


def kept_rows(spec):
    """indices of the rows the reader retains (drop_full_nan drops rows whose non-index cells are all missing)"""
    L = spec["layout"]
    keep = []
    for k in range(len(spec["ids"])):
        cells = list(spec["vals"][k])
        if L in ("joint", "event"):
            cells += [spec["evt"][k], spec["evb"][k]]
        if L == "covariate":
            cells += list(spec["cov"][k])
        if spec.get("drop_full_nan", True) and all(c != c for c in cells):
            continue
        keep.append(k)
    return keep


def lost_individuals(spec):
    kept = {repr(spec["ids"][k]) for k in kept_rows(spec)}
    return [i for i in dict.fromkeys(spec["ids"]) if repr(i) not in kept]


def expected_blocks(spec, digits):
    """From-scratch recomputation of what the property promises for a *valid* visit/joint/covariate table:
    order of individuals, and per individual the sorted ages (as float64 of the rounded decimal), values and presence."""
    import numpy as np
    keep = kept_rows(spec)
    order = list(dict.fromkeys(spec["ids"][k] for k in keep))
    blocks = {}
    for i in order:
        vis = sorted(((py_round6(spec["time"][k], digits), spec["vals"][k]) for k in keep if spec["ids"][k] == i), key=lambda v: v[0])
        blocks[i] = dict(times64=[m / 10 ** digits for m, _ in vis],
                         times32=[float(np.float32(m / 10 ** digits)) for m, _ in vis],
                         values=[[0.0 if v != v else float(np.float32(v)) for v in vals] for _, vals in vis],
                         present=[[v == v for v in vals] for _, vals in vis])
    return order, blocks


def block_of(o, k):
    """what the dataset holds for the k-th individual"""
    nv = o["nvis"][k]
    return dict(times=o["times"][k], values=o["values"][k], mask=o["mask"][k], nvis=nv, nobs=o["nobs_ind_ft"][k],
                event=None if o["event"] is None else (o["event"][0][k], o["event"][1][k]),
                cov=None if o["cov"] is None else o["cov"][k])


def property_oracle(run, spec, o, digits):
    """Direct statement of the property on the implementation's output for a valid table (independent of the Coq model)."""
    sj = spec_json(spec)
    order, blocks = expected_blocks(spec, digits)
    if o["indices"] != order:
        run.fail("order:not-first-appearance", "individuals are not in order of first appearance", sj, expected=order, observed=o["indices"])
        return
    if not o["mask_is_01"] or not o["values_finite"]:
        run.fail("tensor:not-finite-or-mask-not-binary", "values/timepoints not finite or mask not in {0,1}", sj)
    nmax = max(len(b["times64"]) for b in blocks.values()) if blocks else 0
    if o["nvis_max"] != nmax or o["nvis_total"] != sum(len(b["times64"]) for b in blocks.values()):
        run.fail("counts:visits", "n_visits_max / n_visits wrong", sj, expected=(nmax,), observed=(o["nvis_max"], o["nvis_total"]))
    tot = 0
    per_ft = [0] * spec["nfeat"]
    for k, i in enumerate(order):
        b = blocks[i]
        nv = len(b["times64"])
        pad = nmax - nv
        if o["nvis"][k] != nv:
            run.fail("counts:visits", "n_visits_per_individual wrong", sj, expected=nv, observed=o["nvis"][k])
            return
        if o["data_times"][k] != b["times64"]:
            sig = "sorted:ages-not-sorted" if sorted(o["data_times"][k]) == b["times64"] else "ages:wrong-values"
            run.fail(sig, "IndividualData.timepoints are not the sorted rounded ages", sj, expected=b["times64"], observed=o["data_times"][k])
        if o["times"][k] != b["times32"] + [0.0] * pad:
            run.fail("aligned:timepoints", "timepoints tensor is not the sorted ages padded with 0", sj, expected=b["times32"] + [0.0] * pad, observed=o["times"][k])
        if o["values"][k] != b["values"] + [[0.0] * spec["nfeat"]] * pad:
            run.fail("aligned:values", "values tensor is not aligned with the sorted ages (or padding/missing not 0)", sj,
                     expected=b["values"] + [[0.0] * spec["nfeat"]] * pad, observed=o["values"][k])
        if o["mask"][k] != b["present"] + [[False] * spec["nfeat"]] * pad:
            run.fail("mask:not-exact", "mask is not (real visit and value present)", sj,
                     expected=b["present"] + [[False] * spec["nfeat"]] * pad, observed=o["mask"][k])
        cnt = [sum(1 for r in b["present"] if r[j]) for j in range(spec["nfeat"])]
        if o["nobs_ind_ft"][k] != cnt:
            run.fail("counts:observations", "n_observations_per_ind_per_ft wrong", sj, expected=cnt, observed=o["nobs_ind_ft"][k])
        per_ft = [a + c for a, c in zip(per_ft, cnt)]
        tot += sum(cnt)
    if o["nobs_ft"] != per_ft or o["nobs"] != tot:
        run.fail("counts:observations", "n_observations_per_ft / n_observations wrong", sj, expected=(per_ft, tot), observed=(o["nobs_ft"], o["nobs"]))


def permute(rng, spec, keep_first_appearance):
    s = copy.deepcopy(spec)
    n = len(s["ids"])
    idx = list(range(n))
    rng.shuffle(idx)
    if keep_first_appearance:
        rank = {repr(v): j for j, v in enumerate(dict.fromkeys(s["ids"][k] for k in kept_rows(s)))}
        idx.sort(key=lambda k: rank.get(repr(s["ids"][k]), len(rank)))
    for key in ("ids", "time", "vals", "evt", "evb", "cov"):
        if s.get(key) is not None:
            s[key] = [s[key][k] for k in idx]
    return s


def metamorphic(run, rng, spec, o):
    """Row-permutation oracle on the implementation."""
    sj = spec_json(spec)
    for keep in (False, True):
        s2 = permute(rng, spec, keep)
        out2, _ = observe(s2)
        if out2[0] != "ok":
            run.fail("permutation:valid-table-refused", f"a row permutation of an accepted table is refused: {out2[2]}", spec_json(s2))
            continue
        o2 = out2[1]
        if keep:
            for key in ("indices", "times", "values", "mask", "nvis", "nobs_ind_ft", "nobs_ft", "nobs", "event", "cov"):
                if o2[key] != o[key]:
                    run.fail("permutation:whole-dataset-differs", f"{key} differs after a row permutation that keeps first appearances", sj,
                             expected=o[key], observed=o2[key])
                    break
        else:
            if sorted(map(repr, o2["indices"])) != sorted(map(repr, o["indices"])):
                run.fail("permutation:individuals-differ", "set of individuals differs after a row permutation", sj)
                continue
            pos = {repr(i): k for k, i in enumerate(o2["indices"])}
            for k, i in enumerate(o["indices"]):
                if o["nvis"] and block_of(o, k) != block_of(o2, pos[repr(i)]):
                    run.fail("permutation:block-differs", "an individual's block differs after a row permutation", dict(table=sj, permuted=spec_json(s2)),
                             expected=block_of(o, k), observed=block_of(o2, pos[repr(i)]))
                    break
                if not o["nvis"] and (o["event"][0][k], o["event"][1][k]) != (o2["event"][0][pos[repr(i)]], o2["event"][1][pos[repr(i)]]):
                    run.fail("permutation:block-differs", "an individual's event differs after a row permutation", sj)
                    break


def round_trip(run, spec, out):
    """Dataset.to_pandas() -> Data.from_dataframe (same reader options) -> Dataset: nothing changes (oracle on the implementation)."""
    import warnings
    from leaspy.exceptions import LeaspyDataInputError
    from leaspy.io.data.data import Data
    from leaspy.io.data.dataset import Dataset
    o, ds = out[1], out[2]
    sj = spec_json(spec)
    with warnings.catch_warnings():
        warnings.simplefilter("ignore")
        try:
            back = ds.to_pandas()
        except Exception as e:  # noqa
            collide = any(len(set(o["times"][k][:o["nvis"][k]])) < o["nvis"][k] for k in range(len(o["indices"]))) if o["nvis"] else False
            sig = "roundtrip:float32-age-collision" if collide else f"roundtrip:to_pandas-raises:{type(e).__name__}"
            run.fail(sig, f"Dataset.to_pandas() raises on an accepted table: {type(e).__name__}: {str(e)[:120]}", sj)
            return "to_pandas-raises"
        try:
            kw = reader_kwargs(spec)
            ds2 = Dataset(Data.from_dataframe(back, **kw))
        except Exception as e:  # noqa
            sig = ("roundtrip:covariate-columns-relabelled" if spec["layout"] == "covariate" and isinstance(e, KeyError)
                   else "roundtrip:float32-age-vs-event-tolerance" if spec["layout"] == "joint" and "Event should happen after" in str(e)
                   else f"roundtrip:re-ingest-raises:{type(e).__name__}")
            run.fail(sig, f"re-ingesting Dataset.to_pandas() raises {type(e).__name__}: {str(e)[:120]}", sj)
            return "re-ingest-raises"
    out2, _ = observe(spec, df=back)
    if out2[0] != "ok":
        return "re-ingest-raises"
    o2 = out2[1]
    pos = {repr(i): k for k, i in enumerate(o2["indices"])}
    if sorted(pos) != sorted(repr(i) for i in o["indices"]):
        run.fail("roundtrip:individuals-differ", "set of individuals differs after the round trip", sj, expected=o["indices"], observed=o2["indices"])
        return "differs"
    for k, i in enumerate(o["indices"]):
        a = block_of(o, k) if o["nvis"] else (o["event"][0][k], o["event"][1][k])
        b = block_of(o2, pos[repr(i)]) if o["nvis"] else (o2["event"][0][pos[repr(i)]], o2["event"][1][pos[repr(i)]])
        if a != b:
            run.fail("roundtrip:block-differs", "an individual's block differs after the round trip", sj, expected=a, observed=b)
            return "differs"
    if o2["indices"] != o["indices"]:
        if spec["layout"] == "event":
            return "same"
        run.fail("roundtrip:order-sorted-by-id", "individuals come back sorted by ID instead of in their order of first appearance", sj,
                 expected=o["indices"], observed=o2["indices"])
        return "reordered"
    return "same"


# ----------------------------------------------------------------------------- directed witnesses (the two refuted theorems + findings)

def directed_specs():
    f9a = dict(layout="visit", id_type="str", ids=["b", "a"], time=[70.0, 71.0], nfeat=1, vals=[[0.5], [0.25]], drop_full_nan=True)
    f9b = dict(layout="visit", id_type="str", ids=["a", "a"], time=[70.000001, 70.000003], nfeat=1, vals=[[0.5], [0.25]], drop_full_nan=True)
    f9c = dict(layout="covariate", id_type="str", ids=["a", "b"], time=[70.0, 71.0], nfeat=1, vals=[[0.5], [0.25]], drop_full_nan=True,
               cov_names=["C0"], cov=[[0.0], [1.0]])
    return [("F9a", f9a), ("F9b", f9b), ("F9c", f9c)]


def directed_order_specs():
    """Joint / event tables whose decision depends on WHICH aggregate of the rows of an individual is taken: for every aggregate of the
    regenerated decision table (`max` of the ages and of the indicators, `first` row per ID, `sum` of the offenders' indicators) a row
    order where last row != maximum, first row != maximum, first row != minimum.  (name, spec, expected outcome)"""
    def J(ids, time, evt, evb, **k):
        return dict(layout="joint", id_type="str", ids=ids, time=time, nfeat=1, vals=[[0.5 + 0.125 * i] for i in range(len(ids))],
                    evt=evt, evb=evb, drop_full_nan=True, **k)
    return [
        # b: ages 71 then 70 (LAST row = MINIMAL age), observed event at 70.5: before max - tol, after the last / minimal age
        ("order:max-first:observed", J(["b", "a", "b"], [71.0, 70.0, 70.0], [70.5, 72.0, 70.5], [1.0, 0.0, 1.0]), "DataError"),
        ("order:max-first:censored", J(["b", "a", "b"], [71.0, 70.0, 70.0], [70.5, 72.0, 70.5], [0.0, 1.0, 0.0]), "ok"),
        # maximum in the middle: neither the first nor the last row of b
        ("order:max-middle:observed", J(["b", "b", "a", "b"], [70.0, 72.0, 70.0, 71.0], [71.5, 71.5, 73.0, 71.5], [1.0, 1.0, 0.0, 1.0]), "DataError"),
        # maximum last (the order in which every aggregate agrees) and the event exactly tol_diff-close: accepted
        ("order:max-last:within-tol", J(["b", "b", "a"], [70.0, 71.0, 70.0], [70.9995, 70.9995, 73.0], [1.0, 1.0, 0.0]), "ok"),
        ("order:max-first:within-tol", J(["b", "b", "a"], [71.0, 70.0, 70.0], [70.9995, 70.9995, 73.0], [1.0, 1.0, 0.0]), "ok"),
        # minimal age first vs event between min and max, two offenders: one observed one censored (the `sum` of the offenders)
        ("order:two-offenders", J(["b", "a", "b", "a"], [72.0, 73.0, 70.0, 71.0], [71.0, 72.0, 71.0, 72.0], [1.0, 0.0, 1.0, 0.0]), "DataError"),
        ("order:two-censored-offenders", J(["b", "a", "b", "a", "c"], [72.0, 73.0, 70.0, 71.0, 70.0], [71.0, 72.0, 71.0, 72.0, 75.0], [0.0, 0.0, 0.0, 0.0, 1.0]), "ok"),
        # number of events = MAX of the indicators: the maximum is neither the first nor the last individual's
        ("order:nb-events-max-middle", J(["c", "a", "b"], [70.0, 70.0, 70.0], [75.0, 76.0, 77.0], [1.0, 2.0, 0.0]), "ok"),
        ("order:nb-events-max-middle:event", dict(layout="event", id_type="str", ids=["c", "a", "b"], nfeat=0, vals=[[], [], []],
                                                   evt=[75.0, 76.0, 77.0], evb=[1.0, 2.0, 0.0], drop_full_nan=True), "ok"),
    ]


def order_coverage(run, spec, digits):
    """Which row orders the (joint) case exercises, per individual with at least two rows."""
    if spec["layout"] != "joint" or not spec["ids"] or spec["id_type"] not in ("str", "int", "cat-str", "cat-int"):
        return
    try:
        per = {}
        for k in kept_rows(spec):
            t = spec["time"][k]
            if t != t or t in (INF, -INF) or spec["ids"][k] is None:
                return
            per.setdefault(repr(spec["ids"][k]), []).append((py_round6(t, digits), spec["evt"][k]))
    except Exception:  # noqa
        return
    for rows in per.values():
        if len(rows) < 2:
            continue
        ages = [a for a, _ in rows]
        if ages[-1] != max(ages):
            run.count("row_order_vs_aggregate", "last-row-is-not-max-age")
        if ages[0] != max(ages):
            run.count("row_order_vs_aggregate", "first-row-is-not-max-age")
        if ages[0] != min(ages):
            run.count("row_order_vs_aggregate", "first-row-is-not-min-age")
        e = rows[0][1]
        if e == e and e not in (INF, -INF):
            ez = py_round6(e, digits)
            tolz = 10 ** digits // 1000
            if ez - max(ages) < -tolz <= ez - ages[-1]:
                run.count("row_order_vs_aggregate", "event-before-max-age-but-not-before-last-row-age")
            if ez - max(ages) < -tolz <= ez - ages[0]:
                run.count("row_order_vs_aggregate", "event-before-max-age-but-not-before-first-row-age")


# ----------------------------------------------------------------------------- the check


def check(run: Run):
    from harness.common import use_impl
    use_impl()
    thorough = run.tier == "thorough"
    digs, tol = impl_constants()
    if len(digs) != 1:
        run.fail("constants:rounding-digits-differ", "readers do not share one time_rounding_digits", dict(digits=sorted(digs)))
    digits = sorted(digs)[0]
    header = TIE_HEADER.format(scale=10 ** digits, tol=coq_Q(tol))
    run.extra["impl_constants"] = dict(time_rounding_digits=digits, tol_diff=tol)
    run.rule = ("seeded random tables: 1-8 individuals x 1-6 visits x 1-4 features, layouts visit/joint/covariate/event, ID types "
                "str/int/categorical, ages dyadic / perturbed below the rounding / 6-decimal neighbours / coarse, dyadic values, missing "
                "probability 0..0.95, five row orders, options drop_full_nan / nb_events / index placement; then every malformation class "
                "applied one at a time to a valid table. Each table goes through Data.from_dataframe + Dataset and through the Coq model "
                "(vm_compute); non-trivial = at least two visits for some individual with rows not already sorted, or a missing value, "
                "or a refused table.")
    n_valid = 1100 if not thorough else 22000
    n_bad = 400 if not thorough else 8000
    cases, metas = [], []
    g = run.rng("valid")

    def one(spec, tag):
        out, untouched = observe(spec)
        sj = spec_json(spec)
        if not untouched:
            run.fail("caller-table-modified", "the caller's DataFrame differs after Data.from_dataframe (values, dtypes, index or columns)", sj)
        L = spec["layout"]
        run.count("layout", L)
        run.count("id_type", spec["id_type"])
        run.count("outcome", out[0] if out[0] == "ok" else out[1])
        run.count("rows", min(len(spec["ids"]), 40) // 5 * 5)
        order_coverage(run, spec, digits)
        nontrivial = out[0] != "ok" or any(v != v for r in spec["vals"] for v in r) or spec.get("row_order") not in ("blocked-sorted",)
        run.case((tag, json.dumps(sj, sort_keys=True)), nontrivial=nontrivial)
        cases.append(f"({coq_table(spec)},\n   {coq_observed(out)})")
        metas.append((tag, spec, out))
        return out

    n_rt = dict()
    for n in range(n_valid):
        spec = gen_valid(g, small=(n % 4 == 0))
        run.count("row_order", spec["row_order"])
        run.count("time_mode", spec["time_mode"])
        run.count("n_individuals", len(set(map(repr, spec["ids"]))))
        run.count("n_features", spec["nfeat"])
        run.count("missing_share", round(sum(v != v for r in spec["vals"] for v in r) / max(1, sum(len(r) for r in spec["vals"])), 1))
        degenerate = not kept_rows(spec)
        out = one(spec, "valid" if not degenerate else "no-visit-left")
        if degenerate:
            run.count("malformation", "no-visit-left(generated)")
            if out[0] == "ok":
                run.fail("rejects:no-visit-left:accepted", "a table without any retained row is accepted", spec_json(spec))
            continue
        if out[0] != "ok":
            if spec["id_type"].startswith("cat") and lost_individuals(spec):
                run.fail("valid-table-refused:categorical-individual-without-visit",
                         f"categorical ID column, all visits of one individual are missing: {out[2]} (the same table with string IDs is accepted)", spec_json(spec))
            else:
                run.fail(f"valid-table-refused:{out[1]}", f"a valid table is refused: {out[2]}", spec_json(spec))
            continue
        if spec["layout"] != "event":
            property_oracle(run, spec, out[1], digits)
        elif out[1]["indices"] != sorted(out[1]["indices"]):
            run.fail("event-layout:order", "event-only table: individuals neither sorted by ID", spec_json(spec))
        if n % 3 == 0 or thorough:
            metamorphic(run, run.rng("perm", n), spec, out[1])
        if n % 2 == 0 or thorough:
            r = round_trip(run, spec, out)
            n_rt[r] = n_rt.get(r, 0) + 1
        if n < 3:
            run.sample(dict(kind="valid", table=spec_json(spec), observed={k: v for k, v in out[1].items() if k in ("indices", "times", "mask", "nvis", "nobs_ft")}))
    run.extra["round_trips"] = n_rt

    gb = run.rng("malformed")
    kinds = sorted(MALFORMATIONS)
    made = 0
    attempts = 0
    while made < n_bad and attempts < 20 * n_bad:
        attempts += 1
        kind = kinds[made % len(kinds)]
        lay = dict(v="visit", j="joint", c="covariate", e="event")[gb.choice(MALFORMATIONS[kind][0])]
        base = gen_valid(gb, layout=lay, small=gb.random() < 0.5)
        spec = malform(gb, base, kind)
        if spec is None:
            continue
        made += 1
        run.count("malformation", kind)
        try:
            out = one(spec, kind)
        except (OverflowError, ValueError) as e:
            # the reader ACCEPTED the table and non-finite numbers reached the dataset tensors (they have no exact rational encoding)
            if MALFORMATIONS[kind][1]:
                run.fail(f"rejects:{kind}:accepted", f"malformed table ({kind}) is silently accepted: non-finite numbers reached the dataset "
                         f"tensors ({type(e).__name__}: {e})", spec_json(spec), expected="LeaspyDataInputError", observed="accepted")
            continue
        listed = MALFORMATIONS[kind][1]
        if out[0] == "ok" and listed:
            sig = "rejects:categorical-id-not-validated" if kind.endswith("-categorical") else f"rejects:{kind}:accepted"
            run.fail(sig, f"malformed table ({kind}) is silently accepted", spec_json(spec), expected="LeaspyDataInputError", observed=out[1]["indices"])
        elif out[0] == "err" and out[1] != "DataError" and listed and kind.endswith("-categorical") and lost_individuals(spec):
            # the identifier is not looked at inside a categorical column (listed finding); the refusal comes from the other listed
            # categorical defect: an individual whose visits are all missing is kept as an unobserved category
            run.fail("valid-table-refused:categorical-individual-without-visit",
                     f"categorical ID column, all visits of one individual are missing: {out[2]}", spec_json(spec))
        elif out[0] == "err" and out[1] != "DataError" and listed:
            run.fail(f"rejects:{kind}:{out[2].split(':')[0]}", f"malformed table ({kind}) is refused with {out[2]} instead of a data-input error",
                     spec_json(spec), expected="LeaspyDataInputError", observed=out[2])
        if made <= len(kinds) and made % 9 == 0:
            run.sample(dict(kind=kind, table=spec_json(spec), observed=out[:2] if out[0] == "err" else "accepted"))

    # directed witnesses of the refuted theorems, replayed on the code
    for name, spec in directed_specs():
        out = one(spec, name)
        if out[0] != "ok":
            run.fail(f"valid-table-refused:{out[1]}", f"witness {name} refused: {out[2]}", spec_json(spec))
            continue
        r = round_trip(run, spec, out)
        run.extra.setdefault("witness_replays", {})[name] = r

    # directed row orders: one per aggregate of the regenerated decision table (T1), so that the correspondence below and the oracle
    # here distinguish max / last / first / min whatever the seed
    for name, spec, expected in directed_order_specs():
        out = one(spec, name)
        got = out[0] if out[0] == "ok" else out[1]
        if got != expected:
            if expected == "ok":
                run.fail(f"valid-table-refused:{out[1]}", f"directed table {name} is refused: {out[2]}", spec_json(spec))
            elif out[0] == "ok":
                run.fail("rejects:event-before-last-visit:accepted", f"directed table {name}: an observed event before the maximal age of its "
                         "individual minus tol_diff is accepted", spec_json(spec), expected="LeaspyDataInputError", observed="accepted")
            else:
                run.fail(f"rejects:event-before-last-visit:{out[2].split(':')[0]}", f"directed table {name} refused with {out[2]}", spec_json(spec))
        elif out[0] == "ok" and spec["layout"] == "joint":
            property_oracle(run, spec, out[1], digits)
    cov = dict(run.distribution.get("row_order_vs_aggregate", {}))
    run.extra["row_order_vs_aggregate"] = cov
    need = ["last-row-is-not-max-age", "first-row-is-not-max-age", "first-row-is-not-min-age", "event-before-max-age-but-not-before-last-row-age",
            "event-before-max-age-but-not-before-first-row-age"]
    if any(not cov.get(k) for k in need):
        run.broken("correspondence:row-orders", f"the generated tables do not exercise every row order the aggregates are sensitive to: {cov}")

    # the model, executed inside Coq on the same tables
    bad = run.vm_bad_indices("ingest", header, "table * observed", cases, "(fun c => agree PP (fst c) (snd c))", shard=60 if not thorough else 250)
    for i in bad or []:
        tag, spec, out = metas[i]
        run.fail(f"model-disagrees:{tag if tag in MALFORMATIONS else spec['layout']}:{out[0] if out[0] == 'ok' else out[1]}",
                 "the implementation's result (tensors, counters or error class) differs from the ingestion model evaluated in Coq",
                 spec_json(spec), observed=(out[1] if out[0] == "err" else {k: v for k, v in out[1].items() if k in ("indices", "times", "values", "mask", "nvis", "nobs_ft", "event", "cov")}))
    run.extra["model_cases"] = len(cases)


def main(run: Run):
    translate(run)
    ok_p = run.prove("C14", OBLIGATIONS)
    run.assumptions += [
        "pandas semantics as modelled: groupby(level='ID', sort=False) yields groups in order of first appearance with rows in original order; "
        "join/duplicated/round/infer_dtype as described in Io/Ingest.v (compared on every generated table)",
        "ages are generated away from float64 ties of round(x*1e6, half-even); the model rounds the exact rational",
        "tables are rectangular (a DataFrame); column labels are not modelled except the covariate names flag",
    ]
    run.trusted += [
        "harness/props/c14.py: encoding of a generated table as DataFrame and as Coq literal; float -> exact rational (as_integer_ratio)",
        "Io/F32.v executable float64/float32 round-to-nearest-even (validated by exact comparison with numpy/torch on every case)",
    ]
    run.explanation = ("T1: the ordered decision table of the four dataframe readers is regenerated from the source (coq/gen/GenC14.v) and proved equal to "
                       "the table whose generic interpretation is proved equal to the hand-written model (Io/IngestSrc*.v). "
                       "Theorems in Coq over all tables / permutations on a model mirroring the readers line by line; the model is run inside Coq on "
                       "the generated tables and compared field by field with Data.from_dataframe + Dataset; implementation-side oracles: "
                       "from-scratch recomputation of the promised tensors, row-permutation metamorphic test, to_pandas round trip, caller's table untouched.")
    try:
        check(run)
    except Exception as e:  # noqa
        import traceback
        traceback.print_exc()
        run.broken("search", f"{type(e).__name__}: {e}")
    return run.finish()


def replay(run: Run, path: str):
    from harness.common import use_impl
    use_impl()
    d = json.load(open(path))
    inp = d.get("input")
    if isinstance(inp, dict) and "table" in inp:
        inp = inp["table"]
    if not isinstance(inp, dict) or "layout" not in inp:
        print("replay: this file records a broken obligation, re-running the check")
        return main(run)
    spec = spec_from_json(inp)
    digs, _ = impl_constants()
    out, untouched = observe(spec)
    print("table:", json.dumps(inp)[:2000])
    print("caller's table untouched:", untouched)
    print("implementation:", out[0], out[1] if out[0] == "err" else {k: v for k, v in out[1].items() if k in ("indices", "data_times", "times", "values", "mask", "nvis", "nobs_ft", "event", "cov")})
    n0 = len(run._fails)
    sig = d.get("signature", "")
    if out[0] == "ok":
        if spec["layout"] != "event" and "malformation" not in spec:
            property_oracle(run, spec, out[1], sorted(digs)[0])
            metamorphic(run, run.rng("replay"), spec, out[1])
        print("round trip:", round_trip(run, spec, out))
        if "malformation" in spec and MALFORMATIONS[spec["malformation"]][1]:
            run.fail("rejects", "malformed table accepted", inp)
    else:
        if "malformation" not in spec:
            run.fail("valid-table-refused", out[2], inp)
        elif out[1] != "DataError" and MALFORMATIONS[spec["malformation"]][1]:
            run.fail("rejects", f"refused with {out[2]}", inp)
    if not untouched:
        run.fail("caller-table-modified", "caller's table modified", inp)
    bad = len(run._fails) - n0 + len(run._known_hit)
    for f in run._fails[n0:]:
        print("FAIL", f["signature"], f["what"])
    for s, w in run._known_hit.items():
        print("FAIL (known finding)", s, w)
    print("REPLAY", "FAILS" if bad else "passes", f"(recorded signature: {sig})")
    return 1 if bad else 0
