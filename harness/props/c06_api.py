"""C06 — differential run of the real WeightedTensor API against the Coq model (Masked/Weighted.v).

A case = (environment of literal operands, expression tree over the API, one query).  The case is evaluated
with the real `leaspy.utils.weighted_tensor` and rendered as a Coq literal together with the observed outcome;
`Leaspy.Masked.Weighted.check_case` re-evaluates it inside Coq (vm_compute) and compares exactly.

Exactness: all value tensors are float64 and the generator tracks a bound on |finite entries| * denominator so
that every finite intermediate is an integer multiple of a small power of two below 2^50 — no rounding ever
happens, and the model (exact rationals + inf/NaN) must agree entry for entry.
"""
from __future__ import annotations

import math
from fractions import Fraction

LIMIT = 2 ** 50
ERR = {"AssertionError": "EAssertion", "NotImplementedError": "ENotImplemented", "RuntimeError": "ERuntime",
       "IndexError": "EIndex", "ValueError": "EValue"}
BINOPS = ["add", "sub", "mul", "truediv", "lt", "le", "eq", "ne", "gt", "ge"]
COQ_BIN = dict(add="BAdd", sub="BSub", mul="BMul", truediv="BDiv", lt="BLt", le="BLe", eq="BEq", ne="BNe", gt="BGt", ge="BGe")
MAPS = {  # name -> (torch function, Coq function, bound transformer)
    "square": (lambda torch: torch.square, "(fun x => amul x x)", lambda m, d: (m * m, d * d)),
    "neg": (lambda torch: torch.neg, "aneg", lambda m, d: (m, d)),
    "plus1": (lambda torch: (lambda v: v + 1), "(fun x => aadd x aone)", lambda m, d: (m + 1, d)),
    "abs": (lambda torch: torch.abs, "aabs", lambda m, d: (m, d)),
    "times0": (lambda torch: (lambda v: v * 0), "(fun x => amul x azero)", lambda m, d: (m, d)),
}


# ----------------------------------------------------------------------------- rendering

def atom(x) -> str:
    x = float(x)
    if math.isnan(x):
        return "NaN"
    if math.isinf(x):
        return "PInf" if x > 0 else "NInf"
    f = Fraction(*x.as_integer_ratio())
    return f"(Fin ({f.numerator} # {f.denominator})%Q)"


def lst(items) -> str:
    return "[" + "; ".join(items) + "]"


def nats(xs) -> str:
    return lst(str(int(x)) for x in xs)


def zs(xs) -> str:
    return lst(f"({int(x)})%Z" for x in xs)


def ns(xs) -> str:
    return lst(f"{int(x)}%N" for x in xs)


def rshape(shape) -> str:
    return nats(reversed(list(shape)))


def opt(x, f) -> str:
    return "None" if x is None else f"(Some {f(x)})"


# ----------------------------------------------------------------------------- generation

class Gen:
    def __init__(self, rng, torch):
        self.r = rng
        self.torch = torch

    def shape(self, allow_scalar=True):
        r = self.r
        nd = r.choice([0, 1, 1, 2, 2, 2, 3, 3]) if allow_scalar else r.choice([1, 2, 2, 3, 3])
        return tuple((0 if r.random() < 0.02 else r.choice([1, 2, 2, 3, 3, 4])) for _ in range(nd))

    def value(self, divisor=False):
        r = self.r
        u = r.random()
        if divisor:
            return r.choice([1.0, 2.0, -2.0, 4.0, -1.0, 0.5, 0.0, 0.0, math.inf, -math.inf, math.nan, 1.0, 2.0])
        if u < 0.62:
            return float(r.randint(-6, 6))
        if u < 0.70:
            return 0.0
        if u < 0.76:
            return float(r.choice([-1, 1]) * 2 ** 20)
        if u < 0.86:
            return math.nan
        if u < 0.93:
            return math.inf
        return -math.inf

    def values(self, shape, divisor=False):
        n = math.prod(shape)
        return [self.value(divisor) for _ in range(n)]

    def weights(self, shape, kind=None):
        r = self.r
        n = math.prod(shape)
        kind = kind or r.choice(["bool", "bool", "bool", "int", "int"])
        p0 = r.choice([0.2, 0.4, 0.4, 0.7, 1.0 if r.random() < 0.3 else 0.5])
        if kind == "bool":
            w = [0 if r.random() < p0 else 1 for _ in range(n)]
        else:
            w = [0 if r.random() < p0 else r.randint(1, 3) for _ in range(n)]
        # empty aggregates: zero a whole slice along a random axis now and then
        if shape and n and r.random() < 0.35:
            ax = r.randrange(len(shape))
            k = r.randrange(shape[ax])
            strides = [math.prod(shape[i + 1:]) for i in range(len(shape))]
            for j in range(n):
                if (j // strides[ax]) % shape[ax] == k:
                    w[j] = 0
        return kind, w

    def leaf_w(self, shape, weights="random", divisor=False):
        """weights: 'random' | 'none' | (kind, list) to reuse"""
        r = self.r
        vals = self.values(shape, divisor)
        if weights == "random":
            weights = "none" if r.random() < 0.2 else self.weights(shape)
        leaf = dict(kind="W", shape=tuple(shape), vals=vals, w=None if weights == "none" else dict(shape=tuple(shape), kind=weights[0], data=list(weights[1])))
        return leaf

    def leaf_t(self, shape, divisor=False):
        return dict(kind="T", shape=tuple(shape), vals=self.values(shape, divisor))


def leaf_bound(leaf):
    fin = [abs(v) for v in leaf["vals"] if math.isfinite(v)]
    m = max(fin) if fin else 0
    den = 2 if any(math.isfinite(v) and v != int(v) for v in leaf["vals"]) else 1
    return (int(math.ceil(m)) or 1, den)


def build_leaf(torch, WeightedTensor, leaf):
    v = torch.tensor(leaf["vals"], dtype=torch.float64).reshape(leaf["shape"])
    if leaf["kind"] == "T":
        return v
    w = leaf["w"]
    if w is None:
        return WeightedTensor(v)
    wt = torch.tensor(w["data"], dtype=torch.bool if w["kind"] == "bool" else torch.int64).reshape(w["shape"])
    return WeightedTensor(v, wt)


def coq_leaf(leaf) -> str:
    vals = lst(atom(x) for x in leaf["vals"])
    if leaf["kind"] == "T":
        return f"LitT {rshape(leaf['shape'])} {vals}"
    w = leaf["w"]
    ws = "None" if w is None else f"(Some ({rshape(w['shape'])}, {zs(w['data'])}))"
    return f"LitW {rshape(leaf['shape'])} {vals} {ws}"


def broadcast_shape(s1, s2):
    out = []
    for i in range(1, max(len(s1), len(s2)) + 1):
        a = s1[-i] if i <= len(s1) else 1
        b = s2[-i] if i <= len(s2) else 1
        if a == b or b == 1:
            out.append(a)
        elif a == 1:
            out.append(b)
        else:
            return None
    return tuple(reversed(out))


class CaseBuilder:
    """Builds one random case; keeps the python description of the tree, the environment and exactness bounds."""

    def __init__(self, rng, torch, WeightedTensor):
        self.g = Gen(rng, torch)
        self.r = rng
        self.torch = torch
        self.WT = WeightedTensor
        self.env = []

    def add(self, leaf):
        self.env.append(leaf)
        return ("var", len(self.env) - 1)

    # each node returns (tree, shape or None when unknown/erroneous, weightinfo, bound(m, d), is_bool, has_expand)
    def leaf(self, shape=None, weights="random"):
        shape = self.g.shape() if shape is None else shape
        leaf = self.g.leaf_w(shape, weights)
        b = leaf_bound(leaf)
        return dict(tree=self.add(leaf), shape=tuple(shape), w=leaf["w"], bound=b, isbool=False, expanded=False)

    def bad_leaf(self):
        """constructor that must refuse: negative weight or weight of another shape"""
        shape = self.g.shape(allow_scalar=False)
        leaf = self.g.leaf_w(shape, weights=self.g.weights(shape, "int"))
        if self.r.random() < 0.5 and leaf["w"]["data"]:
            leaf["w"]["data"][self.r.randrange(len(leaf["w"]["data"]))] = -self.r.randint(1, 2)
        else:
            s2 = tuple(shape[:-1]) if self.r.random() < 0.5 else tuple(shape) + (1,)
            n2 = math.prod(s2)
            leaf["w"] = dict(shape=s2, kind="int", data=[self.r.randint(0, 2) for _ in range(n2)])
        return dict(tree=self.add(leaf), shape=None, w=None, bound=(1, 1), isbool=False, expanded=False)

    def second_operand(self, a):
        """an operand for a binary operation with node a: returns (tree, shape, winfo, bound, kindtag)"""
        r, g = self.r, self.g
        sa = a["shape"]
        u = r.random()
        if sa is None:
            n = self.leaf()
            return n["tree"], n["shape"], n["w"], n["bound"], "after-error"
        if u < 0.30 and a["w"] is not None and not a["expanded"] and a["w"]["shape"] == sa:
            # same weights (possibly another dtype with the same entries)
            w = a["w"]
            kind = w["kind"]
            if kind == "bool" and r.random() < 0.3:
                kind = "int"
            leaf = g.leaf_w(sa, weights=(kind, w["data"]))
            return self.add(leaf), sa, leaf["w"], leaf_bound(leaf), "same-weights"
        if u < 0.40:
            leaf = g.leaf_w(sa)  # fresh weights: almost always different -> NotImplementedError
            return self.add(leaf), sa, leaf["w"], leaf_bound(leaf), "fresh-weights"
        if u < 0.52:
            leaf = g.leaf_w(sa, weights="none")
            return self.add(leaf), sa, None, leaf_bound(leaf), "unweighted-wt"
        if u < 0.64:
            leaf = g.leaf_t(sa)
            return self.add(leaf), sa, None, leaf_bound(leaf), "tensor-same-shape"
        if u < 0.74:
            leaf = g.leaf_t(())
            return self.add(leaf), (), None, leaf_bound(leaf), "scalar"
        if u < 0.90:
            # broadcastable: drop leading axes, squash some axes to 1, or add a leading axis
            s = list(sa)
            if s and r.random() < 0.5:
                s = s[r.randint(1, len(s)):] if len(s) > 0 else s
            s = [1 if (d != 1 and r.random() < 0.35) else d for d in s]
            if r.random() < 0.3 and len(s) < 3:
                s = [r.choice([2, 3])] + s
            if r.random() < 0.5:
                leaf = g.leaf_t(tuple(s))
            else:
                leaf = g.leaf_w(tuple(s))
            return self.add(leaf), tuple(s), leaf.get("w"), leaf_bound(leaf), "broadcast"
        # incompatible
        s = list(sa) if sa else [2]
        k = r.randrange(len(s))
        s[k] = s[k] + 1 if s[k] != 0 else 2
        if s[k] == 2 and sa and sa[k] == 1:
            s[k] = 3
        leaf = g.leaf_t(tuple(s)) if r.random() < 0.5 else g.leaf_w(tuple(s))
        return self.add(leaf), tuple(s), leaf.get("w"), leaf_bound(leaf), "maybe-incompatible"

    def node(self, depth):
        r = self.r
        if depth == 0 or r.random() < 0.15:
            if r.random() < 0.04:
                return self.bad_leaf()
            return self.leaf()
        a = self.node(depth - 1)
        if a["isbool"]:
            return a
        u = r.random()
        (m, d) = a["bound"]
        if u < 0.50:
            op = r.choice(BINOPS[:4] * 3 + BINOPS[4:]) if depth == 1 else r.choice(BINOPS[:4])
            reverse = op in ("add", "sub", "mul", "truediv") and r.random() < 0.3
            if op == "truediv" and not reverse:
                # divisor is a raw leaf with exactly invertible entries
                sb = a["shape"] if a["shape"] is not None else ()
                if r.random() < 0.3:
                    sb = ()
                leaf = self.g.leaf_t(sb, divisor=True) if r.random() < 0.5 else self.g.leaf_w(sb, weights=(a["w"]["kind"], a["w"]["data"]) if (a["w"] is not None and not a["expanded"] and sb == a["shape"] and r.random() < 0.7) else "random", divisor=True)
                bt, bs, bw, bb, tag = self.add(leaf), tuple(sb), leaf.get("w"), (2, 4), "divisor"
            elif op == "truediv" and reverse:
                # b / a : a must be raw-leaf-like for exactness -> only when a is a leaf built for division; otherwise use sub
                op = "sub"
                bt, bs, bw, bb, tag = self.second_operand(a)
            else:
                bt, bs, bw, bb, tag = self.second_operand(a)
            if op in ("add", "sub"):
                nb = (m * max(d, bb[1]) // d + bb[0] * max(d, bb[1]) // bb[1], max(d, bb[1]))
                nb = (m + bb[0], max(d, bb[1]))
            elif op == "mul":
                nb = (m * bb[0], d * bb[1])
            elif op == "truediv":
                nb = (m * 2, d * 4)
            else:
                nb = (1, 1)
            if nb[0] * nb[1] >= LIMIT:
                return a
            # resulting shape / weights bookkeeping (None = erroneous or unknown; the implementation decides)
            rs = broadcast_shape(a["shape"], bs) if a["shape"] is not None and bs is not None else None
            if a["w"] is not None:
                rw = a["w"]
            else:
                rw = bw
            expanded = a["expanded"] or (rs != a["shape"]) or (a["w"] is None and bw is not None and bs != rs)
            self.tag = tag
            return dict(tree=("bin", op, reverse, a["tree"], bt), shape=rs, w=rw, bound=nb,
                        isbool=op in BINOPS[4:], expanded=expanded)
        if u < 0.58:
            return dict(a, tree=("neg", a["tree"]))
        if u < 0.64:
            return dict(a, tree=("abs", a["tree"]))
        if u < 0.72:
            n = r.choice([0, 1, 2, 2, 3])
            nb = (m ** max(n, 1), d ** max(n, 1))
            if nb[0] * nb[1] >= LIMIT:
                return a
            return dict(a, tree=("pow", n, a["tree"]), bound=nb)
        if u < 0.82:
            name = r.choice(sorted(MAPS))
            nb = MAPS[name][2](m, d)
            if nb[0] * nb[1] >= LIMIT:
                return a
            fill = r.choice([None, None, 0.0, 7.5, math.nan, math.inf, -3.0])
            if fill is not None and math.isfinite(fill):
                nb = MAPS[name][2](max(m, 8), max(d, 2))
            how = r.choice(["map", "factory"]) if fill is None else r.choice(["map", "factory"])
            return dict(a, tree=("map", name, fill, how, a["tree"]), bound=nb)
        if u < 0.88 and a["shape"] is not None and len(a["shape"]) >= 1 and math.prod(a["shape"]) > 0:
            sh = a["shape"]
            L = r.randint(1, 3)
            acc = r.random() < 0.5
            pos = []
            for _ in range(L):
                p = tuple(r.randrange(-d_, d_) for d_ in sh)
                if r.random() < 0.06:
                    p = p[:-1] + (sh[-1] + r.randint(0, 1),)
                pos.append(p)
            if not acc:
                seen, pos2 = set(), []
                for p in pos:
                    key = tuple(x % d_ for x, d_ in zip(p, sh))
                    if key not in seen:
                        seen.add(key)
                        pos2.append(p)
                pos = pos2
            L = len(pos)
            idx = [[p[k] for p in pos] for k in range(len(sh))]
            vals = [self.g.value() for _ in range(1 if r.random() < 0.3 else L)]
            vb = leaf_bound(dict(vals=vals))
            nb = (m + 3 * vb[0], max(d, vb[1]))
            if nb[0] * nb[1] >= LIMIT:
                return a
            return dict(a, tree=("index_put", idx, vals, acc, a["tree"]), bound=nb)
        if u < 0.94 and a["shape"] is not None and not a["expanded"]:
            sh = a["shape"]
            n = math.prod(sh)
            c = r.random()
            if c < 0.4:
                k = r.randint(1, 2)
                tgt = tuple(sh) + (1,) * k
                how = "unsqueeze_right"
            elif c < 0.7:
                tgt = (n,)
                how = "view"
            elif c < 0.85 and len(sh) >= 2:
                tgt = (sh[0] * sh[1],) + tuple(sh[2:])
                how = "view"
            else:
                tgt = (n + 1,)
                how = "view"
            ok = math.prod(tgt) == n
            w = a["w"]
            if w is not None and ok:
                w = dict(w, shape=tgt)
            return dict(a, tree=("view", tgt, how, a["tree"]), shape=tgt if ok else None, w=w)
        if a["shape"] is not None and (len(a["shape"]) >= 1 or r.random() < 0.5):
            sh = a["shape"]
            tgt = [(r.choice([2, 3]) if d_ == 1 and r.random() < 0.6 else d_) for d_ in sh]
            if r.random() < 0.4 or not tgt:
                tgt = [r.choice([1, 2])] + tgt
            if r.random() < 0.1 and tgt:
                k = r.randrange(len(tgt))
                tgt[k] = tgt[k] + 1
            tgt = tuple(tgt)
            ok = len(tgt) >= len(sh) and all(d_ == e or d_ == 1 for d_, e in zip(reversed(sh), reversed(tgt)))
            return dict(a, tree=("expand", tgt, a["tree"]), shape=tgt if ok else None, expanded=True)
        return a

    def query(self, node):
        r = self.r
        nd = len(node["shape"]) if node["shape"] is not None else r.randint(0, 3)
        fills_any = [0.0, 0.0, -5.0, 7.5, math.nan, math.inf]
        fill = 0.0 if node["isbool"] else r.choice(fills_any)
        if node["isbool"]:
            fill = r.choice([0.0, 0.0, -5.0, 3.0])

        def dims():
            u = r.random()
            if nd == 0 or u < 0.2:
                return []
            if u < 0.85:
                k = r.randint(1, nd)
                ds = r.sample(range(nd), k)
                return [d_ - nd if r.random() < 0.3 else d_ for d_ in ds]
            if u < 0.92:
                return [nd + r.randint(0, 1)]
            if u < 0.96:
                return [-nd - 1]
            d0 = r.randrange(nd)
            return [d0, d0 - nd if r.random() < 0.5 else d0]

        def spec():
            u = r.random()
            if u < 0.15:
                return ("default",)
            if u < 0.45:
                return ("dim", dims())
            if u < 0.95:
                v = r.random()
                if nd == 0 or v < 0.1:
                    bd = [r.randint(0, 4)]
                elif v < 0.85:
                    bd = r.sample(range(nd), r.randint(1, nd))
                    bd = [b - nd if r.random() < 0.3 else b for b in bd]
                elif v < 0.93:
                    bd = [-nd - r.randint(1, 2)]
                else:
                    bd = [r.randrange(nd)] * 2
                return ("but_dim", bd)
            return ("both", dims(), [0])
        u = r.random()
        if u < 0.10:
            return ("raw",)
        if u < 0.22:
            f = r.choice([None, 0.0, 7.5, math.nan, -math.inf]) if not node["isbool"] else r.choice([None, 0.0, 1.0])
            return ("filled", f)
        if u < 0.34:
            return ("weighted_value",)
        if u < 0.52:
            return ("wsum", fill, dims())
        if u < 0.64:
            return ("sum", fill, dims())
        if u < 0.82:
            return ("sum_dim", fill, spec())
        return ("wsum_dim", fill, spec())


def make_case(rng, torch, WeightedTensor, depth=None):
    cb = CaseBuilder(rng, torch, WeightedTensor)
    depth = rng.choice([0, 1, 1, 2, 2, 3]) if depth is None else depth
    node = cb.node(depth)
    q = cb.query(node)
    # sum_dim also accepts a plain tensor: now and then query a bare tensor leaf
    if q[0] == "sum_dim" and rng.random() < 0.08:
        leaf = cb.g.leaf_t(cb.g.shape())
        cb.env = [leaf]
        node = dict(tree=("var", 0), shape=leaf["shape"], w=None, bound=leaf_bound(leaf), isbool=False, expanded=False)
    return dict(env=cb.env, tree=node["tree"], query=q)


# ----------------------------------------------------------------------------- evaluation on the implementation

def ev(tree, env_objs, torch, wtmod):
    import operator
    WeightedTensor = wtmod.WeightedTensor
    k = tree[0]
    if k == "var":
        return env_objs[tree[1]]()
    if k == "bin":
        _, op, reverse, a, b = tree
        xa = ev(a, env_objs, torch, wtmod)
        xb = ev(b, env_objs, torch, wtmod)
        f = getattr(operator, op)
        if isinstance(xb, torch.Tensor) and xb.ndim == 0 and not reverse and id(xb) % 2 == 0:
            pass
        return f(xb, xa) if reverse else f(xa, xb)
    if k == "neg":
        return -ev(tree[1], env_objs, torch, wtmod)
    if k == "abs":
        x = ev(tree[1], env_objs, torch, wtmod)
        return abs(x)
    if k == "pow":
        return ev(tree[2], env_objs, torch, wtmod) ** tree[1]
    if k == "map":
        _, name, fill, how, a = tree
        x = ev(a, env_objs, torch, wtmod)
        f = MAPS[name][0](torch)
        if how == "map":
            return x.map(f, fill_value=fill)
        return wtmod.factory_weighted_tensor_unary_operator(f, fill_value=fill)(x)
    if k == "index_put":
        _, idx, vals, acc, a = tree
        x = ev(a, env_objs, torch, wtmod)
        indices = tuple(torch.tensor(l, dtype=torch.long) for l in idx)
        values = torch.tensor(vals, dtype=torch.float64)
        return x.index_put(indices, values, accumulate=acc)
    if k == "view":
        _, tgt, how, a = tree
        x = ev(a, env_objs, torch, wtmod)
        if how == "unsqueeze_right":
            return wtmod.unsqueeze_right(x, ndim=len(tgt) - x.ndim)
        return x.view(*tgt)
    if k == "expand":
        _, tgt, a = tree
        x = ev(a, env_objs, torch, wtmod)
        return x.expand(*tgt)
    raise ValueError(k)


def run_query_impl(q, x, torch, wtmod):
    WeightedTensor = wtmod.WeightedTensor
    k = q[0]

    def kw(dims):
        if not dims:
            return {}
        if len(dims) == 1 and dims[0] % 2 == 0:
            return {"dim": dims[0]}
        return {"dim": tuple(dims)}

    def speckw(spec):
        if spec[0] == "default":
            return {}
        if spec[0] == "dim":
            return {"dim": spec[1][0] if len(spec[1]) == 1 else tuple(spec[1])}
        if spec[0] == "but_dim":
            return {"but_dim": spec[1][0] if len(spec[1]) == 1 else tuple(spec[1])}
        return {"dim": tuple(spec[1]), "but_dim": tuple(spec[2])}
    if k == "raw":
        if isinstance(x, WeightedTensor):
            return ("W", x.value, x.weight)
        return ("T", x)
    if k == "filled":
        return ("T", x.filled(q[1]))
    if k == "weighted_value":
        return ("T", x.weighted_value)
    if k == "wsum":
        s, sw = x.wsum(fill_value=q[1], **kw(q[2]))
        return ("P", s, sw)
    if k == "sum":
        return ("T", x.sum(fill_value=q[1], **kw(q[2])))
    if k == "sum_dim":
        return ("T", wtmod.sum_dim(x, fill_value=q[1], **speckw(q[2])))
    if k == "wsum_dim":
        if q[2][0] == "default" and q[1] == 0.0:
            # the two projections used by the observation models
            s = wtmod.wsum_dim_return_weighted_sum_only(x)
            sw = wtmod.wsum_dim_return_sum_of_weights_only(x)
            return ("P", s, sw)
        s, sw = wtmod.wsum_dim(x, fill_value=q[1], **speckw(q[2]))
        return ("P", s, sw)
    raise ValueError(k)


def flat(t):
    return t.detach().reshape(-1).tolist()


def coq_outcome(res) -> str:
    k = res[0]
    if k == "E":
        return f"OutE {res[1]}"
    if k == "T":
        t = res[1]
        return f"OutT {rshape(t.shape)} {lst(atom(x) for x in flat(t))}"
    if k == "P":
        _, s, sw = res
        return f"OutP {rshape(s.shape)} {lst(atom(x) for x in flat(s))} {ns(flat(sw))}"
    if k == "W":
        _, v, w = res
        return f"OutW {rshape(v.shape)} {lst(atom(x) for x in flat(v))} {opt(w, lambda w_: ns(flat(w_)))}"
    raise ValueError(k)


def coq_fill(f) -> str:
    return atom(f)


def coq_tree(t) -> str:
    k = t[0]
    if k == "var":
        return f"(EVar {t[1]})"
    if k == "bin":
        return f"(EBin {COQ_BIN[t[1]]} {'true' if t[2] else 'false'} {coq_tree(t[3])} {coq_tree(t[4])})"
    if k == "neg":
        return f"(ENeg {coq_tree(t[1])})"
    if k == "abs":
        return f"(EAbs {coq_tree(t[1])})"
    if k == "pow":
        return f"(EPow {t[1]} {coq_tree(t[2])})"
    if k == "map":
        return f"(EMap {MAPS[t[1]][1]} {opt(t[2], coq_fill)} {coq_tree(t[4])})"
    if k == "index_put":
        return f"(EIndexPut {lst(zs(l) for l in t[1])} {lst(atom(x) for x in t[2])} {'true' if t[3] else 'false'} {coq_tree(t[4])})"
    if k == "view":
        return f"(EView {rshape(t[1])} {coq_tree(t[3])})"
    if k == "expand":
        return f"(EExpand {rshape(t[1])} {coq_tree(t[2])})"
    raise ValueError(k)


def coq_spec(spec) -> str:
    if spec[0] == "default":
        return "DimDefault"
    if spec[0] == "dim":
        return f"(Dim {zs(spec[1])})"
    if spec[0] == "but_dim":
        return f"(ButDim {zs(spec[1])})"
    return "DimAndButDim"


def coq_query(q) -> str:
    k = q[0]
    if k == "raw":
        return "QRaw"
    if k == "filled":
        return f"(QFilled {opt(q[1], coq_fill)})"
    if k == "weighted_value":
        return "QWeightedValue"
    if k == "wsum":
        return f"(QWsum {atom(q[1])} {zs(q[2])})"
    if k == "sum":
        return f"(QSum {atom(q[1])} {zs(q[2])})"
    if k == "sum_dim":
        return f"(QSumDim {atom(q[1])} {coq_spec(q[2])})"
    if k == "wsum_dim":
        return f"(QWsumDim {atom(q[1])} {coq_spec(q[2])})"
    raise ValueError(k)


def observe(case, torch, wtmod):
    """Evaluate the case on the implementation.  Returns ('E', coq_err) | ('T'|'P'|'W', tensors...) | ('X', text) for
    an exception class the model does not know (reported by the caller)."""
    WeightedTensor = wtmod.WeightedTensor
    env_objs = [(lambda leaf=leaf: build_leaf(torch, WeightedTensor, leaf)) for leaf in case["env"]]
    try:
        x = ev(case["tree"], env_objs, torch, wtmod)
        return run_query_impl(case["query"], x, torch, wtmod)
    except Exception as e:  # noqa: BLE001 - the class is the observation
        name = type(e).__name__
        if name in ERR:
            return ("E", ERR[name], str(e)[:200])
        return ("X", f"{name}: {e}"[:300])


def coq_case(case, res) -> str:
    return f"({lst(coq_leaf(l) for l in case['env'])}, {coq_tree(case['tree'])}, {coq_query(case['query'])}, {coq_outcome(res)})"


def tree_ops(t, acc):
    if t[0] == "var":
        return acc
    acc.append(t[0] if t[0] != "bin" else f"{'r' if t[2] else ''}{t[1]}")
    for x in t[1:]:
        if isinstance(x, tuple) and x and isinstance(x[0], str) and x[0] in ("var", "bin", "neg", "abs", "pow", "map", "index_put", "view", "expand"):
            tree_ops(x, acc)
    return acc


def jsonable(case):
    def fl(x):
        if isinstance(x, float):
            return "nan" if math.isnan(x) else ("inf" if x == math.inf else ("-inf" if x == -math.inf else x))
        if isinstance(x, (list, tuple)):
            return [fl(y) for y in x]
        if isinstance(x, dict):
            return {k: fl(v) for k, v in x.items()}
        return x
    return fl(case)


def unjson(x):
    if isinstance(x, str) and x in ("nan", "inf", "-inf"):
        return float(x)
    if isinstance(x, list):
        return [unjson(y) for y in x]
    if isinstance(x, dict):
        return {k: unjson(v) for k, v in x.items()}
    return x


def retuple(t):
    """json lists -> the tuple trees used above"""
    if isinstance(t, list) and t and isinstance(t[0], str) and t[0] in ("var", "bin", "neg", "abs", "pow", "map", "index_put", "view", "expand"):
        k = t[0]
        if k == "var":
            return ("var", t[1])
        if k == "bin":
            return ("bin", t[1], t[2], retuple(t[3]), retuple(t[4]))
        if k in ("neg", "abs"):
            return (k, retuple(t[1]))
        if k == "pow":
            return ("pow", t[1], retuple(t[2]))
        if k == "map":
            return ("map", t[1], t[2], t[3], retuple(t[4]))
        if k == "index_put":
            return ("index_put", t[1], t[2], t[3], retuple(t[4]))
        if k == "view":
            return ("view", tuple(t[1]), t[2], retuple(t[3]))
        if k == "expand":
            return ("expand", tuple(t[1]), retuple(t[2]))
    return t


def case_from_json(d):
    d = unjson(d)
    env = []
    for l in d["env"]:
        l = dict(l)
        l["shape"] = tuple(l["shape"])
        if l.get("w"):
            l["w"] = dict(l["w"], shape=tuple(l["w"]["shape"]))
        env.append(l)
    q = d["query"]
    q = tuple(tuple(x) if isinstance(x, list) and q[0] in ("sum_dim", "wsum_dim") and i == 2 else x for i, x in enumerate(q))
    return dict(env=env, tree=retuple(d["tree"]), query=q)
