"""C18 — simulation honours the requested design."""
from __future__ import annotations

import ast
import contextlib
import io
import itertools
import json
import math
import warnings
from fractions import Fraction

from harness.common import Run, SRC, coq_Q, coq_Z, coq_bool, coq_list, coq_string, frac
from harness.translate import pysym, pyvalid
from harness.translate.pysym import Emit, Untranslatable, definition, dotted

META = dict(
    technique="Coq theorems on a model of SimulationAlgorithm (constructor as a decision function over abstract Python values, "
              "crash conditions of _run, post-processing on lists over Q/Z); requirement rows, key lists, constants, beta "
              "parameters and the precision loop regenerated from the Python AST and proved equal to the model; exhaustive "
              "decision-table and exact-rational list correspondence against the running code inside Coq (vm_compute)",
    level_text="Unbounded theorems: beta parameters positive after the clamp, clip range, values in [0,1] (beta.rvs as a stated oracle), "
               "ages strictly increasing after rounding/keep-first de-duplication/sorting, every requested visit present at its rounded "
               "age with the values of the first such visit, individuals exact (ids '0'..'n-1' / table ids, one parameter row each), "
               "a LeaspyAlgoInputError can only come from the constructor, exact characterisation of the accepted designs that raise "
               "(C18_accepted_runs is refuted: F10 and further families), visit loop termination/divergence.",
    level_note="Trusted: Coq kernel; python-ast translators (pysym, pyvalid); pandas round/duplicated/groupby, numpy RNG, scipy beta.rvs, "
               "leaspy estimate (the model values are taken from the implementation); float arithmetic compared with stated tolerances; "
               "NaN/inf parameters and mixed-type ID columns are outside the model.",
    design_ref="DESIGN.md section 4 C18",
)

OBLIGATIONS = [
    "C18_beta_params_positive", "C18_beta_mean", "C18_clamp_factor_needed", "C18_clip_range", "C18_values_in_unit",
    "C18_ages_unique_increasing", "C18_ages_complete_rounded", "C18_first_visit_kept", "C18_round_half_even_tie",
    "C18_individuals_random", "C18_individuals_table", "C18_individuals_exact",
    "C18_refuses_before_generation", "C18_precision_none", "C18_precision_some", "C18_default_precision",
    "C18_min_spacing_refuted", "C18_accepted_crash_families_refuted", "C18_refusal_class_refuted",
    "C18_accepted_runs_partial", "C18_run_ok_iff",
    "C18_visits_increasing", "C18_visits_terminate", "C18_visits_diverge_refuted",
    "C18_tie_rows", "C18_tie_keys", "C18_tie_final", "C18_tie_precision", "C18_tie_beta", "C18_tie_adj_var",
    "C18_tie_constants", "C18_tie_options", "C18_tie_order",
]

HEADER = """(* REGENERATED on every run from $VERIF_REPO/src/leaspy by harness/props/c18.py — do not edit *)
From Coq Require Import ZArith QArith Qround Bool List String.
From Leaspy Require Import Base.QAux Api.Simulate.
Import ListNotations.
"""


# ----------------------------------------------------------------------------- translator


class Ex(pysym.Exec):
    def call(self, node, env, state):
        name = dotted(node.func)
        if name in ("np.minimum", "numpy.minimum") and len(node.args) == 2 and not node.keywords:
            return ("fn", "min", self.expr(node.args[0], env, state), self.expr(node.args[1], env, state))
        return super().call(node, env, state)


def _assigns(fn, name):
    out = []
    for n in ast.walk(fn):
        if isinstance(n, ast.Assign) and len(n.targets) == 1 and isinstance(n.targets[0], ast.Name) and n.targets[0].id == name:
            out.append(n)
    return out


def _one(fn, name):
    a = _assigns(fn, name)
    if len(a) != 1:
        raise Untranslatable(f"{len(a)} assignments to `{name}` in {fn.name}")
    return a[0].value


def _norm(node) -> str:
    return ast.unparse(node)


def _class(path, name) -> ast.ClassDef:
    for n in ast.walk(ast.parse(path.read_text())):
        if isinstance(n, ast.ClassDef) and n.name == name:
            return n
    raise Untranslatable(f"no class {name}")


def _body(fn):
    return [s for s in fn.body if not (isinstance(s, ast.Expr) and isinstance(s.value, ast.Constant))]


CHECK_FEATURES_SHAPE = [
    "if not isinstance(self.features, list):\n    raise LeaspyAlgoInputError",
    "if len(self.features) == 0:\n    raise LeaspyAlgoInputError",
    "for i, feature in enumerate(self.features):\n    if not isinstance(feature, str):\n        raise LeaspyAlgoInputError\n"
    "    if not feature.strip():\n        raise LeaspyAlgoInputError",
]


class _StripRaise(ast.NodeTransformer):
    """raise X(<message>) -> raise X   (messages are irrelevant to the decision)"""

    def visit_Raise(self, node):
        exc = node.exc.func if isinstance(node.exc, ast.Call) else node.exc
        return ast.Raise(exc=exc, cause=None)


def _shape(stmts) -> list[str]:
    out = []
    for s in stmts:
        s2 = _StripRaise().visit(ast.parse(ast.unparse(s)).body[0])
        out.append(ast.unparse(ast.fix_missing_locations(s2)))
    return out


def translate(run: Run) -> bool:
    try:
        path = SRC / "algo" / "simulate" / "simulate.py"
        cls = _class(path, "SimulationAlgorithm")
        M = {f.name: f for f in cls.body if isinstance(f, ast.FunctionDef)}
        base = pysym.load_methods(SRC / "algo" / "simulate" / "base.py", "BaseSimulationAlgorithm")
        out = [HEADER]
        gd = M["_generate_dataset"]
        qt = {"mu": "Q", "var": "Q", "max_var": "Q", "adj_var": "Q"}
        ex = Ex(pysym.Spec(types=qt))
        env = {k: ("var", k) for k in qt}
        em = Emit(qt, "Q")

        # clip bounds
        clips = [n for n in ast.walk(gd) if isinstance(n, ast.Call) and isinstance(n.func, ast.Attribute) and n.func.attr == "clip"]
        if len(clips) != 1 or clips[0].args or sorted(k.arg for k in clips[0].keywords) != ["max", "min"]:
            raise Untranslatable("expected exactly one `.clip(max=..., min=...)`")
        kw = {k.arg: pyvalid.const_float(k.value) for k in clips[0].keywords}
        out.append(f"Definition gen_clip_lo : Q := {pyvalid.coq_q(kw['min'])}.\nDefinition gen_clip_hi : Q := {pyvalid.coq_q(kw['max'])}.\n")
        # the clipped values are what the noise is built from
        if not isinstance(clips[0].func.value, ast.Subscript) or dotted(clips[0].func.value.value) != "values":
            raise Untranslatable("clip is not applied to the estimated values")

        # variance clamp, beta parameters
        e_max = ex.expr(_one(gd, "max_var"), env, {})
        out.append(definition("gen_max_var", [("mu", "Q")], "Q", em.num(e_max)))
        e_adj = ex.expr(_one(gd, "adj_var"), env, {})
        if not (e_adj[0] == "fn" and e_adj[1] == "min" and e_adj[2] == ("var", "var") and e_adj[3][0] == "bin" and e_adj[3][1] == "*"
                and e_adj[3][2][0] == "fconst" and e_adj[3][3] == ("var", "max_var")):
            raise Untranslatable("adj_var is not `np.minimum(var, <factor> * max_var)`: " + _norm(_one(gd, "adj_var")))
        out.append(f"Definition gen_clamp_factor : Q := {pyvalid.coq_q(e_adj[3][2][1])}.\n")
        out.append(definition("gen_adj_var", [("var", "Q"), ("max_var", "Q")], "Q", em.num(e_adj)))
        out.append(definition("gen_alpha", [("mu", "Q"), ("adj_var", "Q")], "Q", em.num(ex.expr(_one(gd, "alpha_param"), env, {}))))
        out.append(definition("gen_beta", [("mu", "Q"), ("adj_var", "Q")], "Q", em.num(ex.expr(_one(gd, "beta_param"), env, {}))))
        rvs = [n for n in ast.walk(gd) if isinstance(n, ast.Call) and dotted(n.func) == "beta.rvs"]
        if len(rvs) != 1 or [_norm(a) for a in rvs[0].args] != ["alpha_param", "beta_param"] or rvs[0].keywords:
            raise Untranslatable("expected exactly one `beta.rvs(alpha_param, beta_param)`")
        for nm in ("mu",):
            for a in _assigns(gd, nm):
                if _norm(a.value) != "df_long[feat + '_no_noise']":
                    raise Untranslatable("mu is not the clipped noiseless value")

        # rounding precision
        opts_node = _one(gd, "rounding_options")
        if not isinstance(opts_node, ast.Dict):
            raise Untranslatable("rounding_options is not a dict literal")
        opts = []
        for k, v in zip(opts_node.keys, opts_node.values):
            if not (isinstance(k, ast.Constant) and isinstance(k.value, int) and not isinstance(k.value, bool)):
                raise Untranslatable("rounding_options key")
            opts.append((k.value, pyvalid.const_float(v)))
        loops = [n for n in gd.body if isinstance(n, ast.For)]
        loop = [l for l in loops if _norm(l.iter) == "sorted(rounding_options.items())"]
        if len(loop) != 1:
            raise Untranslatable("no `for ... in sorted(rounding_options.items())`")
        loop = loop[0]
        if _norm(loop.target) != "(precision, val)" or loop.orelse or len(loop.body) != 1:
            raise Untranslatable("precision loop shape")
        iff = loop.body[0]
        if not (isinstance(iff, ast.If) and not iff.orelse and [_norm(s) for s in iff.body] == ["rounding_precision = precision", "break"]):
            raise Untranslatable("precision loop body: " + _norm(iff))
        init = [a for a in _assigns(gd, "rounding_precision") if isinstance(a.value, ast.Constant)]
        if len(init) != 1 or init[0].value.value is not None or gd.body.index(init[0]) > gd.body.index(loop):
            raise Untranslatable("rounding_precision is not initialised to None before the loop")
        zt = {"min_spacing_between_visits": "Q"}
        exz = pysym.Exec(pysym.Spec(types=zt))
        body = "None"
        for p, v in reversed(sorted(opts)):        # sorted(): by key, as the code does
            c = exz.expr(iff.test, {"val": ("fconst", v), "precision": pysym.const(Fraction(p)),
                                    "min_spacing_between_visits": ("var", "min_spacing_between_visits")}, {})
            body = f"(if {Emit(zt, 'Q').boolean(c)} then Some ({p})%Z else {body})"
        out.append("Definition gen_rounding_options : list (Z * Q) := [" + "; ".join(f"(({p})%Z, {pyvalid.coq_q(v)})" for p, v in sorted(opts)) + "].\n")
        out.append(definition("gen_precision", [("min_spacing_between_visits", "Q")], "option Z", body))
        # order of the post-processing statements: round, then keep-first de-duplication
        srcs = [_norm(s) for s in gd.body]
        i_round = [i for i, s in enumerate(srcs) if ".round(rounding_precision)" in s]
        i_dup = [i for i, s in enumerate(srcs) if "duplicated(" in s]
        if len(i_round) != 1 or len(i_dup) != 1:
            raise Untranslatable("expected one rounding statement and one de-duplication statement")
        if srcs[i_round[0]] != "df_sim.loc[:, 'TIME'] = df_sim['TIME'].round(rounding_precision)":
            raise Untranslatable("rounding statement: " + srcs[i_round[0]])
        dup = [n for n in ast.walk(gd.body[i_dup[0]]) if isinstance(n, ast.Call) and isinstance(n.func, ast.Attribute) and n.func.attr == "duplicated"][0]
        keep = {k.arg: k.value for k in dup.keywords}
        if dup.args or set(keep) - {"keep"} or ("keep" in keep and not isinstance(keep["keep"], ast.Constant)):
            raise Untranslatable("duplicated(...) arguments")
        keep_first = ("keep" not in keep) or keep["keep"].value == "first"
        if srcs[i_dup[0]].replace("keep='first'", "") != "df_sim = df_sim[~df_sim.index.duplicated()]":
            if keep_first:
                raise Untranslatable("de-duplication statement: " + srcs[i_dup[0]])
        out.append(f"Definition gen_keep_first : bool := {coq_bool(keep_first)}.\n")
        out.append(f"Definition gen_round_before_dedup : bool := {coq_bool(i_round[0] < i_dup[0])}.\n")

        # default spacing (_run)
        gets = [n for n in ast.walk(base["_run"]) if isinstance(n, ast.Call) and isinstance(n.func, ast.Attribute) and n.func.attr == "get"
                and dotted(n.func.value) == "self.param_study"]
        if len(gets) != 1 or len(gets[0].args) != 2 or _norm(gets[0].args[0]) != "'min_spacing_between_visits'":
            raise Untranslatable("expected `self.param_study.get('min_spacing_between_visits', <default>)` in _run")
        out.append(f"Definition gen_default_spacing : Q := {pyvalid.coq_q(pyvalid.const_float(gets[0].args[1]))}.\n")

        # _set_param_study
        sp = _body(M["_set_param_study"])
        if len(sp) != 1 or not isinstance(sp[0], ast.If) or _norm(sp[0].test) != "self.visit_type == VisitType.DATAFRAME":
            raise Untranslatable("_set_param_study shape")
        if [_norm(s) for s in sp[0].body] != [
                "patient_number = dict_param['df_visits'].groupby('ID').size().shape[0]",
                "self.param_study = {'patient_number': patient_number, 'df_visits': dict_param['df_visits']}"]:
            raise Untranslatable("_set_param_study, dataframe branch")
        el = sp[0].orelse
        if len(el) != 1 or not isinstance(el[0], ast.If) or _norm(el[0].test) != "self.visit_type == VisitType.RANDOM" or el[0].orelse:
            raise Untranslatable("_set_param_study, random branch")
        rb = el[0].body
        d0 = rb[0]
        if not (isinstance(d0, ast.Assign) and _norm(d0.targets[0]) == "self.param_study" and isinstance(d0.value, ast.Dict)):
            raise Untranslatable("random branch does not start with `self.param_study = {...}`")
        required = []
        for k, v in zip(d0.value.keys, d0.value.values):
            if not (isinstance(k, ast.Constant) and _norm(v) == f"dict_param[{k.value!r}]"):
                raise Untranslatable("param_study entry " + _norm(v))
            required.append(k.value)
        optional = []
        for st in rb[1:]:
            if not (isinstance(st, ast.If) and not st.orelse and isinstance(st.test, ast.Compare) and isinstance(st.test.left, ast.Constant)
                    and _norm(st.test) == f"{st.test.left.value!r} in dict_param" and len(st.body) == 1
                    and _norm(st.body[0]) == f"self.param_study[{st.test.left.value!r}] = dict_param[{st.test.left.value!r}]"):
                raise Untranslatable("optional key block " + _norm(st)[:80])
            optional.append(st.test.left.value)
        out.append("Definition gen_random_required : list string := " + coq_list(coq_string(k) for k in required) + ".\n")
        out.append("Definition gen_random_optional : list string := " + coq_list(coq_string(k) for k in optional) + ".\n")

        # __init__ order
        if [_norm(s) for s in _body(M["__init__"])] != [
                "super().__init__(settings)", "self.features = settings.parameters['features']",
                "self.visit_type = settings.parameters['visit_parameters']['visit_type']",
                "self._set_param_study(settings.parameters['visit_parameters'])", "self._validate_algo_parameters()"]:
            raise Untranslatable("__init__ shape")

        # _check_params rows
        reqs = pyvalid.literal_requirements(cls)
        if sorted(reqs) != ["dataframe", "random"]:
            raise Untranslatable("visit types of _PARAM_REQUIREMENTS: " + str(sorted(reqs)))
        out.append("Definition gen_rows_random : list row := " + pyvalid.coq_rows(pyvalid.compile_check_params(M["_check_params"], reqs["random"])) + ".\n")
        out.append("Definition gen_rows_frame : list row := " + pyvalid.coq_rows(pyvalid.compile_check_params(M["_check_params"], reqs["dataframe"])) + ".\n")

        # _validate_algo_parameters
        vb = _body(M["_validate_algo_parameters"])
        shape = _shape(vb[:-1])
        want = ["self._check_features()", "requirements = self._PARAM_REQUIREMENTS.get(self.visit_type)",
                "if not requirements:\n    raise LeaspyAlgoInputError", "self._check_params(requirements)",
                "if self.visit_type == VisitType.DATAFRAME:\n    df = self.param_study['df_visits']\n"
                "    if 'ID' not in df.columns or 'TIME' not in df.columns:\n        raise LeaspyAlgoInputError\n"
                "    if df['TIME'].isnull().any():\n        raise LeaspyAlgoInputError"]
        if shape != want:
            raise Untranslatable("_validate_algo_parameters shape:\n" + "\n".join(shape))
        last = vb[-1]
        if not (isinstance(last, ast.If) and _norm(last.test) == "self.visit_type == VisitType.RANDOM" and not last.orelse
                and len(last.body) == 1 and isinstance(last.body[0], ast.If) and not last.body[0].orelse
                and len(last.body[0].body) == 1 and isinstance(last.body[0].body[0], ast.Raise)
                and dotted(last.body[0].body[0].exc.func) == "LeaspyAlgoInputError"):
            raise Untranslatable("random branch of _validate_algo_parameters")
        t = last.body[0].test
        conj = t.values if isinstance(t, ast.BoolOp) and isinstance(t.op, ast.And) else [t]
        final = []
        for c in conj:
            if not (isinstance(c, ast.Compare) and len(c.ops) == 1 and isinstance(c.left, ast.Subscript) and dotted(c.left.value) == "self.param_study"
                    and isinstance(c.left.slice, ast.Constant) and isinstance(c.comparators[0], ast.Constant) and c.comparators[0].value == 0
                    and isinstance(c.ops[0], (ast.LtE, ast.Lt))):
                raise Untranslatable("final random test " + _norm(c))
            final.append(f"({coq_string(c.left.slice.value)}, {'Le0' if isinstance(c.ops[0], ast.LtE) else 'Lt0'})")
        out.append("Definition gen_random_final : list (string * cmpop) := " + coq_list(final) + ".\n")

        # _check_features: known shape (its decision is tied by exhaustive correspondence)
        if _shape(_body(M["_check_features"])) != CHECK_FEATURES_SHAPE:
            raise Untranslatable("_check_features shape:\n" + "\n".join(_shape(_body(M["_check_features"]))))
        run.gen("GenC18", "\n".join(out))
        run.trusted.append("translator harness/translate/pyvalid.py + pysym.py + harness/props/c18.py (python ast -> requirement rows, key lists, "
                           "constants, beta parameters, precision loop, statement order of simulate.py / base.py)")
        return True
    except (Untranslatable, KeyError, OSError, SyntaxError, IndexError, AttributeError) as e:
        run.broken("translate:GenC18", f"{type(e).__name__}: {e}", kind="broken-translation")
        return False


def main(run: Run):
    ok_t = translate(run)
    ok_p = run.prove("C18", OBLIGATIONS) if ok_t else False
    return run.finish()


def replay(run: Run, path: str):
    return 0
